.function f
.dest 2 d1
.source 2 s1
.temp 2 t1
.temp 2 t2
mullw t2, t1, s1
copyw t1, s1
addw d1, t1, t2
