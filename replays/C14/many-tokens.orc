.function f
.source 1 s1 a b c d e f g h i j k l m n o p q r s t
