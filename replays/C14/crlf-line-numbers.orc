.function f
.source 1 s1
.dest 1 d1
foo d1, s1
