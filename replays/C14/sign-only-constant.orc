.function f
.dest 4 d1
.const 4 c1 -
copyl d1, c1
