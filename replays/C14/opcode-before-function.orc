addb d1, s1, s2
