.function f
.dest 8 d1
loadq d1, 1/
