/* Runs every function of an .orc file through the JIT (default target, or
 * ORC_TARGET) and through the emulator for n = 1..40 on the same input and
 * compares destinations and accumulators.  1-D programs only. */
#include <orc/orc.h>
#include <orc/orcparse.h>
#include <stdio.h>
#include <stdlib.h>
#include <string.h>
static char *rd (const char *f) { FILE *F = fopen (f, "rb"); long n; char *b; if (!F) exit (2); fseek (F, 0, SEEK_END); n = ftell (F); rewind (F); b = malloc (n + 1); if (fread (b, 1, n, F) != (size_t) n) exit (2); b[n] = 0; fclose (F); return b; }
#define BYTES 1024
static unsigned char src[8][BYTES] __attribute__((aligned(64)));
static unsigned char dj[4][BYTES] __attribute__((aligned(64))), de[4][BYTES] __attribute__((aligned(64)));
int main (int argc, char **argv) {
  OrcProgram **progs; int np, i, k, n, bad = 0, nfail = 0;
  unsigned int seed = 1;
  orc_init ();
  np = orc_parse (rd (argv[1]), &progs);
  for (k = 0; k < 8; k++) for (i = 0; i < BYTES; i++) { seed = seed * 1103515245u + 12345u; src[k][i] = seed >> 16; }
  for (i = 0; i < np; i++) {
    OrcProgram *p = progs[i]; int failed_n = 0, first = 0;
    OrcCompileResult r = orc_program_compile (p);
    if (!ORC_COMPILE_RESULT_IS_SUCCESSFUL (r)) { printf ("%-28s not compiled for this target (%s)\n", p->name, orc_program_get_error (p)); continue; }
    for (n = 1; n <= 40; n++) {
      int accj[4], acce[4], diff = 0;
      OrcExecutor *ex = orc_executor_new (p);
      orc_executor_set_n (ex, n);
      for (k = 0; k < 8; k++) if (p->vars[ORC_VAR_S1 + k].size) orc_executor_set_array (ex, ORC_VAR_S1 + k, src[k]);
      for (k = 0; k < 8; k++) if (p->vars[ORC_VAR_P1 + k].size) orc_executor_set_param (ex, ORC_VAR_P1 + k, k == 0 ? 0x8000 : 0x18000);
      memset (dj, 0xee, sizeof dj); memset (de, 0xee, sizeof de);
      for (k = 0; k < 4; k++) if (p->vars[ORC_VAR_D1 + k].size) orc_executor_set_array (ex, ORC_VAR_D1 + k, dj[k]);
      orc_executor_run (ex);
      for (k = 0; k < 4; k++) accj[k] = p->vars[ORC_VAR_A1 + k].size ? orc_executor_get_accumulator (ex, ORC_VAR_A1 + k) : 0;
      for (k = 0; k < 4; k++) if (p->vars[ORC_VAR_D1 + k].size) orc_executor_set_array (ex, ORC_VAR_D1 + k, de[k]);
      orc_executor_emulate (ex);
      for (k = 0; k < 4; k++) acce[k] = p->vars[ORC_VAR_A1 + k].size ? orc_executor_get_accumulator (ex, ORC_VAR_A1 + k) : 0;
      if (memcmp (dj, de, sizeof dj) || memcmp (accj, acce, sizeof accj)) diff = 1;
      if (diff) { if (!failed_n) first = n; failed_n++; }
      orc_executor_free (ex);
    }
    printf ("%-28s %s", p->name, failed_n ? "MISMATCH" : "same as emulation");
    if (failed_n) { printf (" for %d of 40 values of n (first n=%d)", failed_n, first); nfail++; }
    printf ("\n");
    bad += failed_n;
  }
  return nfail ? 1 : 0;
}
