# one source array read by an up-sampling/resampling load and by a plain load
.function upd_and_plain
.dest 1 d1
.dest 1 d2
.source 1 s1
loadupdb d1, s1
copyb d2, s1

.function resnear_and_plain
.dest 4 d1
.dest 4 d2
.source 4 s1
.param 4 p1
.param 4 p2
ldresnearl d1, s1, p1, p2
copyl d2, s1

# controls: each kind of load on its own array
.function upd_and_plain_two_arrays
.dest 1 d1
.dest 1 d2
.source 1 s1
.source 1 s2
loadupdb d1, s1
copyb d2, s2

.function resnear_and_plain_two_arrays
.dest 4 d1
.dest 4 d2
.source 4 s1
.source 4 s2
.param 4 p1
.param 4 p2
ldresnearl d1, s1, p1, p2
copyl d2, s2
