/* Numeric directive arguments go through strtol(tok, NULL, 0) with no end
 * pointer and no range check: negative, non-numeric and overflowing values
 * are accepted without an error record. */
#include <orc/orc.h>
#include <orc/orcparse.h>
#include <stdio.h>
static int count_errors (const char *code, OrcProgram ***pp) {
  OrcParseError **e = NULL; int ne = 0, np = 0;
  orc_parse_code (code, pp, &np, &e, &ne);
  return ne;
}
int main (void) {
  static const char *cases[] = {
    ".function f\n.n -5\n.dest 1 d1\n.source 1 s1\ncopyb d1, s1\n",
    ".function f\n.flags 2d\n.m -1\n.dest 1 d1\n.source 1 s1\ncopyb d1, s1\n",
    ".function f\n.n mult banana\n.dest 1 d1\n.source 1 s1\ncopyb d1, s1\n",
    ".function f\n.n 99999999999\n.dest 1 d1\n.source 1 s1\ncopyb d1, s1\n",
    ".function f\n.dest 1 d1\n.source 1 s1 align -4\ncopyb d1, s1\n",
    ".function f\n.dest one d1\n.source 1 s1\ncopyb d1, s1\n",
    ".function f\n.dest 1 d1\n.source 1 s1\n.temp -2 t\ncopyb d1, s1\n",
    NULL };
  int i, bad = 0;
  orc_init ();
  for (i = 0; cases[i]; i++) {
    OrcProgram **p; int ne = count_errors (cases[i], &p);
    printf ("case %d: %d error record(s); constant_n=%d constant_m=%d n_multiple=%d d1.size=%d s1.alignment=%d\n",
        i, ne, p[0]->constant_n, p[0]->constant_m, p[0]->n_multiple,
        p[0]->vars[ORC_VAR_D1].size, p[0]->vars[ORC_VAR_S1].alignment);
    if (ne == 0) bad++;
  }
  printf ("%d of %d bad directives accepted silently\n", bad, i);
  return bad ? 1 : 0;
}
