.function f
.n -5
.dest 1 d1
.source 1 s1
copyb d1, s1
