#define ORC_ENABLE_UNSTABLE_API
#include <orc/orc.h>
#include <orc/orcparse.h>
#include <orc/orcbytecode.h>
#include <stdio.h>
#include <string.h>
static int run(OrcProgram*p,const char*tag){
  static unsigned char s[512] __attribute__((aligned(64))), d[512] __attribute__((aligned(64)));
  OrcCompileResult r=orc_program_compile(p); printf("%s: compile %d, s1.alignment=%d\n",tag,r,p->vars[ORC_VAR_S1].alignment); fflush(stdout);
  OrcExecutor*ex=orc_executor_new(p); orc_executor_set_n(ex,200); orc_executor_set_array(ex,ORC_VAR_D1,d); orc_executor_set_array(ex,ORC_VAR_S1,s+1);
  for(int i=0;i<512;i++)s[i]=i; orc_executor_run(ex); printf("%s: ran, d[0]=%d d[199]=%d\n",tag,d[0],d[199]); fflush(stdout); orc_executor_free(ex); return 0; }
int main(int argc,char**argv){ orc_init(); OrcProgram**pp; 
  const char*txt=".function f\n.dest 1 d1 align 64\n.source 1 s1 align 0\ncopyb d1, s1\n";
  orc_parse(txt,&pp);
  OrcBytecode*bc=orc_bytecode_from_program(pp[0]); OrcProgram*q=orc_program_new_from_static_bytecode(bc->bytecode);
  run(q,"after byte code round trip");
  run(pp[0],"parsed");
  return 0; }
