#!/bin/sh
# Builds and runs every reproducer against the build in $B (default /tmp/wt-hunt7/_b).
# One line per finding: FINDING NN: <summary> : REPRODUCED / not reproduced
cd "$(dirname "$0")" || exit 2
R=/tmp/wt-hunt7
B=${B:-$R/_b}
export B
O=$B/tools/orcc
INC="-I$R -I$B"
LIB="-L$B/orc -lorc-0.4 -Wl,-rpath,$B/orc -lm"
export ORC_DEBUG=0
W=$(mktemp -d /tmp/wt-hunt7-findings.XXXXXX)
res() { if [ "$2" = yes ]; then echo "FINDING $1: $3 : REPRODUCED"; else echo "FINDING $1: $3 : not reproduced"; fi; }
T="timeout 120"

# 01 orc_parse_full drops the log / crashes on NULL
r=no
if gcc $INC 01_parse_full_log/t.c -o $W/t01 $LIB 2>$W/t01.err; then
  $T $W/t01 > $W/t01.out 2>&1
  grep -q "^DEFECT" $W/t01.out && r=yes
fi
res 01 $r "orc_parse_full tests *log instead of log: errors are discarded when the log variable starts as NULL, NULL log pointer segfaults"

# 02 numeric directive arguments are not validated; orcc aborts on '.n -5'
r=no
if gcc $INC 02_directive_numbers_unchecked/t.c -o $W/t02 $LIB 2>$W/t02.err; then
  $T $W/t02 > $W/t02.out 2>&1
  $T $O --implementation -o $W/neg_n.c 02_directive_numbers_unchecked/neg_n.orc > $W/t02b.out 2>&1; rc=$?
  gcc $INC 02_directive_numbers_unchecked/align0.c -o $W/t02c $LIB 2>>$W/t02.err && { $T $W/t02c > $W/t02c.out 2>&1; rc2=$?; }
  if grep -q "7 of 7 bad directives accepted silently" $W/t02.out && [ $rc -ge 128 ]; then r=yes; fi
fi
res 02 $r "parser accepts negative/non-numeric/overflowing directive numbers without an error record; orcc then dies with SIGABRT (rc=$rc) on '.n -5'; 'align 0' compiles to aligned loads (rc=$rc2 on unaligned input)"

# 03 JIT accumulators (SSE/AVX/MMX rules)
r=no
if gcc $INC common/jit_vs_emu.c -o $W/jve $LIB 2>$W/jve.err; then
  $T $W/jve 03_jit_accumulator_lanes/acc.orc > $W/t03.out 2>&1
  [ "$(grep -c MISMATCH $W/t03.out)" -eq 3 ] && r=yes
fi
res 03 $r "x86 JIT: accl destroys its source operand in the 1-element tail, accw/accl add stale vector lanes in partial chunks (results differ from emulation)"

# 04 duplicate-name check skips the 16th temporary
r=no
$T $O --parse-only 04_dup_name_16th_temp/dup15.orc > $W/t04a.out 2>&1; a=$?
$T $O --parse-only 04_dup_name_16th_temp/dup16.orc > $W/t04b.out 2>&1; b=$?
if [ $a -ne 0 ] && grep -q "duplicate variable name" $W/t04a.out && [ $b -eq 0 ]; then r=yes; fi
res 04 $r "duplicate variable name is reported for temporaries 1..15 but not for the 16th (loop stops at ORC_VAR_T15)"

# 05 constants whose names start with '_' are merged by value
r=no
$T $O --parse-only 05_underscore_const_merged/ok.orc > $W/t05a.out 2>&1; a=$?
$T $O --parse-only 05_underscore_const_merged/us.orc > $W/t05b.out 2>&1; b=$?
if [ $a -eq 0 ] && [ $b -ne 0 ] && grep -q 'bad operand "_round"' $W/t05b.out; then r=yes; fi
res 05 $r "a .const whose name starts with '_' is merged into an earlier constant of equal value, its own name is then unknown"

# 06 JIT: one source read by two kinds of load
r=no
if [ -x $W/jve ]; then
  ORC_TARGET=sse $T $W/jve 06_jit_mixed_loads_same_source/mixed.orc > $W/t06.out 2>&1
  if grep -q "^upd_and_plain  *MISMATCH" $W/t06.out && grep -q "^upd_and_plain_two_arrays  *same" $W/t06.out; then r=yes; fi
fi
res 06 $r "x86 JIT: a source read both by loadupdb/ldresnearl and by a plain load gives wrong data (pointer update type is per array, last rule wins) instead of a compile failure"

# 07 orcc --target is ignored when an init function is generated
r=no
sh 07_orcc_target_ignored_with_init/run.sh > $W/t07.out 2>&1 && r=yes
res 07 $r "orcc --target T is honoured with --lazy-init but ignored with --init-function/.init (init function calls orc_program_compile)"

rm -f 07_orcc_target_ignored_with_init/lazy 07_orcc_target_ignored_with_init/init 07_orcc_target_ignored_with_init/lazy.c 07_orcc_target_ignored_with_init/init.c
[ -n "$KEEP" ] && echo "outputs kept in $W" || rm -rf $W
