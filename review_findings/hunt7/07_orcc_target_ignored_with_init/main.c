/* which target was the code of add_s16 generated for? */
#include <stdio.h>
#include <orc/orc.h>
void add_s16 (orc_int16 *d1, const orc_int16 *s1, const orc_int16 *s2, int n);
void t_init (void);
int main (void) { orc_int16 d[8], a[8] = {1,2,3,4,5,6,7,8}, b[8] = {1,1,1,1,1,1,1,1};
#ifdef CALL_INIT
  t_init ();
#endif
  add_s16 (d, a, b, 8); return d[7] == 9 ? 0 : 1; }
