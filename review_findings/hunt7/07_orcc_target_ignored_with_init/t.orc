.function add_s16
.dest 2 d1
.source 2 s1
.source 2 s2
addw d1, s1, s2
