#!/bin/sh
# prints the target names the library compiled add_s16 for, with and without --init-function
B=${B:-/tmp/wt-hunt7/_b}; O=$B/tools/orcc; cd "$(dirname "$0")"
INC="-I/tmp/wt-hunt7 -I$B"; LIB="-L$B/orc -lorc-0.4 -Wl,-rpath,$B/orc -lm"
$O --implementation --target mmx --lazy-init -o lazy.c t.orc
$O --implementation --target mmx --init-function t_init -o init.c t.orc
gcc -std=gnu99 $INC lazy.c main.c -o lazy $LIB
gcc -std=gnu99 $INC -DCALL_INIT init.c main.c -o init $LIB
l=$(ORC_DEBUG=4 ./lazy 2>&1 | grep -o "target [a-z0-9]*\|for target.*" | sort -u | tr '\n' ' ')
i=$(ORC_DEBUG=4 ./init 2>&1 | grep -o "target [a-z0-9]*\|for target.*" | sort -u | tr '\n' ' ')
gl=$(grep -c 'orc_target_get_by_name ("mmx")' lazy.c); gi=$(grep -c 'orc_target_get_by_name ("mmx")' init.c)
echo "lazy-init: $gl compile call(s) name mmx; init-function: $gi compile call(s) name mmx ($(grep -c 'orc_program_compile (p)' init.c) plain orc_program_compile)"
echo "debug log lazy: [$l] init: [$i]"
[ "$gl" -ge 1 ] && [ "$gi" -eq 0 ]
