/* orc_parse_full(code, &programs, &log): the third parameter is an OUT
 * parameter (the header gives no other way to obtain the messages), so the
 * natural call is with a log variable initialised to NULL.  The function
 * tests *log instead of log: with *log == NULL the errors are thrown away,
 * and with log == NULL (allowed by every release before 0.4.34) it
 * dereferences NULL. */
#include <orc/orc.h>
#include <orc/orcparse.h>
#include <stdio.h>
#include <stdlib.h>
#include <string.h>
#include <signal.h>
#include <setjmp.h>
static sigjmp_buf jb; static void on_segv(int s){ siglongjmp(jb,1); }
int main(void){
  const char *code = ".function f\n.dest 1 d1\n.source 1 s1\nnosuchopcode d1, s1\n";
  OrcProgram **progs = NULL; char *log = NULL; int bad = 0;
  orc_init();
  int n = orc_parse_full (code, &progs, &log);
  printf ("call 1 (log variable initialised to NULL): n=%d log=%s", n, log ? log : "(null)\n");
  if (log == NULL || strstr (log, "nosuchopcode") == NULL) { printf ("  -> the 'unknown opcode' error was not reported\n"); bad |= 1; }
  /* the same text through orc_parse_code does report it */
  { OrcParseError **e; int ne=0, np=0; OrcProgram **p2; orc_parse_code (code,&p2,&np,&e,&ne); printf ("orc_parse_code reports %d error(s): %s\n", ne, ne?e[0]->text:""); }
  signal (SIGSEGV, on_segv);
  if (sigsetjmp (jb,1) == 0) {
    n = orc_parse_full (code, &progs, NULL);
    printf ("call 2 (log == NULL): returned n=%d\n", n);
  } else { printf ("call 2 (log == NULL): SIGSEGV\n"); bad |= 2; }
  printf (bad ? "DEFECT\n" : "ok\n");
  return bad ? 1 : 0;
}
