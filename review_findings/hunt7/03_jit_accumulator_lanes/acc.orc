# (a) accl at the one-element tail shifts its SOURCE register in place
#     (pslldq $12), so a later use of the same temporary sees 0
.function acc_then_store
.dest 4 d1
.source 4 s1
.accumulator 4 a1
.temp 4 t
copyl t, s1
accl a1, t
copyl d1, t

# (b) accw/accl add the whole vector register; in the partial chunks
#     (1, 2, ... elements) the lanes beyond the chunk are only zero when
#     every operation on the way maps 0 to 0.  Adding a constant does not.
.function accw_plus_const
.source 2 s1
.accumulator 2 a1
.temp 2 t
addw t, s1, 5
accw a1, t

.function accl_plus_const
.dest 4 d1
.source 4 s1
.accumulator 4 a1
.temp 4 t
addl t, s1, 5
accl a1, t
copyl d1, s1
