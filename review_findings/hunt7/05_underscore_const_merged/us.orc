.function f
.dest 4 d1
.source 4 s1
.const 4 _bias 16
.const 4 _round 16
.temp 4 t
addl t, s1, _bias
addl d1, t, _round
