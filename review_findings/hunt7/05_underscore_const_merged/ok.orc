.function f
.dest 4 d1
.source 4 s1
.const 4 bias 16
.const 4 round 16
.temp 4 t
addl t, s1, bias
addl d1, t, round
