/* FINDING 12 (P1, undefined behaviour at compile time): the SSE/MMX/AVX rules for
 * shlb and shrub compute the byte mask with the program's shift constant as a C
 * shift count:  0xff << value  /  0xff >> value  (orc/orcrules-sse.c:1059, 1109,
 * same lines in orc/orcrules-mmx.c, orc/orcrules-avx.c:893, 960).  A constant
 * outside 0..31 (negative, or e.g. 72) is a shift by more than the width of
 * int: undefined behaviour inside orc_program_compile(), and the mask / the
 * psllw immediate that end up in the code are whatever the host CPU made of
 * it.  Nothing range-checks the constant.  Reported by UBSan. */
#include <orc/orc.h>
#include <stdio.h>

int main (void)
{
  OrcProgram *p;
  OrcCompileResult r;
  OrcTarget *t;

  orc_init ();
  t = orc_target_get_by_name ("sse");
  p = orc_program_new_ds (1, 1);
  orc_program_add_constant (p, 1, 72, "c1");
  orc_program_add_constant (p, 1, -3, "c2");
  orc_program_add_temporary (p, 1, "t1");
  orc_program_append_str (p, "shlb", "t1", "s1", "c1");
  orc_program_append_str (p, "shrub", "d1", "t1", "c2");
  r = orc_program_compile_full (p, t, orc_target_get_default_flags (t));
  fprintf (stderr, "result 0x%x '%s'\n", r, orc_program_get_error (p));
  orc_program_free (p);
  return 0;
}
