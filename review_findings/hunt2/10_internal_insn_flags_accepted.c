/* FINDING 10 (P1/P4, abort): the per-instruction flag word is taken verbatim
 * from the caller (orc_program_append_2 / orc_program_append_str_2,
 * orc/orcprogram.c:880, 1069) and from byte code (ORC_BC_INSTRUCTION_FLAGS,
 * orc/orcbytecode.c:494-496, 525), including the compiler-internal bits
 * ORC_INSN_FLAG_INVARIANT (1<<2) and ORC_INSN_FLAG_ADDED (1<<3) that share the
 * word with the public x2/x4 prefixes (orc/orcinstruction.h:29-33).
 * An ordinary instruction carrying bit 2 is skipped by register allocation
 * (orc_compiler_rewrite_vars2, orc/orccompiler.c:1255) and by the loop emitters
 * and is emitted with the loop invariants instead, with operands that have no
 * register: on SSE/AVX the x86 encoder hits ORC_ASSERT(0) and abort()s the
 * process (orc/orcx86insn.c:1421 get_vex_vvvv for AVX).
 * Here the flag comes from otherwise well-formed byte code. */
#include <orc/orc.h>
#include <orc/orcbytecode.h>
#include <stdio.h>

int main (void)
{
  static const orc_uint8 bc[64] = {
    ORC_BC_BEGIN_FUNCTION,
    ORC_BC_ADD_DESTINATION, 1, 1,
    ORC_BC_ADD_CONSTANT_INT64, 8, 1, 0, 0, 0, 0, 0, 0, 0,
    ORC_BC_ADD_TEMPORARY, 1,
    ORC_BC_INSTRUCTION_FLAGS, 4,          /* ORC_INSN_FLAG_INVARIANT */
    ORC_BC_convwb, ORC_VAR_T1, ORC_VAR_C1,
    ORC_BC_storeb, ORC_VAR_D1, ORC_VAR_T1,
    ORC_BC_END_FUNCTION, ORC_BC_END
  };
  OrcProgram *p;
  OrcCompileResult r;
  OrcTarget *t;

  orc_init ();
  t = orc_target_get_by_name ("avx");
  p = orc_program_new_from_static_bytecode (bc);
  fprintf (stderr, "parsed %d instructions, flags of #0 = %u\n", p->n_insns,
      p->insns[0].flags);
  r = orc_program_compile_full (p, t, orc_target_get_default_flags (t));
  fprintf (stderr, "result 0x%x '%s'\n", r, orc_program_get_error (p));
  orc_program_free (p);
  return 0;
}
