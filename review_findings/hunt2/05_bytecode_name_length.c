/* FINDING 05 (P4): orc_bytecode_parse_get_string() trusts the string length;
 * a negative length such as 0xfffffffe (-2 as int) is passed on as
 * orc_malloc ((size_t) -1), which cannot be satisfied, and orc_malloc() aborts
 * the process (ORC_ASSERT) (orc/orcbytecode.c:348-349).  A length of -1 allocates
 * 0 bytes and stores the terminating NUL into them.  All bytes of the byte code are read in bounds. */
#include <orc/orc.h>
#include <orc/orcbytecode.h>
#include <stdio.h>

int main (void)
{
  static const orc_uint8 bc[64] = {
    ORC_BC_BEGIN_FUNCTION,
    ORC_BC_SET_NAME, 255, 255, 255, 0xfe, 0xff, 0xff, 0xff,   /* length -2 */
    ORC_BC_END_FUNCTION, ORC_BC_END
  };
  OrcProgram *p;

  orc_init ();
  p = orc_program_new_from_static_bytecode (bc);
  fprintf (stderr, "parsed\n");
  orc_program_free (p);
  return 0;
}
