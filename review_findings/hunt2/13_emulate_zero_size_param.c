/* FINDING 13 (P1/P3): a parameter (or constant) declared with size 0 is accepted
 * by the parser, the construction API and the compiler, but crashes the
 * emulator.  orc_compiler_check_sizes() exempts ORC_VAR_TYPE_PARAM/CONST
 * operands from the size check (orc/orccompiler.c:749-752), so the compile
 * result is "usable" (0x100 here: no target, run by emulation); in
 * orc_executor_emulate() the scratch buffer of a variable is only allocated
 * "if (var->size)" (orc/orcexecutor.c:278-284) yet load_constant() writes the
 * parameter value through tmpspace[var] unconditionally (lines 304-320):
 * NULL pointer write (SEGV). */
#include <orc/orc.h>
#include <orc/orcparse.h>
#include <stdio.h>
#include <stdlib.h>

int main (void)
{
  static const char *text =
    ".function f\n"
    ".dest 1 d\n"
    ".source 1 s\n"
    ".param 0 p\n"
    "addb d, s, p\n";
  OrcProgram **programs = NULL;
  OrcParseError **errors = NULL;
  int n = 0, n_errors = 0;
  OrcCompileResult r;
  OrcExecutor *ex;
  unsigned char s[16] = { 1, 2, 3 }, d[16];

  orc_init ();
  orc_parse_code (text, &programs, &n, &errors, &n_errors);
  fprintf (stderr, "%d program(s), %d parse error(s)\n", n, n_errors);
  if (n != 1) return 2;
  r = orc_program_compile_full (programs[0], NULL, 0);   /* emulation */
  fprintf (stderr, "compile result 0x%x (fatal=%d)\n", r, ORC_COMPILE_RESULT_IS_FATAL (r));
  if (ORC_COMPILE_RESULT_IS_FATAL (r)) return 0;
  ex = orc_executor_new (programs[0]);
  orc_executor_set_n (ex, 16);
  orc_executor_set_array_str (ex, "s", s);
  orc_executor_set_array_str (ex, "d", d);
  orc_executor_set_param_str (ex, "p", 1);
  orc_executor_run (ex);
  fprintf (stderr, "d[0]=%d\n", d[0]);
  orc_executor_free (ex);
  orc_parse_error_freev (errors);
  orc_program_free (programs[0]);
  free (programs);
  return 0;
}
