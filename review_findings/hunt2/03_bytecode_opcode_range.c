/* FINDING 03 (P4): orc_bytecode_parse_function() indexes the opcode table with
 * an unchecked opcode number: any code >= 32 + n_opcodes (230..254, or larger via
 * the 255 escape) reads past the end of the static opcode table
 * (orc/orcbytecode.c:509-510) and treats what it finds as an opcode.
 * All bytes of the byte code below are read in bounds. */
#include <orc/orc.h>
#include <orc/orcbytecode.h>
#include <stdio.h>

int main (void)
{
  static const orc_uint8 bc[64] = {
    ORC_BC_BEGIN_FUNCTION,
    ORC_BC_ADD_DESTINATION, 1, 1,
    ORC_BC_ADD_SOURCE, 1, 1,
    250, ORC_VAR_D1, ORC_VAR_S1,     /* opcode number 250: beyond the table */
    ORC_BC_END_FUNCTION, ORC_BC_END
  };
  OrcProgram *p;

  orc_init ();
  fprintf (stderr, "opcodes in the table: %d (valid codes 32..%d)\n",
      orc_opcode_set_get ("sys")->n_opcodes, 31 + orc_opcode_set_get ("sys")->n_opcodes);
  p = orc_program_new_from_static_bytecode (bc);
  fprintf (stderr, "parsed: n_insns=%d\n", p->n_insns);
  orc_program_free (p);
  return 0;
}
