/* FINDING 01 (P1): the MIPS back end writes past the 64 KiB code buffer.
 * orc_mips_emit() (orc/orcmips.c:84-88) stores every instruction word without
 * checking compiler->codeptr against compiler->code + 65536, and the MIPS
 * assembler emits up to 2 + 8*(1 + number of alignment-specialised loops)
 * copies of the loop body (orc/orcprogram-mips.c:790-827: one 8x unrolled loop
 * per alignment combination of the arrays, up to ORC_N_LABELS).  A small,
 * ordinary program (1 destination, 6 sources, 26 instructions, far below every
 * documented limit) already overflows the buffer: heap-buffer-overflow WRITE. */
#include <orc/orc.h>
#include <stdio.h>

int main (void)
{
  OrcProgram *p;
  OrcTarget *t;
  OrcCompileResult r;
  char name[8];
  int i;

  orc_init ();
  t = orc_target_get_by_name ("mips");
  p = orc_program_new ();
  orc_program_add_destination (p, 1, "d1");
  for (i = 0; i < 6; i++) {
    sprintf (name, "s%d", i + 1);
    orc_program_add_source (p, 1, name);
  }
  orc_program_add_temporary (p, 1, "t1");
  orc_program_append_str (p, "loadb", "t1", "s1", NULL);
  for (i = 0; i < 24; i++) {
    sprintf (name, "s%d", (i % 6) + 1);
    orc_program_append_str (p, "addb", "t1", "t1", name);
  }
  orc_program_append_str (p, "storeb", "d1", "t1", NULL);

  r = orc_program_compile_full (p, t, orc_target_get_default_flags (t));
  fprintf (stderr, "result 0x%x, code size %d, error '%s'\n", r,
      p->orccode ? p->orccode->code_size : -1, orc_program_get_error (p));
  orc_program_free (p);
  return 0;
}
