/* FINDING 02 (P2/P3): orc_parse_full() leaks every error record.
 * It asks orc_parse_code() for the error array, flattens it into the log
 * string with orc_parse_splat_error() and then drops the array without
 * orc_parse_error_freev() (orc/orcparse.c:136-143).  Each call with a text
 * that has at least one problem leaks the vector, the records and their
 * texts; the leak grows with every iteration.  Detected by LeakSanitizer. */
#include <orc/orc.h>
#include <orc/orcparse.h>
#include <stdio.h>
#include <stdlib.h>

int main (void)
{
  int i, j;

  orc_init ();
  for (i = 0; i < 100; i++) {
    OrcProgram **programs = NULL;
    char *log = (char *) "";    /* non-NULL: ask for the log */
    int n = orc_parse_full (".function f\n.dest 1 d\nnosuchopcode d, d\n",
        &programs, &log);
    if (i == 0) fprintf (stderr, "n=%d log=%s", n, log ? log : "(none)\n");
    for (j = 0; j < n; j++) orc_program_free (programs[j]);
    free (programs);
    free (log);
  }
  return 0;
}
