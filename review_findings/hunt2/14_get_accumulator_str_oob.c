/* FINDING 14 (P2, legal run sequence): orc_executor_get_accumulator_str() looks
 * the accumulator up by name and then uses the *variable index*
 * (ORC_VAR_A1..A4 = 12..15) as index into ex->accumulators[4]
 * (orc/orcexecutor.c:160-168) instead of "var - ORC_VAR_A1" as
 * orc_executor_get_accumulator() does two functions earlier.  accumulators[] is
 * the last member of OrcExecutor, so the call reads 32..44 bytes past the end
 * of the executor: heap-buffer-overflow READ for an executor from
 * orc_executor_new(), and a wrong value in any case. */
#include <orc/orc.h>
#include <stdio.h>

int main (void)
{
  OrcProgram *p;
  OrcExecutor *ex;
  unsigned char s[16] = { 1, 2, 3, 4 };
  int by_index, by_name;

  orc_init ();
  p = orc_program_new_as (4, 1);               /* accumulator a1, source s1 */
  orc_program_add_temporary (p, 4, "t1");
  orc_program_add_temporary (p, 2, "t2");
  orc_program_append_ds_str (p, "convubw", "t2", "s1");
  orc_program_append_ds_str (p, "convuwl", "t1", "t2");
  orc_program_append_ds_str (p, "accl", "a1", "t1");
  orc_program_compile (p);
  ex = orc_executor_new (p);
  orc_executor_set_n (ex, 16);
  orc_executor_set_array_str (ex, "s1", s);
  orc_executor_run (ex);
  by_index = orc_executor_get_accumulator (ex, ORC_VAR_A1);
  by_name = orc_executor_get_accumulator_str (ex, "a1");
  fprintf (stderr, "by index: %d, by name: %d\n", by_index, by_name);
  orc_executor_free (ex);
  orc_program_free (p);
  return 0;
}
