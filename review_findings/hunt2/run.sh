#!/bin/bash
# Builds every reproducer in this directory against the ASan/UBSan build of the
# library (/tmp/wt-hunt2/_basan) and runs it.  One line per finding.
# Usage: ./run.sh [-v]     (-v keeps the full output of each run in out/NN.log)
cd "$(dirname "$0")" || exit 1
ROOT=/tmp/wt-hunt2
B=$ROOT/_basan
mkdir -p out
cat > out/ubsan.supp <<'SUPP'
# signed left shifts into the sign bit when assembling instruction words are
# everywhere in the encoders; not what these reproducers are about
shift-base:*
SUPP
export ORC_DEBUG=0
export UBSAN_OPTIONS=suppressions=$PWD/out/ubsan.supp:print_stacktrace=1
export ASAN_OPTIONS=detect_leaks=1

# NN|file|pattern that proves the defect in the output|summary
LIST='
01|01_mips_code_buffer_overflow|heap-buffer-overflow.*orc_mips_emit|MIPS back end overflows the 64 KiB code buffer (1 dest + 6 sources, 26 instructions)
02|02_parse_full_leaks_errors|LeakSanitizer: detected memory leaks|orc_parse_full() leaks all error records on every call
03|03_bytecode_opcode_range|global-buffer-overflow.*orc_bytecode_parse_function|byte code reader indexes the opcode table with an unchecked opcode number
04|04_bytecode_var_index|index 1024 out of bounds|byte code reader accepts any variable index, compile then indexes vars[] out of bounds
05|05_bytecode_name_length|allocation-size-too-big|byte code reader passes a negative name length to malloc (abort)
06|06_powerpc_label_table_overflow|orcpowerpc.c:727.*index 4[0-9] out of bounds|PowerPC back end writes labels[40..] (label counter not reset between its two passes)
07|07_neon64_label30_wrong_branch|WRONG BRANCH TARGET|AArch64: every 64-bit constant load reuses label 30, earlier branches jump to the last one
08|08_neon64_negative_size_hang|HANG: compile did not return|AArch64: compile never terminates for an accumulator of negative size
09|09_fatal_result_keeps_old_code|STALE EXECUTABLE CODE KEPT|fatal compile result (0x200) leaves the previous executable code attached
10|10_internal_insn_flags_accepted|XABORTX|internal instruction flag bit (INVARIANT) accepted from API/byte code aborts the x86 encoder
11|11_strtoll_signed_overflow|orcutils.c:2[0-9][0-9].*signed integer overflow|_strtoll(): signed overflow (UB) on ordinary 64-bit constants such as 0x8000000000000000
12|12_x86_shift_constant_ub|orcrules-sse.c.*shift exponent|x86 shlb/shrub rules shift by the unchecked program constant (UB at compile time)
13|13_emulate_zero_size_param|SEGV.*|parameter/constant of size 0 is accepted and crashes the emulator (NULL write)
14|14_get_accumulator_str_oob|heap-buffer-overflow.*|orc_executor_get_accumulator_str() reads accumulators[12..15] of a 4-entry array
'
echo "$LIST" | while IFS='|' read -r nn file pat summary; do
  [ -z "$nn" ] && continue
  if ! clang -g -O1 -fsanitize=address,undefined -fno-omit-frame-pointer \
      -DORC_ENABLE_UNSTABLE_API -I$ROOT -I$B $file.c -o out/$file \
      -L$B/orc -lorc-0.4 -Wl,-rpath,$B/orc -lm 2> out/$nn.build.log; then
    echo "FINDING $nn: $summary : BUILD FAILED (see out/$nn.build.log)"
    continue
  fi
  sh -c "timeout 120 out/$file > out/$nn.log 2>&1; exit \$?" 2>/dev/null
  rc=$?
  ok=0
  if [ "$pat" = "XABORTX" ]; then
    # the process must die from SIGABRT (ORC_ASSERT)
    [ $rc -eq 134 ] && ok=1
  elif grep -Eq "$pat" out/$nn.log; then
    ok=1
  fi
  if [ $ok -eq 1 ]; then
    echo "FINDING $nn: $summary : REPRODUCED"
  else
    echo "FINDING $nn: $summary : not reproduced (rc=$rc, see out/$nn.log)"
  fi
done
