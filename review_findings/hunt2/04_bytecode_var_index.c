/* FINDING 04 (P4/P1): the byte code reader stores operand (variable) indices
 * unchecked (orc/orcbytecode.c:510-524); nothing later checks them either, so
 * compiling the returned program indexes compiler->vars[] far out of bounds
 * (first in orc_compiler_check_sizes, orc/orccompiler.c:731). */
#include <orc/orc.h>
#include <orc/orcbytecode.h>
#include <stdio.h>

int main (void)
{
  static const orc_uint8 bc[64] = {
    ORC_BC_BEGIN_FUNCTION,
    ORC_BC_ADD_DESTINATION, 1, 1,
    ORC_BC_ADD_SOURCE, 1, 1,
    ORC_BC_copyb, 255, 0x00, 0x04 /* dest = variable #1024 */, ORC_VAR_S1,
    ORC_BC_END_FUNCTION, ORC_BC_END
  };
  OrcProgram *p;
  OrcCompileResult r;

  orc_init ();
  p = orc_program_new_from_static_bytecode (bc);
  fprintf (stderr, "parsed: n_insns=%d dest index=%d error='%s'\n", p->n_insns,
      p->insns[0].dest_args[0], orc_program_get_error (p));
  r = orc_program_compile_full (p, orc_target_get_by_name ("c"), 0);
  fprintf (stderr, "compile result 0x%x\n", r);
  orc_program_free (p);
  return 0;
}
