/* FINDING 11 (P3, undefined behaviour): _strtoll() (orc/orcutils.c:165-242), used
 * for every constant in .orc text and by orc_program_add_constant_str(),
 * accumulates into a signed orc_int64: "val * base", "val * base + c" and
 * "- val" overflow (signed overflow is undefined behaviour) for perfectly
 * ordinary 64-bit constants such as the double sign mask 0x8000000000000000L or
 * 0xffffffffffffffffL, and for -9223372036854775808.
 * Reported by UBSan (-fsanitize=signed-integer-overflow). */
#include <orc/orc.h>
#include <orc/orcparse.h>
#include <stdio.h>
#include <stdlib.h>

int main (void)
{
  static const char *text =
    ".function f\n"
    ".dest 8 d\n"
    ".source 8 s\n"
    ".const 8 signbit 0x8000000000000000L\n"
    ".const 8 minint -9223372036854775808L\n"
    "xorq d, s, signbit\n";
  OrcProgram **programs = NULL;
  int n, i;

  orc_init ();
  n = orc_parse (text, &programs);
  for (i = 0; i < n; i++) {
    fprintf (stderr, "c1=%llx c2=%llx\n",
        (unsigned long long) programs[i]->vars[ORC_VAR_C1].value.i,
        (unsigned long long) programs[i]->vars[ORC_VAR_C2].value.i);
    orc_program_free (programs[i]);
  }
  free (programs);
  return 0;
}
