/* FINDING 07 (P1, wrong code): AArch64 NEON: every 64-bit constant load uses the
 * same label number 30.
 * orc_neon_emit_loadiq() (orc/orcrules-neon.c:2063-2072) emits
 *     ldr dN, <pc+8> ; b .L30 ; <8 bytes of data> ; .L30:
 * orc_arm_emit_label() just overwrites compiler->labels[30] and the branches
 * are only resolved at the end by orc_arm_do_fixups() (orc/orcarm.c:307-352),
 * so with two non-zero 64-bit constants the first "b .L30" is patched to jump
 * to the *second* .L30: it skips the rest of the first load (trn1) and the whole
 * second load.  The compile result is ORC_COMPILE_RESULT_OK but the second
 * constant register is never loaded.
 * The program checks the branch distance in the generated machine code: each
 * such branch must skip exactly 3 words (itself + 2 data words). */
#include <orc/orc.h>
#include <stdio.h>

int main (void)
{
  OrcProgram *p;
  OrcCompileResult r;
  const orc_uint32 *w;
  int n, i, bad = 0, found = 0;

  orc_init ();
  p = orc_program_new ();
  orc_program_add_destination (p, 8, "d1");
  orc_program_add_source (p, 8, "s1");
  orc_program_add_constant_int64 (p, 8, 0x1111111122222222LL, "c1");
  orc_program_add_constant_int64 (p, 8, 0x3333333344444444LL, "c2");
  orc_program_add_temporary (p, 8, "t1");
  orc_program_append_str (p, "addq", "t1", "s1", "c1");
  orc_program_append_str (p, "xorq", "d1", "t1", "c2");
  r = orc_program_compile_full (p, orc_target_get_by_name ("neon"),
      ORC_TARGET_NEON_NEON | ORC_TARGET_NEON_64BIT);
  fprintf (stderr, "result 0x%x '%s'\n", r, orc_program_get_error (p));
  if (!p->orccode || !p->orccode->code) return 2;
  w = (const orc_uint32 *) p->orccode->code;
  n = p->orccode->code_size / 4;
  for (i = 0; i + 1 < n; i++) {
    /* ldr dN, #8   followed by   b <imm26> */
    if ((w[i] & 0xffffffe0) == 0x5c000040 && (w[i + 1] & 0xfc000000) == 0x14000000) {
      int off = w[i + 1] & 0x03ffffff;
      found++;
      fprintf (stderr, "constant load at word %d: branch skips %d words (must be 3)\n", i, off);
      if (off != 3) bad++;
    }
  }
  orc_program_free (p);
  if (found == 2 && bad) { fprintf (stderr, "WRONG BRANCH TARGET\n"); return 1; }
  return 0;
}
