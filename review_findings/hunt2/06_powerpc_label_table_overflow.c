/* FINDING 06 (P1): the PowerPC/AltiVec back end indexes compiler->labels[]
 * (ORC_N_LABELS = 40 entries) out of bounds.
 * Every vector constant that has to be loaded from the literal pool gets a label
 * from orc_compiler_label_new() in powerpc_load_constant() (orc/orcpowerpc.c:
 * 531-533).  orc_compiler_powerpc_assemble() runs the rules twice; after the
 * first pass it clears the labels of the constants but not compiler->n_labels
 * (orc/orcprogram-altivec.c:326-343), so a program with k pool constants uses
 * labels 0 .. 2+2k.  Up to ORC_N_CONSTANTS = 20 constants are allowed, i.e.
 * label numbers up to 42, and neither powerpc_add_label() (orcpowerpc.c:725-728)
 * nor powerpc_do_fixups() (orcpowerpc.c:404) checks the index: labels[40..42]
 * are written and read (they overlay compiler->labels_int[]).
 * Reported by UBSan (-fsanitize=bounds). */
#include <orc/orc.h>
#include <stdio.h>
#include <string.h>

int main (void)
{
  static const char *ops[] = { "splatw3q", "convhwb", "convhlw", "convql",
    "swapw", "swapl", "swapwl", "swapq", "swaplq", "select0wb", "select0ql",
    "mergewl", "mergebw", "splitlw", "mulf", "convfl", "mulhsw", "mullb",
    "mulhsb", NULL };
  static const int sz[4] = { 1, 2, 4, 8 };
  OrcProgram *p;
  OrcCompileResult r;
  int i, j;

  orc_init ();
  p = orc_program_new ();
  orc_program_add_destination (p, 1, "d1");
  for (i = 0; i < 4; i++) {
    char s[8], t[8], r1[8], r2[8];
    sprintf (s, "s%d", sz[i]); sprintf (t, "t%d", sz[i]);
    sprintf (r1, "r%d", sz[i]); sprintf (r2, "q%d", sz[i]);
    orc_program_add_source (p, sz[i], s);
    orc_program_add_temporary (p, sz[i], t);
    orc_program_add_temporary (p, sz[i], r1);
    orc_program_add_temporary (p, sz[i], r2);
    orc_program_append_str (p, sz[i] == 1 ? "loadb" : sz[i] == 2 ? "loadw" :
        sz[i] == 4 ? "loadl" : "loadq", t, s, NULL);
  }
  for (i = 0; ops[i]; i++) {
    OrcStaticOpcode *op = orc_opcode_find_by_name (ops[i]);
    const char *a[4] = { NULL, NULL, NULL, NULL };
    char b[4][8];
    int n = 0;
    for (j = 0; j < 2; j++) if (op->dest_size[j]) {
      sprintf (b[n], "%c%d", j ? 'q' : 'r', op->dest_size[j]); a[n] = b[n]; n++;
    }
    for (j = 0; j < 4; j++) if (op->src_size[j]) {
      sprintf (b[n], "t%d", op->src_size[j]); a[n] = b[n]; n++;
    }
    orc_program_append_str_2 (p, ops[i], 0, a[0], a[1], a[2], a[3]);
  }
  orc_program_append_str (p, "storeb", "d1", "t1", NULL);

  r = orc_program_compile_full (p, orc_target_get_by_name ("altivec"),
      ORC_TARGET_POWERPC_ALTIVEC);
  fprintf (stderr, "result 0x%x error '%s' (%d instructions)\n", r,
      orc_program_get_error (p), p->n_insns);
  orc_program_free (p);
  return 0;
}
