/* FINDING 09 (P1, result classification): a fatal compile result can leave
 * executable code behind.  orc_compiler_compile_program() returns
 * ORC_COMPILE_RESULT_UNKNOWN_PARSE as soon as the program carries a recorded
 * construction error (orc/orccompiler.c:322-328) - before it drops the code of
 * the previous compilation (lines 330-344).  After  compile (OK) -> append of
 * an unknown opcode -> compile (0x200, fatal)  the program still owns the old
 * OrcCode and program->code_exec still points at the old machine code, which
 * orc_executor_run() will happily call. */
#include <orc/orc.h>
#include <stdio.h>

int main (void)
{
  OrcProgram *p;
  OrcCompileResult r1, r2;
  int stale;

  orc_init ();
  p = orc_program_new_ds (1, 1);
  orc_program_append_ds_str (p, "copyb", "d1", "s1");
  r1 = orc_program_compile (p);
  orc_program_append_ds_str (p, "nosuchopcode", "d1", "s1");
  r2 = orc_program_compile (p);
  stale = ORC_COMPILE_RESULT_IS_FATAL (r2) && p->orccode != NULL &&
      p->code_exec != NULL && p->code_exec != (void *) orc_executor_emulate;
  fprintf (stderr, "first 0x%x, second 0x%x (fatal=%d) orccode=%p code_exec=%p -> %s\n",
      r1, r2, ORC_COMPILE_RESULT_IS_FATAL (r2), (void *) p->orccode,
      (void *) p->code_exec, stale ? "STALE EXECUTABLE CODE KEPT" : "ok");
  orc_program_free (p);
  return stale ? 1 : 0;
}
