/* FINDING 08 (P1, termination): compiling for AArch64 NEON never returns when
 * the program declares an accumulator with a negative size (it does not even
 * have to be used).  orc_neon_load_constants_outer() clears every accumulator
 * (orc/orcprogram-neon.c:343-345), orc_neon64_emit_binary() formats the register
 * name with orc_neon64_reg_name_vector() whose loop
 *     while (size) { size_idx++; size >>= 1; }       (orc/orcrules-neon.c:226-230)
 * never ends for size < 0 (arithmetic shift keeps -1; size_idx overflows).
 * Nothing rejects the size: orc_program_add_accumulator() stores it as is and
 * orc_compiler_check_sizes() only looks at variables used by instructions.
 * The reproducer arms a 10 s alarm and reports a hang if it fires. */
#include <orc/orc.h>
#include <stdio.h>
#include <signal.h>
#include <unistd.h>

static void on_alarm (int sig) { (void) sig; write (2, "HANG: compile did not return within 10 s\n", 41); _exit (3); }

int main (void)
{
  OrcProgram *p;
  OrcCompileResult r;

  orc_init ();
  signal (SIGALRM, on_alarm);
  p = orc_program_new ();
  orc_program_add_destination (p, 2, "d1");
  orc_program_add_source (p, 2, "s1");
  orc_program_add_accumulator (p, -1, "a1");
  orc_program_append_str (p, "copyw", "d1", "s1", NULL);
  alarm (10);
  r = orc_program_compile_full (p, orc_target_get_by_name ("neon"),
      ORC_TARGET_NEON_NEON | ORC_TARGET_NEON_64BIT);
  alarm (0);
  fprintf (stderr, "result 0x%x '%s'\n", r, orc_program_get_error (p));
  orc_program_free (p);
  return 0;
}
