.function bk_acc
.backup bk_acc_c
.source 4 s1
.accumulator 4 a1
accl a1, s1
