/* convfl / convdl of a NaN or out-of-range operand: emulation gives 0x7fffffff / 0x80000000,
 * the generated C does (int)float, which is undefined and folded differently by compilers */
#define ORC_ENABLE_UNSTABLE_API
#include <orc/orc.h>
#include <orc/orcparse.h>
#include <stdio.h>
#include <stdlib.h>
#include <string.h>
#include "out.h"
#define N 4
int main (int argc, char **argv)
{
  OrcProgram **progs; int np, ne, k, rc = 0; OrcParseError **errs;
  FILE *f = fopen (argv[1], "rb"); static char code[4096]; size_t r = fread (code, 1, sizeof code - 1, f); code[r] = 0;
  static const orc_uint32 src[N] = { 0x7fc00000, 0xcf32d05e /* -3e9 */, 0x4f32d05e /* 3e9 */, 0xffc00000 };
  orc_init ();
  orc_parse_code (code, &progs, &np, &errs, &ne);
  for (k = 0; k < np; k++) {
    OrcExecutor ex; orc_uint32 ref[N] = {0}, got[N] = {0}; int i;
    orc_program_compile (progs[k]);
    memset (&ex, 0, sizeof ex);
    orc_executor_set_program (&ex, progs[k]);
    ex.n = N; ex.arrays[ORC_VAR_D1] = ref; ex.arrays[ORC_VAR_S1] = (void *) src;
    orc_executor_emulate (&ex);
    switch (k) { case 0: cv_nan (got, N); break; case 1: cv_neg (got, N); break; case 2: cv_dnan (got, N); break; case 3: cv_run (got, src, N); break; }
    for (i = 0; i < N; i++) if (ref[i] != got[i]) { printf ("%s[%d]: emulate=0x%08x got=0x%08x\n", progs[k]->name, i, ref[i], got[i]); rc = 1; }
  }
  return rc;
}
