.function cv_nan
.dest 4 d1
.const 4 c1 0x7fc00000
convfl d1, c1

.function cv_neg
.dest 4 d1
convfl d1, -3e9

.function cv_dnan
.dest 4 d1
.const 8 c1 0x7ff8000000000000
convdl d1, c1

.function cv_run
.dest 4 d1
.source 4 s1
convfl d1, s1
