.function p8
.dest 8 d1
.source 8 s1
.param 8 p1
addq d1, s1, p1
