/* ".param 8 p1": orcc's prototype passes an int and the wrapper stores only the low word
 * (ex->params[ORC_VAR_P1]); the high word ex->params[ORC_VAR_T1] of the on-stack executor is
 * never written, but loadpq reads it.  Poison the stack first to make that visible. */
#include <stdio.h>
#include <string.h>
#include "out.h"
static void __attribute__((noinline)) poison (void) { volatile unsigned char b[16384]; memset ((void *) b, 0xee, sizeof b); }
int main (void)
{
  orc_uint64 s[2] = { 0, 100 }, d[2] = { 0, 0 };
  poison ();
  p8 (d, s, 5, 2);
  printf ("p8(p1=5): d[0]=0x%016llx d[1]=0x%016llx (expected 5 and 105)\n", (unsigned long long) d[0], (unsigned long long) d[1]);
  return !(d[0] == 5 && d[1] == 105);
}
