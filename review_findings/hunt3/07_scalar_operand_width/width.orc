.function cs_c4q
.dest 8 d1
.source 8 s1
.const 4 c1 -9
addq d1, s1, c1

.function cs_p4q
.dest 8 d1
.source 8 s1
.param 4 p1
addq d1, s1, p1

