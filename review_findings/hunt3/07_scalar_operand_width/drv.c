/* a 4-byte constant / parameter consumed by a 64-bit opcode (addq): emulation sign-extends it,
 * the generated C zero-extends it */
#define ORC_ENABLE_UNSTABLE_API
#include <orc/orc.h>
#include <orc/orcparse.h>
#include <stdio.h>
#include <stdlib.h>
#include <string.h>
#include "out.h"
#define N 4
int main (int argc, char **argv)
{
  OrcProgram **progs; int np, ne, k, rc = 0; OrcParseError **errs;
  FILE *f = fopen (argv[1], "rb"); static char code[4096]; size_t r = fread (code, 1, sizeof code - 1, f); code[r] = 0;
  static const orc_uint64 src[N] = { 0, 100, 0xffffffffULL, 0x123456789ULL };
  orc_init ();
  orc_parse_code (code, &progs, &np, &errs, &ne);
  for (k = 0; k < np; k++) {
    OrcExecutor ex; orc_uint64 ref[N] = {0}, got[N] = {0}; int i;
    orc_program_compile (progs[k]);
    memset (&ex, 0, sizeof ex);
    orc_executor_set_program (&ex, progs[k]);
    ex.n = N; ex.arrays[ORC_VAR_D1] = ref; ex.arrays[ORC_VAR_S1] = (void *) src;
    orc_executor_set_param (&ex, ORC_VAR_P1, -9);
    orc_executor_emulate (&ex);
    if (k == 0) cs_c4q (got, src, N); else cs_p4q (got, src, -9, N);
    for (i = 0; i < N; i++) if (ref[i] != got[i]) { printf ("%s[%d]: emulate=0x%016llx got=0x%016llx\n", progs[k]->name, i, (unsigned long long) ref[i], (unsigned long long) got[i]); rc = 1; }
  }
  return rc;
}
