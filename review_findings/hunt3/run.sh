#!/bin/bash
# Builds and runs every reproducer against the build tree /tmp/wt-hunt3/_b.
# One line per finding:  FINDING NN: <summary> : REPRODUCED | not reproduced
# Details of each run are kept in findings/_work/NN.log
R=/tmp/wt-hunt3
B=$R/_b
F=$R/findings
W=$F/_work
ORCC=$B/tools/orcc
INC="-I$R -I$B -I$F/common"
LIBS="-L$B/orc -lorc-0.4 -lm -Wl,-rpath,$B/orc"
TLIBS="-L$B/orc -L$B/orc-test -lorc-0.4 -lorc-test-0.4 -lm -Wl,-rpath,$B/orc -Wl,-rpath,$B/orc-test"
export LD_LIBRARY_PATH=$B/orc:$B/orc-test
TO="timeout 300"
rm -rf "$W"; mkdir -p "$W"
gcc -O1 -w $INC $F/common/gen.c -o $W/gen $LIBS || { echo "cannot build common/gen"; exit 2; }

report() { # nn summary status(0 = reproduced)
  if [ "$3" = 0 ]; then echo "FINDING $1: $2 : REPRODUCED"; else echo "FINDING $1: $2 : not reproduced"; fi
}

# orcc_pair DIR ORCFILE [orcc options] -> DIR/out.h DIR/out.c
orcc_pair() { local d=$1 f=$2; shift 2; mkdir -p $d; $ORCC "$@" --header -o $d/out.h $f && $ORCC "$@" --implementation -o $d/out.c $f; }

# harness DIR ORCFILE : generic driver (common/gen.c + drvlib.h) comparing the orcc function with emulation
harness_build() { local d=$1 f=$2; shift 2; mkdir -p $d; $W/gen $f $d && orcc_pair $d $f && gcc -std=gnu99 -O2 -w $INC -DHDR='"out.h"' -I$d "$@" $d/out.c $d/driver.c -o $d/exec $LIBS; }

######## 01
( d=$W/01; orcc_pair $d $F/01_fourth_accumulator_named_d4/acc4.orc
  gcc -std=gnu99 -c $INC $d/out.c -o $d/a.o; r1=$?
  gcc -std=gnu99 -DDISABLE_ORC -c $INC $d/out.c -o $d/b.o; r2=$?
  printf '#include "out.h"\nint main(void){return 0;}\n' > $d/h.c; gcc -std=gnu99 -c -I$d $d/h.c -o $d/h.o; r3=$?
  echo "compile rc: orc=$r1 disable_orc=$r2 header=$r3"; [ $r1 != 0 ] && [ $r2 != 0 ] && [ $r3 != 0 ] ) > $W/01.log 2>&1
grep -q "conflicting types for 'd4'\|redefinition of parameter 'd4'" $W/01.log; s=$?
report 01 "4 destinations + 4 accumulators: orcc names the 4th accumulator 'd4', header and implementation do not compile" $s

######## 02
( d=$W/02; orcc_pair $d $F/02_backup_directive_drops_accumulators/bk_acc.orc
  gcc -std=gnu99 -c $INC $d/out.c -o $d/a.o; gcc -std=gnu99 -DDISABLE_ORC -c $INC $d/out.c -o $d/b.o ) > $W/02.log 2>&1
n=$(grep -c "too few arguments to function 'bk_acc_c'" $W/02.log); [ "$n" -ge 2 ]; s=$?
report 02 ".backup on a function with an accumulator: both generated calls of the backup function omit the accumulator argument (compile error with and without DISABLE_ORC)" $s

######## 03
( d=$W/03; orcc_pair $d $F/03_backup_directive_drops_double_param/bk_dbl.orc
  gcc -std=gnu99 -c $INC $d/out.c -o $d/a.o ) > $W/03.log 2>&1
grep -q "too few arguments to function 'bk_dbl_c'" $W/03.log; s=$?
report 03 ".backup on a function with a .doubleparam: the executor wrapper omits the double argument (compile error)" $s

######## 04
( d=$W/04; orcc_pair $d $F/04_convfl_convdl_cast_ub/conv.orc; rc=1
  for cc in "gcc -O0" "gcc -O2" "clang -O2" "clang -O1 -fsanitize=float-cast-overflow"; do
    echo "== $cc (Orc-free function, -DDISABLE_ORC)"; $cc -std=gnu99 -w -DDISABLE_ORC $INC -I$d $d/out.c $F/04_convfl_convdl_cast_ub/drv.c -o $d/t $LIBS && $TO $d/t $F/04_convfl_convdl_cast_ub/conv.orc
  done ) > $W/04.log 2>&1
grep -q "cv_nan\[0\]: emulate=0x7fffffff got=0x00000000" $W/04.log && grep -q "cv_neg\[0\]: emulate=0x80000000 got=0x7fffffff" $W/04.log; s=$?
report 04 "convfl/convdl: (int) cast of NaN / out-of-range value is undefined; gcc -O2 yields 0 for a NaN constant, clang -O2 yields INT_MAX for -3e9, emulation 0x7fffffff / 0x80000000" $s

######## 05
( d=$W/05; orcc_pair $d $F/05_ldres_index_32bit/ldres.orc
  for cc in "gcc -O0" "gcc -O2" "clang -O2" "gcc -O1 -fsanitize=undefined"; do
    echo "== $cc"; $cc -std=gnu99 -w -DDISABLE_ORC $INC -I$d $d/out.c $F/05_ldres_index_32bit/drv.c -o $d/t $LIBS && $TO $d/t $F/05_ldres_index_32bit/ldres.orc
  done ) > $W/05.log 2>&1
grep -q "near_b: [1-9][0-9]* mismatches (first at i=32768" $W/05.log && grep -q "signed integer overflow: 65536 \* 32768" $W/05.log; s=$?
report 05 "ldresnearb/l: generated C computes the sample index in 32-bit int, emulation in 64 bits (n=40000, increment 65536: wrong from i=32768 at every -O level); ldreslin* has the same signed overflow (UBSan)" $s

######## 06
( d=$W/06; orcc_pair $d $F/06_accsadubl_signed_overflow/sad.orc
  for cc in "gcc -O2" "clang -O2" "gcc -O1 -fsanitize=undefined"; do
    echo "== $cc"; $cc -std=gnu99 -w -DDISABLE_ORC $INC -I$d $d/out.c $F/06_accsadubl_signed_overflow/drv.c -o $d/t $LIBS && $TO $d/t $F/06_accsadubl_signed_overflow/sad.orc
  done ) > $W/06.log 2>&1
grep -q "signed integer overflow: 255 + 2147483520" $W/06.log && grep -q "sad64: emulate=-1999967296 got=2295000000" $W/06.log; s=$?
report 06 "accsadubl: generated C accumulates in signed int (overflow UB for n*255 >= 2^31); UBSan reports it and clang -O2 returns +2295000000 instead of -1999967296 when the accumulator is widened" $s

######## 07
( d=$W/07; orcc_pair $d $F/07_scalar_operand_width/width.orc
  echo "== Orc-free functions (DISABLE_ORC)"; gcc -std=gnu99 -O2 -w -DDISABLE_ORC $INC -I$d $d/out.c $F/07_scalar_operand_width/drv.c -o $d/t1 $LIBS && $TO $d/t1 $F/07_scalar_operand_width/width.orc
  echo "== backup functions (ORC_CODE=backup)"; gcc -std=gnu99 -O2 -w $INC -I$d $d/out.c $F/07_scalar_operand_width/drv.c -o $d/t2 $LIBS && ORC_CODE=backup $TO $d/t2 $F/07_scalar_operand_width/width.orc ) > $W/07.log 2>&1
grep -q "cs_c4q\[0\]: emulate=0xfffffffffffffff7 got=0x00000000fffffff7" $W/07.log && grep -q "cs_p4q\[0\]: emulate=0xfffffffffffffff7 got=0x00000000fffffff7" $W/07.log; s=$?
report 07 "4-byte constant / parameter consumed by a 64-bit opcode: emulation sign-extends, generated C zero-extends (constant: all C forms; parameter: executor forms)" $s

######## 08
( d=$W/08; mkdir -p $d; gcc -std=gnu99 -w $INC $F/08_parser_nan_inf_identifiers/chk.c -o $d/chk $LIBS && $TO $d/chk $F/08_parser_nan_inf_identifiers/names.orc $F/08_parser_nan_inf_identifiers/info.orc ) > $W/08.log 2>&1
grep -q "text: copyl src operand = var 16" $W/08.log && grep -q 'bad constant operand "info"' $W/08.log; s=$?
report 08 "parser: an operand whose name starts like strtod's inf/nan is taken as a number (array 'nan' silently becomes the constant 0x7fc00000, temporary 'info' is rejected)" $s

######## 09
( d=$W/09; orcc_pair $d $F/09_compat_046_drops_operands/split.orc --compat 0.4.6; echo "orcc rc=$?"
  grep -n 'orc_program_append (p, "splitlw"' $d/out.c
  gcc -std=gnu99 -O2 -w $INC -I$d $d/out.c $F/09_compat_046_drops_operands/drv.c -o $d/t $LIBS && ORC_CODE=emulate $TO $d/t ) > $W/09.log 2>&1
grep -q 'orc_program_append (p, "splitlw", ORC_VAR_D1, ORC_VAR_S1, ORC_VAR_D1)' $W/09.log && grep -q "d2=0xaaaa" $W/09.log; s=$?
report 09 "orcc --compat 0.4.6 (accepted, minimum is 0.4.5) builds two-destination / three-source opcodes with orc_program_append and silently drops an operand (splitlw d1, d2, s1 becomes splitlw d1, d1, s1)" $s

######## 10
( d=$W/10; mkdir -p $d; $ORCC --test -o $d/t.c $R/testsuite/orcc/test.orc && gcc -std=gnu99 -w $INC $d/t.c -o $d/t $TLIBS && cd $d && { $TO $d/t -q | grep -v "^ *[0-9]* *[0-9]*:.* \([0-9a-f]*\) \1$"; echo "test rc=${PIPESTATUS[0]}"; } ) > $W/10.log 2>&1
grep -q "compiled function:   FAILED" $W/10.log && grep -q "ffcc73f0 fffcf7f1" $W/10.log; s=$?
report 10 "orcc --test never sets ORC_TEST_FLAGS_FLOAT: the test generated from testsuite/orcc/test.orc fails on orc_maxf because two NaNs are compared bit for bit" $s

######## 11
( d=$W/11; orcc_pair $d $F/11_jit_negative_stride/flip.orc
  gcc -std=gnu99 -O2 -w $INC -I$d $d/out.c $F/11_jit_negative_stride/drv.c -o $d/t $LIBS
  echo "== ORC_CODE=emulate"; ORC_CODE=emulate $TO $d/t; echo "rc=$?"
  echo "== ORC_CODE=backup"; ORC_CODE=backup $TO $d/t; echo "rc=$?"
  echo "== JIT"; $TO $d/t; echo "jit rc=$?" ) > $W/11.log 2>&1
grep -q "jit rc=139" $W/11.log && [ "$(grep -c 'flip ok' $W/11.log)" = 2 ]; s=$?
report 11 "JIT (x86-64): a negative stride of a 2-D function is loaded with a zero-extending 32-bit move and added to the 64-bit row pointer: SIGSEGV (emulate and backup are fine)" $s

######## 12
( d=$W/12; harness_build $d $F/12_jit_accl_clobbers_source/sumstore.orc
  echo "== JIT n=37"; N=37 $TO $d/exec $F/12_jit_accl_clobbers_source/sumstore.orc; echo "jit rc=$?"
  echo "== backup n=37"; N=37 ORC_CODE=backup $TO $d/exec $F/12_jit_accl_clobbers_source/sumstore.orc; echo "backup rc=$?" ) > $W/12.log 2>&1
grep -q "jit rc=1" $W/12.log && grep -q "backup rc=0" $W/12.log && grep -q "d1\[36\]" $W/12.log; s=$?
report 12 "JIT (sse/avx): accl shifts its source register in place in the one-element tail loop, so 'accl a1, t1; storel d1, t1' stores 0 in the last element (n=37)" $s

######## 13
( d=$W/13; harness_build $d $F/13_jit_accumulate_unused_lanes/lanes.orc
  echo "== JIT n=37"; N=37 P1=3 $TO $d/exec $F/13_jit_accumulate_unused_lanes/lanes.orc; echo "jit rc=$?"
  echo "== backup n=37"; N=37 P1=3 ORC_CODE=backup $TO $d/exec $F/13_jit_accumulate_unused_lanes/lanes.orc; echo "backup rc=$?" ) > $W/13.log 2>&1
grep -q "jit rc=1" $W/13.log && grep -q "backup rc=0" $W/13.log && grep -q "acc_biased: MISMATCH" $W/13.log && grep -q "acc_const: MISMATCH" $W/13.log; s=$?
report 13 "JIT (mmx/sse/avx): accw/accl add the whole vector register in the head/tail loops; lanes beyond the loaded elements are not zero after an operation with a constant or parameter, so the sums are too large" $s

######## 14
( $ORCC --implementation -o $W/14.c $F/14_parser_space_before_comma/space.orc; echo "orcc rc=$?" ) > $W/14.log 2>&1
grep -q "too many arguments for addw" $W/14.log; s=$?
report 14 "parser: 'addw d1 , s1 , s2' (blank before the comma) yields empty tokens and is rejected, while 'addw d1, s1, s2' and 'addw d1 s1 s2' are accepted" $s

######## 15
( d=$W/15; orcc_pair $d $F/15_param8_high_word_uninitialised/param8.orc
  gcc -std=gnu99 -O0 -w $INC -I$d $d/out.c $F/15_param8_high_word_uninitialised/drv8.c -o $d/t $LIBS
  for m in jit backup emulate; do echo "== ORC_CODE=$m"; ORC_CODE=$m $TO $d/t; done
  echo "== DISABLE_ORC"; gcc -std=gnu99 -O0 -w -DDISABLE_ORC $INC -I$d $d/out.c $F/15_param8_high_word_uninitialised/drv8.c -o $d/tn && $TO $d/tn ) > $W/15.log 2>&1
[ "$(grep -c 'd\[0\]=0xeeeeeeee00000005' $W/15.log)" = 3 ] && grep -q "d\[0\]=0x0000000000000005" $W/15.log; s=$?
report 15 "'.param 8 p1': the orcc wrapper stores only ex->params[P1]; loadpq also reads the never-written ex->params[T1] of the on-stack executor (stack garbage in JIT/backup/emulate, correct only with DISABLE_ORC)" $s
