.function sum_and_store
.dest 4 d1
.source 4 s1
.accumulator 4 a1
.temp 4 t1
copyl t1, s1
accl a1, t1
storel d1, t1
