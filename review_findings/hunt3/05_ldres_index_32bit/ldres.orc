.function near_b
.dest 1 d1
.source 1 s1
.param 4 p1
.param 4 p2
ldresnearb d1, s1, p1, p2

.function lin_b
.dest 1 d1
.source 1 s1
.param 4 p1
.param 4 p2
ldreslinb d1, s1, p1, p2
