#define ORC_ENABLE_UNSTABLE_API
#include <orc/orc.h>
#include <orc/orcparse.h>
#include <stdio.h>
#include <stdlib.h>
#include <string.h>
#include "out.h"
#define N 40000
#define OFF 131072
int main (int argc, char **argv)
{
  static unsigned char buf[4*OFF], ref[N], got[N];
  OrcProgram **progs; int np, ne, k, i, rc = 0; OrcParseError **errs;
  FILE *f = fopen (argv[1], "rb"); static char code[4096]; size_t r = fread (code, 1, sizeof code - 1, f); code[r] = 0;
  orc_init ();
  orc_parse_code (code, &progs, &np, &errs, &ne);
  for (i = 0; i < 4*OFF; i++) buf[i] = (i * 7 + (i >> 9)) & 0xff;
  for (k = 0; k < np; k++) {
    OrcExecutor ex; int bad = 0, first = -1;
    orc_program_compile (progs[k]);
    memset (&ex, 0, sizeof ex);
    orc_executor_set_program (&ex, progs[k]);
    ex.n = N; ex.arrays[ORC_VAR_D1] = ref; ex.arrays[ORC_VAR_S1] = buf + 2*OFF;
    ex.params[ORC_VAR_P1] = 0; ex.params[ORC_VAR_P2] = 65536;
    orc_executor_emulate (&ex);
    if (k == 0) near_b (got, buf + 2*OFF, 0, 65536, N); else lin_b (got, buf + 2*OFF, 0, 65536, N);
    for (i = 0; i < N; i++) if (ref[i] != got[i]) { if (first < 0) first = i; bad++; }
    printf ("%s: %d mismatches (first at i=%d: emulate=%d got=%d, s1[i]=%d)\n", progs[k]->name, bad, first, first >= 0 ? ref[first] : 0, first >= 0 ? got[first] : 0, first >= 0 ? buf[2*OFF+first] : 0);
    if (bad) rc = 1;
  }
  return rc;
}
