/* accsadubl over n = 9,000,000 elements with |s1-s2| = 255: the 32-bit sum passes 2^31.
 * Emulation wraps; the generated C adds signed ints (undefined behaviour). */
#define ORC_ENABLE_UNSTABLE_API
#include <orc/orc.h>
#include <orc/orcparse.h>
#include <stdio.h>
#include <stdlib.h>
#include <string.h>
#include "out.h"
#define N 9000000
int main (int argc, char **argv)
{
  unsigned char *a = malloc (N), *b = malloc (N);
  OrcProgram **progs; int np, ne; OrcParseError **errs; OrcExecutor ex; orc_uint32 got = 0; orc_int64 got64 = 0;
  FILE *f = fopen (argv[1], "rb"); static char code[4096]; size_t r = fread (code, 1, sizeof code - 1, f); code[r] = 0;
  int rc = 0;
  orc_init ();
  orc_parse_code (code, &progs, &np, &errs, &ne);
  memset (a, 0xff, N); memset (b, 0, N);
  orc_program_compile (progs[0]);
  memset (&ex, 0, sizeof ex);
  orc_executor_set_program (&ex, progs[0]);
  ex.n = N; ex.arrays[ORC_VAR_S1] = a; ex.arrays[ORC_VAR_S2] = b;
  orc_executor_emulate (&ex);
  sad (&got, a, b, N);
  sad64 (&got64, a, b, N);
  printf ("sad  : emulate=%d got=%d\n", ex.accumulators[0], (int) got);
  printf ("sad64: emulate=%lld got=%lld (what orcc's JIT/backup/emulate wrapper stores: *a1 = orc_executor_get_accumulator())\n", (long long) ex.accumulators[0], (long long) got64);
  if (ex.accumulators[0] != (int) got) rc = 1;
  if ((long long) ex.accumulators[0] != (long long) got64) rc = 1;
  return rc;
}
