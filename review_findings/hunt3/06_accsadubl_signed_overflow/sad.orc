.function sad
.source 1 s1
.source 1 s2
.accumulator 4 a1
accsadubl a1, s1, s2

.function sad64
.source 1 s1
.source 1 s2
.accumulator 4 a1 orc_int64
accsadubl a1, s1, s2
