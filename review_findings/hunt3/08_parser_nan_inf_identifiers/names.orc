.function copy_nan
.dest 4 d1
.source 4 nan
copyl d1, nan
