/* The text program "copyl d1, nan" (nan is a declared source array) must be the program
 * orc_program_append_str (p, "copyl", "d1", "nan") builds: source operand = the array */
#define ORC_ENABLE_UNSTABLE_API
#include <orc/orc.h>
#include <orc/orcparse.h>
#include <stdio.h>
#include <string.h>
static char *rd (const char *fn) { static char b[2][4096]; static int k; FILE *f = fopen (fn, "rb"); size_t r = fread (b[k], 1, 4095, f); b[k][r] = 0; fclose (f); return b[k++]; }
int main (int argc, char **argv)
{
  OrcProgram **progs, *api; int np, ne, rc = 0, i; OrcParseError **errs;
  orc_init ();
  orc_parse_code (rd (argv[1]), &progs, &np, &errs, &ne);
  api = orc_program_new ();
  orc_program_add_destination (api, 4, "d1");
  orc_program_add_source (api, 4, "nan");
  orc_program_append_str (api, "copyl", "d1", "nan", NULL);
  printf ("text: copyl src operand = var %d (%s, vartype %d)   api: var %d (%s, vartype %d)\n",
      progs[0]->insns[0].src_args[0], progs[0]->vars[progs[0]->insns[0].src_args[0]].name, progs[0]->vars[progs[0]->insns[0].src_args[0]].vartype,
      api->insns[0].src_args[0], api->vars[api->insns[0].src_args[0]].name, api->vars[api->insns[0].src_args[0]].vartype);
  if (progs[0]->insns[0].src_args[0] != api->insns[0].src_args[0]) rc = 1;
  orc_parse_code (rd (argv[2]), &progs, &np, &errs, &ne);
  for (i = 0; i < ne; i++) { printf ("info.orc line %d: %s\n", errs[i]->line_number, errs[i]->text); rc = 1; }
  return rc;
}
