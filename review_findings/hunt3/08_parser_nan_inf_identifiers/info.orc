.function use_info
.dest 2 d1
.source 2 s1
.temp 2 info
copyw info, s1
addw d1, info, s1
