.function flip_copy
.flags 2d
.dest 1 d1
.source 1 s1
copyb d1, s1
