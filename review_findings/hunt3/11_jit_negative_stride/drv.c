/* vertical flip: source read bottom-up through a negative stride */
#include <stdio.h>
#include <string.h>
#include "out.h"
#define W 32
#define H 4
int main (void)
{
  static orc_uint8 src[H][W], dst[H][W]; int x, y, rc = 0;
  for (y = 0; y < H; y++) for (x = 0; x < W; x++) src[y][x] = y * 40 + x;
  flip_copy (&dst[0][0], W, &src[H - 1][0], -W, W, H);
  for (y = 0; y < H; y++) for (x = 0; x < W; x++) if (dst[y][x] != src[H - 1 - y][x]) rc = 1;
  printf (rc ? "wrong result\n" : "flip ok\n");
  return rc;
}
