#define ORC_ENABLE_UNSTABLE_API
#include <orc/orc.h>
#include <orc/orcparse.h>
#include <stdio.h>
#include <stdlib.h>
#include <string.h>
#include <math.h>

#define GUARD 512
#define NARR 12

typedef struct {
  OrcProgram *p;
  int n, m;
  unsigned char *rbuf[NARR], *tbuf[NARR];
  unsigned char *rptr[NARR], *tptr[NARR];
  size_t total[NARR];
  int stride[NARR];
  int pi[8]; float pf[8]; orc_int64 pq[8]; double pd[8];
  OrcExecutor rex, tex;
  long long tacc[4], racc_cast[4];
  int c0;
} Ctx;

static const char *genv (const char *k, const char *d) { const char *v = getenv (k); return v ? v : d; }

static const orc_uint64 tab1[] = {0,1,2,0x7e,0x7f,0x80,0x81,0xfe,0xff,0x55,0x10};
static const orc_uint64 tab2[] = {0,1,2,0x7f,0x80,0xff,0x100,0x7ffe,0x7fff,0x8000,0x8001,0xfffe,0xffff,0x5555,0x00fe};
static const orc_uint64 tab4[] = {0,1,2,0xff,0x7fff,0x8000,0xffff,0x10000,0x7ffffffe,0x7fffffff,0x80000000u,0x80000001u,0xfffffffeu,0xffffffffu,0xffff8000u,0x55555555};
static const orc_uint64 tab8[] = {0,1,2,0xffffffffULL,0x100000000ULL,0x7fffffffULL,0x80000000ULL,0x7ffffffffffffffeULL,0x7fffffffffffffffULL,0x8000000000000000ULL,0x8000000000000001ULL,0xfffffffffffffffeULL,0xffffffffffffffffULL,0xffffffff80000000ULL,0xffffffff7fffffffULL,0x5555555555555555ULL};
static const orc_uint32 ftab[] = {0x00000000,0x80000000,0x3f800000,0xbf800000,0x3f000000,0x40200000,0x00012345,0x80012345,0x00800000,0x7f7fffff,0xff7fffff,0x7f800000,0xff800000,0x7fc00000,0x7f800001,0xffc00000,0x4f000000,0xcf000000,0xcf000001,0x4f800000,0x5f000000,0x3effffff,0x3fc00000,0x4b800001,0x47000000,0xc7000080, 0x46fffe00, 0x3f7fffff};
static const orc_uint64 dtab[] = {0x0ULL,0x8000000000000000ULL,0x3ff0000000000000ULL,0xbff0000000000000ULL,0x3fe0000000000000ULL,0x4004000000000000ULL,0x0000000012345678ULL,0x8000000012345678ULL,0x0010000000000000ULL,0x7fefffffffffffffULL,0xffefffffffffffffULL,0x7ff0000000000000ULL,0xfff0000000000000ULL,0x7ff8000000000000ULL,0x7ff0000000000001ULL,0xfff8000000000000ULL,0x41e0000000000000ULL,0xc1e0000000000000ULL,0xc1e0000000200000ULL,0x41dfffffffc00000ULL,0x43e0000000000000ULL,0x47efffffe0000000ULL,0x47f0000000000000ULL,0x36a0000000000000ULL,0x3690000000000000ULL,0x3810000000000000ULL};
#define NEL(a) ((int)(sizeof(a)/sizeof(a[0])))

static orc_uint32 lcg_state = 12345;
static orc_uint32 lcg (void) { lcg_state = lcg_state * 1103515245u + 12345u; return lcg_state >> 8; }

static void fill (unsigned char *b, size_t bytes, int size, int arr)
{
  const char *mode = genv ("FILL", "int");
  size_t e, ne = bytes / size;
  for (e = 0; e < ne; e++) {
    orc_uint64 v; int L; const orc_uint64 *t = NULL;
    if (!strcmp (mode, "rand")) { v = ((orc_uint64) lcg () << 40) ^ ((orc_uint64) lcg () << 20) ^ lcg (); }
    else if (!strcmp (mode, "float") && size == 4) { L = NEL (ftab); size_t d = 1; int a; for (a = 0; a < arr && a < 2; a++) d *= L; v = ftab[(e / d + (arr > 2 ? lcg () : 0)) % L]; }
    else if (!strcmp (mode, "float") && size == 8) { L = NEL (dtab); size_t d = 1; int a; for (a = 0; a < arr && a < 2; a++) d *= L; v = dtab[(e / d + (arr > 2 ? lcg () : 0)) % L]; }
    else {
      size_t d = 1; int a;
      switch (size) { case 1: t = tab1; L = NEL (tab1); break; case 2: t = tab2; L = NEL (tab2); break; case 4: t = tab4; L = NEL (tab4); break; default: t = tab8; L = NEL (tab8); break; }
      for (a = 0; a < arr && a < 2; a++) d *= L;
      v = t[(e / d + (arr > 2 ? lcg () : 0)) % L];
    }
    memcpy (b + e * size, &v, size);
  }
}

static void ctx_init (Ctx *c, OrcProgram *p)
{
  int v, i, srcidx = 0;
  int neg = atoi (genv ("NEG", "0"));
  memset (c, 0, sizeof *c);
  c->p = p;
  c->n = p->constant_n ? p->constant_n : atoi (genv ("N", "300"));
  c->m = p->is_2d ? (p->constant_m ? p->constant_m : atoi (genv ("M", "3"))) : 1;
  lcg_state = atoi (genv ("SEED", "1"));
  memset (&c->rex, 0, sizeof c->rex);
  c->rex.program = p;
  c->rex.arrays[ORC_VAR_A2] = p->orccode;
  c->rex.n = c->n;
  ORC_EXECUTOR_M (&c->rex) = c->m;
  for (i = 0; i < 8; i++) {
    char k[8]; const char *s; OrcVariable *pv = &p->vars[ORC_VAR_P1 + i];
    sprintf (k, "P%d", i + 1); s = genv (k, "3");
    if (!pv->size) continue;
    switch (pv->param_type) {
      case ORC_PARAM_TYPE_INT: c->pi[i] = (int) strtoll (s, NULL, 0); orc_executor_set_param (&c->rex, ORC_VAR_P1 + i, c->pi[i]); break;
      case ORC_PARAM_TYPE_FLOAT: c->pf[i] = strtof (s, NULL); orc_executor_set_param_float (&c->rex, ORC_VAR_P1 + i, c->pf[i]); break;
      case ORC_PARAM_TYPE_INT64: c->pq[i] = (orc_int64) strtoull (s, NULL, 0); orc_executor_set_param_int64 (&c->rex, ORC_VAR_P1 + i, c->pq[i]); break;
      case ORC_PARAM_TYPE_DOUBLE: c->pd[i] = strtod (s, NULL); orc_executor_set_param_double (&c->rex, ORC_VAR_P1 + i, c->pd[i]); break;
    }
  }
  c->tex = c->rex;
  for (v = ORC_VAR_D1; v <= ORC_VAR_S8; v++) {
    OrcVariable *var = &p->vars[v];
    size_t elems, stride;
    if (!var->size) continue;
    elems = ((size_t) c->n * 4 + 64 + 7) & ~(size_t)7;
    stride = elems * var->size;
    c->total[v] = GUARD + c->m * stride + GUARD;
    if (posix_memalign ((void **) &c->rbuf[v], 64, c->total[v])) abort ();
    fill (c->rbuf[v], c->total[v], var->size, v >= ORC_VAR_S1 ? srcidx++ : 3 + v);
    if (v < ORC_VAR_S1) { if (posix_memalign ((void **) &c->tbuf[v], 64, c->total[v])) abort (); memcpy (c->tbuf[v], c->rbuf[v], c->total[v]); }
    else c->tbuf[v] = c->rbuf[v];
    c->rptr[v] = c->rbuf[v] + GUARD + (neg ? (c->m - 1) * stride : 0);
    c->tptr[v] = c->tbuf[v] + GUARD + (neg ? (c->m - 1) * stride : 0);
    c->stride[v] = neg ? -(int) stride : (int) stride;
    c->rex.arrays[v] = c->rptr[v]; c->tex.arrays[v] = c->tptr[v];
    c->rex.params[v] = c->stride[v]; c->tex.params[v] = c->stride[v];
  }
  orc_executor_emulate (&c->rex);
}

static void ctx_take_acc (Ctx *c) { c->c0 = 1; }

static int isnan_bits (const unsigned char *b, int size)
{
  if (size == 4) { orc_uint32 x; memcpy (&x, b, 4); return (x & 0x7f800000) == 0x7f800000 && (x & 0x7fffff); }
  if (size == 8) { orc_uint64 x; memcpy (&x, b, 8); return (x & 0x7ff0000000000000ULL) == 0x7ff0000000000000ULL && (x & 0xfffffffffffffULL); }
  return 0;
}

static int ctx_compare (Ctx *c)
{
  int v, i, bad = 0, nanok = atoi (genv ("NANOK", "0"));
  for (v = ORC_VAR_D1; v < ORC_VAR_S1; v++) {
    int size = c->p->vars[v].size; size_t e, shown = 0;
    if (!size) continue;
    if (!memcmp (c->rbuf[v], c->tbuf[v], c->total[v])) continue;
    for (e = 0; e < c->total[v] / size; e++) {
      if (memcmp (c->rbuf[v] + e * size, c->tbuf[v] + e * size, size)) {
        orc_uint64 a = 0, b = 0;
        if (nanok == 1 && isnan_bits (c->rbuf[v] + e * size, size) && isnan_bits (c->tbuf[v] + e * size, size)) continue;
        if (nanok == 4 && size == 8) { /* two float lanes */
          int l, okl = 1;
          for (l = 0; l < 2; l++) { const unsigned char *ra = c->rbuf[v] + e * size + 4 * l, *ta = c->tbuf[v] + e * size + 4 * l;
            if (memcmp (ra, ta, 4) && !(isnan_bits (ra, 4) && isnan_bits (ta, 4))) okl = 0; }
          if (okl) continue;
        } else if (nanok == 4 && isnan_bits (c->rbuf[v] + e * size, size) && isnan_bits (c->tbuf[v] + e * size, size)) continue;
        memcpy (&a, c->rbuf[v] + e * size, size); memcpy (&b, c->tbuf[v] + e * size, size);
        bad++;
        if (shown++ < 4) printf ("    d%d[%ld]: emulate=0x%llx got=0x%llx\n", v + 1, (long) e - GUARD / size, (unsigned long long) a, (unsigned long long) b);
      }
    }
  }
  for (i = 0; i < 4; i++) {
    if (!c->p->vars[ORC_VAR_A1 + i].size) continue;
    if (c->c0) { c->tacc[i] = c->tex.accumulators[i]; c->racc_cast[i] = c->rex.accumulators[i]; }
    if (c->tacc[i] != c->racc_cast[i]) { bad++; printf ("    a%d: emulate=0x%llx got=0x%llx\n", i + 1, c->racc_cast[i], c->tacc[i]); }
  }
  return bad;
}

static void ctx_free (Ctx *c)
{
  int v;
  for (v = ORC_VAR_D1; v <= ORC_VAR_S8; v++) { if (c->rbuf[v]) { if (c->tbuf[v] != c->rbuf[v]) free (c->tbuf[v]); free (c->rbuf[v]); } }
}

static char *readfile (const char *fn)
{
  FILE *f = fopen (fn, "rb"); long sz; char *b;
  if (!f) { perror (fn); exit (2); }
  fseek (f, 0, SEEK_END); sz = ftell (f); fseek (f, 0, SEEK_SET);
  b = malloc (sz + 1); if (fread (b, 1, sz, f) != (size_t) sz) exit (2); b[sz] = 0; fclose (f);
  return b;
}

#ifdef INITFN
void INITFN (void);
#endif

static int drv_main (int argc, char **argv, int (**tests)(OrcProgram *), int ntests)
{
  OrcProgram **progs; int n, ne = 0, k, rc = 0; OrcParseError **errs = NULL;
  int only = atoi (genv ("PROG", "-1"));
  orc_init ();
#ifdef INITFN
  INITFN ();
#endif
  orc_parse_code (readfile (argv[1]), &progs, &n, &errs, &ne);
  if (ne || n != ntests) { printf ("parse trouble\n"); return 2; }
  for (k = 0; k < n; k++) {
    int bad;
    if (only >= 0 && only != k) continue;
    orc_program_compile (progs[k]);
    if (!progs[k]->orccode) { printf ("  %s: no code object (compile error: %s)\n", progs[k]->name, progs[k]->error_msg ? progs[k]->error_msg : "?"); rc = 3; continue; }
    bad = tests[k] (progs[k]);
    printf ("  %s: %s (%d)\n", progs[k]->name, bad ? "MISMATCH" : "ok", bad);
    if (bad) rc = 1;
  }
  return rc;
}
