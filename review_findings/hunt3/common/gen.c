/* gen FILE.orc OUTDIR : emit OUTDIR/c0.c (flags-0 C, functions renamed c0_NAME)
 * and OUTDIR/driver.c (calls every function through its prototype and compares
 * with orc_executor_emulate on the program parsed from the same file) */
#define ORC_ENABLE_UNSTABLE_API
#include <orc/orc.h>
#include <orc/orcparse.h>
#include <stdio.h>
#include <stdlib.h>
#include <string.h>

static const char *vn[] = {
  "d1","d2","d3","d4","s1","s2","s3","s4","s5","s6","s7","s8",
  "a1","a2","a3","a4" };

static const char *orcify (const char *s)
{
  if (strcmp (s, "int8_t") == 0) return "orc_int8";
  if (strcmp (s, "int16_t") == 0) return "orc_int16";
  if (strcmp (s, "int32_t") == 0) return "orc_int32";
  if (strcmp (s, "int64_t") == 0) return "orc_int64";
  if (strcmp (s, "uint8_t") == 0) return "orc_uint8";
  if (strcmp (s, "uint16_t") == 0) return "orc_uint16";
  if (strcmp (s, "uint32_t") == 0) return "orc_uint32";
  if (strcmp (s, "uint64_t") == 0) return "orc_uint64";
  return s;
}

static char *readfile (const char *fn)
{
  FILE *f = fopen (fn, "rb"); long sz; char *b;
  if (!f) { perror (fn); exit (2); }
  fseek (f, 0, SEEK_END); sz = ftell (f); fseek (f, 0, SEEK_SET);
  b = malloc (sz + 1); if (fread (b, 1, sz, f) != (size_t)sz) exit (2); b[sz] = 0; fclose (f);
  return b;
}

int main (int argc, char **argv)
{
  OrcProgram **progs; int n, ne = 0, k, i; OrcParseError **errs = NULL;
  char path[1024]; FILE *o;
  char *code;
  if (argc < 3) return 2;
  orc_init ();
  code = readfile (argv[1]);
  orc_parse_code (code, &progs, &n, &errs, &ne);
  if (ne) { for (i = 0; i < ne; i++) fprintf (stderr, "parse error line %d: %s\n", errs[i]->line_number, errs[i]->text); return 3; }

  snprintf (path, sizeof path, "%s/c0.c", argv[2]);
  o = fopen (path, "w");
  fprintf (o, "#include <math.h>\n#include <orc/orc.h>\n%s\n", orc_target_get_asm_preamble ("c"));
  for (k = 0; k < n; k++) {
    OrcProgram *p = progs[k];
    char *orig = strdup (p->name); char nn[256];
    OrcCompileResult r;
    snprintf (nn, sizeof nn, "c0_%s", orig);
    orc_program_set_name (p, nn);
    r = orc_program_compile_full (p, orc_target_get_by_name ("c"), 0);
    if (ORC_COMPILE_RESULT_IS_SUCCESSFUL (r)) fprintf (o, "%s\n", orc_program_get_asm_code (p));
    else { fprintf (stderr, "c0 compile failed for %s: %s\n", orig, p->error_msg ? p->error_msg : "?"); fprintf (o, "void %s (OrcExecutor *ex) { __builtin_trap(); }\n", nn); }
    orc_program_set_name (p, orig);
  }
  fclose (o);

  snprintf (path, sizeof path, "%s/driver.c", argv[2]);
  o = fopen (path, "w");
  fprintf (o, "#include \"drvlib.h\"\n");
  fprintf (o, "#ifdef VARIANT_C0\n");
  for (k = 0; k < n; k++) fprintf (o, "void c0_%s (OrcExecutor *ex);\n", progs[k]->name);
  fprintf (o, "#else\n#include HDR\n#endif\n");
  for (k = 0; k < n; k++) {
    OrcProgram *p = progs[k];
    fprintf (o, "#ifndef VARIANT_C0\nstatic __typeof__(%s) *const fn_%d = %s;\n#endif\n", p->name, k, p->name);
    fprintf (o, "static int test_%d (OrcProgram *p)\n{\n  Ctx c; int bad;\n  ctx_init (&c, p);\n", k);
    fprintf (o, "#ifdef VARIANT_C0\n  c0_%s (&c.tex);\n  ctx_take_acc (&c);\n#else\n", p->name);
    /* accumulator locals */
    for (i = 0; i < 4; i++) {
      OrcVariable *v = &p->vars[ORC_VAR_A1 + i];
      if (!v->size) continue;
      if (v->type_name) fprintf (o, "  %s acc%d = 0;\n", orcify (v->type_name), i);
      else fprintf (o, "  orc_uint%d acc%d = 0;\n", v->size * 8, i);
    }
    fprintf (o, "  fn_%d (", k);
    {
      int comma = 0;
      for (i = 0; i < 4; i++) {
        OrcVariable *v = &p->vars[ORC_VAR_D1 + i];
        if (!v->size) continue;
        fprintf (o, "%s(void *)c.tptr[%d]", comma ? ", " : "", ORC_VAR_D1 + i);
        if (p->is_2d) fprintf (o, ", c.stride[%d]", ORC_VAR_D1 + i);
        comma = 1;
      }
      for (i = 0; i < 4; i++) {
        OrcVariable *v = &p->vars[ORC_VAR_A1 + i];
        if (!v->size) continue;
        fprintf (o, "%s&acc%d", comma ? ", " : "", i);
        comma = 1;
      }
      for (i = 0; i < 8; i++) {
        OrcVariable *v = &p->vars[ORC_VAR_S1 + i];
        if (!v->size) continue;
        fprintf (o, "%s(void *)c.tptr[%d]", comma ? ", " : "", ORC_VAR_S1 + i);
        if (p->is_2d) fprintf (o, ", c.stride[%d]", ORC_VAR_S1 + i);
        comma = 1;
      }
      for (i = 0; i < 8; i++) {
        OrcVariable *v = &p->vars[ORC_VAR_P1 + i];
        if (!v->size) continue;
        switch (v->param_type) {
          case ORC_PARAM_TYPE_INT: fprintf (o, "%sc.pi[%d]", comma ? ", " : "", i); break;
          case ORC_PARAM_TYPE_FLOAT: fprintf (o, "%sc.pf[%d]", comma ? ", " : "", i); break;
          case ORC_PARAM_TYPE_INT64: fprintf (o, "%sc.pq[%d]", comma ? ", " : "", i); break;
          case ORC_PARAM_TYPE_DOUBLE: fprintf (o, "%sc.pd[%d]", comma ? ", " : "", i); break;
        }
        comma = 1;
      }
      if (p->constant_n == 0) { fprintf (o, "%sc.n", comma ? ", " : ""); comma = 1; }
      if (p->is_2d && p->constant_m == 0) { fprintf (o, "%sc.m", comma ? ", " : ""); }
    }
    fprintf (o, ");\n");
    for (i = 0; i < 4; i++) {
      OrcVariable *v = &p->vars[ORC_VAR_A1 + i];
      if (!v->size) continue;
      fprintf (o, "  c.tacc[%d] = (long long) acc%d; c.racc_cast[%d] = (long long)(__typeof__(acc%d)) c.rex.accumulators[%d];\n", i, i, i, i, i);
    }
    fprintf (o, "#endif\n  bad = ctx_compare (&c);\n  ctx_free (&c);\n  return bad;\n}\n\n");
  }
  fprintf (o, "typedef int (*testfn)(OrcProgram *);\nstatic testfn tests[] = {");
  for (k = 0; k < n; k++) fprintf (o, "test_%d, ", k);
  fprintf (o, "};\nint main (int argc, char **argv) { return drv_main (argc, argv, tests, %d); }\n", n);
  fclose (o);
  (void) vn;
  return 0;
}
