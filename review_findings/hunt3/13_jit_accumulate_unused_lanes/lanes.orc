.function acc_biased
.source 2 s1
.param 2 p1
.accumulator 2 a1
.temp 2 t1
addw t1, s1, p1
accw a1, t1

.function acc_const
.source 4 s1
.accumulator 4 a1
.accumulator 4 a2
accl a1, s1
accl a2, 9
