.function do_split
.dest 2 d1
.dest 2 d2
.source 4 s1
splitlw d1, d2, s1
