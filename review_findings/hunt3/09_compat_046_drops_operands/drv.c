#include <stdio.h>
#include <string.h>
#include "out.h"
int main (void)
{
  orc_uint32 s[4] = { 0x11112222, 0x33334444, 0x55556666, 0x77778888 };
  orc_uint16 d1[4], d2[4]; int i, rc = 0;
  memset (d1, 0xAA, sizeof d1); memset (d2, 0xAA, sizeof d2);
  do_split (d1, d2, s, 4);
  for (i = 0; i < 4; i++) {
    if (d1[i] != (s[i] >> 16) || d2[i] != (s[i] & 0xffff)) { printf ("i=%d: d1=0x%04x (want 0x%04x) d2=0x%04x (want 0x%04x)\n", i, d1[i], s[i] >> 16, d2[i], s[i] & 0xffff); rc = 1; }
  }
  return rc;
}
