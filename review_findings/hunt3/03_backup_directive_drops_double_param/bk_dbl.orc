.function bk_dbl
.backup bk_dbl_c
.dest 8 d1
.source 8 s1
.doubleparam 8 p1
addd d1, s1, p1
