/* FINDING 06 (P3, "application never calls orc_init"): orc_parse_code() looks
 * up the "sys" opcode set before anything has initialised the library
 * (orc_program_new() calls orc_init(), the parser's set-up does not), keeps
 * the NULL it gets and dereferences it at the first opcode line
 * (orcparse.c: parser->opcode_set->n_opcodes).  With several threads the same
 * unguarded lookup races with the orc_init() another thread is executing.
 * Exit by SIGSEGV = reproduced. */
#include <stdio.h>
#include <orc/orc.h>
#include <orc/orcparse.h>

int main (void)
{
  OrcProgram **progs = NULL;
  OrcParseError **errs = NULL;
  int n = 0, nerr = 0;
  /* no orc_init() */
  orc_parse_code (".function f\n.dest 2 d1\n.source 2 s1\naddw d1, s1, 7\n",
      &progs, &n, &errs, &nerr);
  printf ("parsed %d program(s), %d error(s)\n", n, nerr);
  return (n == 1 && nerr == 0) ? 0 : 3;
}
