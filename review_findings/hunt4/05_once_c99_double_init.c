/* FINDING 05 (P3): the OrcOnce implementation that <orc/orconce.h> selects when
 * the including file is not compiled as C11 (e.g. orcc output built with
 * -std=gnu99/-std=c99, or any C++ file) lets two threads both run the
 * initialisation: a thread that loses the 0->3 compare-and-swap but wins the
 * mutex sees state 3 ("being initialised"), concludes that nobody holds the
 * lock and initialises; the CAS winner then takes the mutex, sees its stale
 * local value 0 and initialises again.  MUST be compiled with -std=gnu99. */
#include <stdio.h>
#include <pthread.h>
#include <orc/orc.h>

#if defined(__STDC_VERSION__) && __STDC_VERSION__ >= 201112L
#error "compile this file with -std=gnu99 to select the non-C11 OrcOnce"
#endif

#define N 300000
#define NT 4
static OrcOnce once[N];
static int inits[N];
static volatile int go[N];

static void *thr (void *arg)
{
  long id = (long) arg;
  int i;
  for (i = 0; i < N; i++) {
    void *v;
    if (id == 0) { __sync_synchronize (); go[i] = 1; } else while (!go[i]) ;
    /* exactly what an orcc generated lazy-init wrapper does */
    if (!orc_once_enter (&once[i], &v)) {
      inits[i]++;                       /* "compile the program" */
      orc_once_leave (&once[i], (void *) (long) (i + 1));
    }
  }
  return NULL;
}

int main (void)
{
  pthread_t t[NT];
  long i;
  int twice = 0;
  for (i = 0; i < NT; i++) pthread_create (&t[i], NULL, thr, (void *) i);
  for (i = 0; i < NT; i++) pthread_join (t[i], NULL);
  for (i = 0; i < N; i++) if (inits[i] != 1) twice++;
  printf ("%d of %d OrcOnce objects were initialised more than once\n", twice, N);
  return twice ? 1 : 0;   /* 1 = reproduced */
}
