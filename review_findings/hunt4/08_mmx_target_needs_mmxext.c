/* FINDING 08 (P5): the mmx back end declares itself executable as soon as the
 * CPU has the MMX bit (mmx_is_executable), and orc_target_register() makes
 * the last executable target the default.  On a CPU with MMX but without
 * SSE/MMXEXT (Pentium MMX, Pentium II, K6: cpuid.1:edx bit 23 only) the
 * default target is therefore "mmx" -- but the rule set registered for plain
 * ORC_TARGET_MMX_MMX and the constant/parameter broadcast emit MMXEXT (SSE1
 * integer) instructions: pshufw, pinsrw, pavgb, pmaxub, pminub, pmulhuw,
 * psadbw, pmaxsw, pminsw.  Compiling with exactly the flags such a CPU reports
 * shows them in the listing of the code that orc_executor_run would jump to. */
#include <stdio.h>
#include <string.h>
#include <orc/orc.h>
#include <orc/orcparse.h>

int main (void)
{
  const char *progs[] = {
    ".function f\n.dest 1 d1\n.source 1 s1\n.source 1 s2\navgub d1, s1, s2\n",
    ".function g\n.dest 2 d1\n.source 2 s1\n.param 2 p1\naddw d1, s1, p1\n",
    ".function h\n.dest 1 d1\n.source 1 s1\n.source 1 s2\nmaxub d1, s1, s2\n",
    NULL };
  const char *ext[] = { "pshufw", "pinsrw", "pavgb", "pavgw", "pmaxub", "pminub",
    "pmulhuw", "psadbw", "pmaxsw", "pminsw", NULL };
  unsigned int flags = ORC_TARGET_MMX_MMX;   /* what an MMX-only CPU has */
  int k, j, found = 0;

  orc_init ();
  if (!orc_target_get_by_name ("mmx")) { printf ("no mmx back end in this build\n"); return 0; }
  if (sizeof (void *) == 8) flags |= ORC_TARGET_MMX_64BIT;
  for (k = 0; progs[k]; k++) {
    OrcProgram **p; int n; OrcParseError **e; int ne;
    OrcCompileResult r;
    const char *listing;
    orc_parse_code (progs[k], &p, &n, &e, &ne);
    r = orc_program_compile_full (p[0], orc_target_get_by_name ("mmx"), flags);
    listing = orc_program_get_asm_code (p[0]);
    for (j = 0; ext[j]; j++)
      if (ORC_COMPILE_RESULT_IS_SUCCESSFUL (r) && listing && strstr (listing, ext[j])) {
        printf ("program %d compiled for an MMX-only CPU uses %s\n", k, ext[j]);
        found++;
      }
    orc_program_free (p[0]);
  }
  return found ? 1 : 0;   /* 1 = reproduced */
}
