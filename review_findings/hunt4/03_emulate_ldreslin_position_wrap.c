/* FINDING 03 (P1, resampling loads): the emulated ldreslinb/ldreslinl keep the
 * source position b + c*i in a 32-bit int, the emulated ldresnearb/ldresnearl
 * (and the native sse code) do not.  From position 2^31 on (source index
 * 32768, e.g. start 0x7ffe0000 and increment 0x10000) ldreslin* wraps to
 * index -32768 and reads in front of the array. */
#include <stdio.h>
#include <stdlib.h>
#include <orc/orc.h>
#include <orc/orcparse.h>

static OrcProgram *parse1 (const char *src)
{
  OrcProgram **progs = NULL; int n = 0; OrcParseError **errs = NULL; int nerr = 0;
  orc_parse_code (src, &progs, &n, &errs, &nerr);
  return (n == 1 && !nerr) ? progs[0] : NULL;
}

int main (void)
{
  const char *ops[2] = { "ldresnearl", "ldreslinl" };
  unsigned int *buf = malloc (4 * 140000), *s = buf + 70000, out[2][4];
  int i, k, bad = 0;

  orc_init ();
  /* all four bytes of s[k] are equal (a bilinear mix of equal bytes is exact) and differ between s[k] and s[k-65536] */
  for (i = -70000; i < 70000; i++) s[i] = 0x01010101u * (unsigned) ((i + 70000) % 251);
  for (k = 0; k < 2; k++) {
    char src[256];
    OrcProgram *p;
    OrcExecutor *ex;
    sprintf (src, ".function f\n.dest 4 d1\n.source 4 s1\n.param 4 p1\n.param 4 p2\n%s d1, s1, p1, p2\n", ops[k]);
    p = parse1 (src);
    orc_program_compile (p);
    ex = orc_executor_new (p);
    orc_executor_set_n (ex, 4);
    orc_executor_set_array_str (ex, "d1", out[k]);
    orc_executor_set_array_str (ex, "s1", s);
    orc_executor_set_param_str (ex, "p1", 0x7ffe0000);   /* index 32766, fraction 0 */
    orc_executor_set_param_str (ex, "p2", 0x10000);      /* one element per step */
    orc_executor_emulate (ex);
    orc_executor_free (ex);
    orc_program_free (p);
  }
  for (i = 0; i < 4; i++) {
    unsigned int expect = s[32766 + i];
    printf ("element %d: expected s[%d]=%08x  ldresnearl %08x  ldreslinl %08x%s\n", i, 32766 + i,
        expect, out[0][i], out[1][i], out[1][i] != expect ? "   <-- is s[-32768+...]" : "");
    if (out[0][i] == expect && out[1][i] != expect) bad++;
  }
  return bad ? 1 : 0;   /* 1 = reproduced */
}
