/* FINDING 01 (P1): orc_executor_emulate runs an explicit load/store opcode that carries an
 * x2/x4 prefix with a chunk offset that is not scaled by the prefix (and, for
 * loadoffX/loadupdb, with lane instead of element arithmetic).  The result of
 * element i therefore depends on its position: everything after the first
 * chunk of 16 elements is read from / written to the wrong place.
 * Native sse/avx code and the C back end treat these opcodes element-wise. */
#include <stdio.h>
#include <string.h>
#include <orc/orc.h>
#include <orc/orcparse.h>

static OrcProgram *parse1 (const char *src)
{
  OrcProgram **progs = NULL; int n = 0; OrcParseError **errs = NULL; int nerr = 0;
  orc_parse_code (src, &progs, &n, &errs, &nerr);
  if (n != 1 || nerr) { printf ("parse error\n"); return NULL; }
  return progs[0];
}

int main (void)
{
  int bad = 0, i, k;
  const char *src[] = {
    /* copy pairs of 16-bit words and add 1 to every word */
    ".function f\n.dest 4 d1\n.source 4 s1\n.temp 4 t1\nx2 loadw t1, s1\nx2 addw d1, t1, 1\n",
    /* d[i] = s[i+1] for 2-byte elements handled as x2 bytes */
    ".function g\n.dest 2 d1\n.source 2 s1\nx2 loadoffb d1, s1, 1\n",
    NULL };
  orc_init ();
  for (k = 0; src[k]; k++) {
    OrcProgram *p = parse1 (src[k]);
    unsigned short S[128], D[128], E[128];
    OrcExecutor *ex;
    int n = 40, words = k == 0 ? 2 * n : n;
    if (!p) return 2;
    orc_program_compile (p);
    for (i = 0; i < 128; i++) { S[i] = 1000 + i; D[i] = 0; }
    for (i = 0; i < words; i++) E[i] = k == 0 ? S[i] + 1 : S[i + 1];
    ex = orc_executor_new (p);
    orc_executor_set_n (ex, n);
    orc_executor_set_array_str (ex, "s1", S);
    orc_executor_set_array_str (ex, "d1", D);
    orc_executor_emulate (ex);
    for (i = 0; i < words; i++) if (D[i] != E[i]) {
      if (!bad) printf ("program %d: word %d (element %d): emulation gives %d, expected %d\n",
          k, i, k == 0 ? i / 2 : i, D[i], E[i]);
      bad++;
    }
    /* cross-check: the native code (if any) gives the expected result */
    memset (D, 0, sizeof D);
    orc_executor_run (ex);
    for (i = 0; i < words; i++) if (D[i] != E[i]) { printf ("(native code differs too at %d)\n", i); break; }
    orc_executor_free (ex);
    orc_program_free (p);
  }
  printf ("%d wrong words\n", bad);
  return bad ? 1 : 0;   /* 1 = reproduced */
}
