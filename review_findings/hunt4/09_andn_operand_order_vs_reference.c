/* FINDING 09 (P1, reference vs. code): doc/opcode_table.xml defines
 * andnb/andnw/andnl/andnq as  a & (~b); orc_executor_emulate (and every back
 * end) computes (~a) & b.  Either the reference table or the code is wrong
 * (the x86 pandn operand order suggests the table is). */
#include <stdio.h>
#include <orc/orc.h>

int main (void)
{
  OrcProgram *p;
  OrcExecutor *ex;
  unsigned char a[4] = { 0xf0, 0x0f, 0xff, 0x00 }, b[4] = { 0x3c, 0x3c, 0x0f, 0xf0 }, d[4];
  int i, bad = 0;
  orc_init ();
  p = orc_program_new_dss (1, 1, 1);
  orc_program_append_str (p, "andnb", "d1", "s1", "s2");
  orc_program_compile (p);
  ex = orc_executor_new (p);
  orc_executor_set_n (ex, 4);
  orc_executor_set_array_str (ex, "d1", d);
  orc_executor_set_array_str (ex, "s1", a);
  orc_executor_set_array_str (ex, "s2", b);
  orc_executor_emulate (ex);
  for (i = 0; i < 4; i++) {
    unsigned char ref = a[i] & (unsigned char) ~b[i];
    printf ("andnb a=%02x b=%02x: emulation %02x, opcode_table.xml (a & ~b) %02x, (~a & b) %02x\n",
        a[i], b[i], d[i], ref, (unsigned char) (~a[i] & b[i]));
    if (d[i] != ref) bad++;
  }
  return bad ? 1 : 0;   /* 1 = reproduced */
}
