/* FINDING 02 (P1, accumulators): orc_executor_get_accumulator_str() indexes
 * ex->accumulators[] with the variable number (ORC_VAR_A1 = 12...) instead of
 * (variable - ORC_VAR_A1): it reads 8..11 ints past the 4-entry array, i.e.
 * past the end of the OrcExecutor, and never returns the accumulated sum. */
#include <stdio.h>
#include <string.h>
#include <orc/orc.h>

int main (void)
{
  struct { OrcExecutor ex; int guard[16]; } box;
  OrcExecutor *ex = &box.ex;
  OrcProgram *p;
  short s[10];
  int i, by_index, by_name;

  orc_init ();
  p = orc_program_new_as (2, 2);          /* accumulator "a1", source "s1" */
  orc_program_append_str (p, "accw", "a1", "s1", "");
  orc_program_compile (p);
  for (i = 0; i < 10; i++) s[i] = i + 1;  /* sum = 55 */
  memset (&box, 0, sizeof box);
  for (i = 0; i < 16; i++) box.guard[i] = 0x5a5a0000 + i;
  orc_executor_set_program (ex, p);
  orc_executor_set_n (ex, 10);
  orc_executor_set_array_str (ex, "s1", s);
  orc_executor_emulate (ex);
  by_index = orc_executor_get_accumulator (ex, orc_program_find_var_by_name (p, "a1"));
  by_name = orc_executor_get_accumulator_str (ex, "a1");
  printf ("accumulated sum: by index %d, by name %d (0x%x)\n", by_index, by_name, by_name);
  orc_program_free (p);
  return (by_index == 55 && by_name != 55) ? 1 : 0;   /* 1 = reproduced */
}
