/* FINDING 07 (P3, undocumented): orc_opcode_register_static() reallocs the
 * global opcode_sets array without any lock while compiling threads walk it
 * (orc_opcode_find_by_name, orc_opcode_set_find_by_opcode via
 * orc_target_get_rule): data race and use-after-realloc.  Nothing in the
 * documentation says registration must not overlap compilation.  Build with
 * -fsanitize=thread against the TSan library. */
#include <stdio.h>
#include <stdlib.h>
#include <string.h>
#include <pthread.h>
#include <orc/orc.h>

static void emu (OrcOpcodeExecutor *ex, int off, int n) { }

static void *compiler (void *a)
{
  int k;
  for (k = 0; k < 300; k++) {
    OrcProgram *p = orc_program_new_dss (2, 2, 2);
    orc_program_append_str (p, "addw", "d1", "s1", "s2");
    orc_program_compile (p);
    orc_program_free (p);
  }
  return NULL;
}

static void *registrar (void *a)
{
  int k;
  for (k = 0; k < 60; k++) {
    OrcStaticOpcode *ops = calloc (2, sizeof (OrcStaticOpcode));
    char prefix[8];
    snprintf (ops[0].name, sizeof ops[0].name, "myop%d", k);
    ops[0].dest_size[0] = 2; ops[0].src_size[0] = 2; ops[0].emulateN = emu;
    snprintf (prefix, sizeof prefix, "x%d", k);
    orc_opcode_register_static (ops, prefix);
  }
  return NULL;
}

int main (void)
{
  pthread_t t[3];
  int i;
  orc_init ();
  pthread_create (&t[0], NULL, compiler, NULL);
  pthread_create (&t[1], NULL, compiler, NULL);
  pthread_create (&t[2], NULL, registrar, NULL);
  for (i = 0; i < 3; i++) pthread_join (t[i], NULL);
  return 0;
}
