/* FINDING 04 (P3): orc_debug_set_level() writes the plain int _orc_debug_level
 * that every ORC_DEBUG/ORC_INFO/ORC_WARNING in the compiler and emulator reads
 * without synchronisation: changing the level from one thread while another
 * compiles is a data race.  Build with -fsanitize=thread against the TSan
 * build of the library; exit status 1 (and a ThreadSanitizer report) =
 * reproduced. */
#include <stdio.h>
#include <pthread.h>
#include <orc/orc.h>

static void *setter (void *arg)
{
  int k;
  for (k = 0; k < 20000; k++)
    orc_debug_set_level ((k & 1) ? ORC_DEBUG_ERROR : ORC_DEBUG_NONE);
  return NULL;
}

static void *compiler (void *arg)
{
  int k;
  for (k = 0; k < 200; k++) {
    OrcProgram *p = orc_program_new_dss (2, 2, 2);
    orc_program_append_str (p, "addw", "d1", "s1", "s2");
    orc_program_compile (p);
    orc_program_free (p);
  }
  return NULL;
}

int main (void)
{
  pthread_t a, b;
  orc_init ();
  pthread_create (&a, NULL, setter, NULL);
  pthread_create (&b, NULL, compiler, NULL);
  pthread_join (a, NULL);
  pthread_join (b, NULL);
  return 0;   /* TSAN_OPTIONS=exitcode=1 makes a detected race visible */
}
