#!/bin/sh
# Builds and runs every reproducer; prints one line per finding.
# Usage: sh findings/run.sh          (from anywhere; needs gcc, clang for the TSan ones)
HERE=$(cd "$(dirname "$0")" && pwd)
TOP=$(cd "$HERE/.." && pwd)
OUT=${TMPDIR:-/tmp}/orc-findings.$$
mkdir -p "$OUT"
cd "$TOP" || exit 2

# normal build
if [ ! -f _b/orc/liborc-0.4.so ]; then
  (meson setup _b -Dorc-test=enabled -Dtools=enabled -Dexamples=disabled -Dgtk_doc=disabled -Dbenchmarks=disabled >/dev/null && ninja -C _b >/dev/null) || { echo "normal build failed"; exit 2; }
fi
# ThreadSanitizer build (static library)
if [ ! -f _btsan/orc/liborc-0.4.a ]; then
  (CC=clang meson setup _btsan -Db_sanitize=thread -Db_lundef=false -Ddefault_library=static -Dorc-test=disabled -Dtools=disabled -Dexamples=disabled -Dgtk_doc=disabled -Dbenchmarks=disabled >/dev/null && ninja -C _btsan >/dev/null) || echo "TSan build failed: findings 04 and 07 will not run"
fi

INC="-I$TOP -I$TOP/_b"
LIB="-L$TOP/_b/orc -lorc-0.4 -Wl,-rpath,$TOP/_b/orc -lpthread -lm"

report () { # number summary status
  if [ "$3" = yes ]; then echo "FINDING $1: $2 : REPRODUCED"; else echo "FINDING $1: $2 : not reproduced"; fi
}

# plain reproducers: exit status 1 means reproduced
plain () { # number file summary [extra cflags]
  if gcc -O1 -g $4 $INC "$HERE/$2.c" -o "$OUT/$2" $LIB 2>"$OUT/$2.build"; then
    timeout 120 "$OUT/$2" >"$OUT/$2.log" 2>&1; rc=$?
    [ $rc -eq 1 ] && report "$1" "$3" yes || report "$1" "$3" no
  else echo "FINDING $1: $3 : not reproduced (build failed, see $OUT/$2.build)"; fi
}

# TSan reproducers: a ThreadSanitizer data-race report means reproduced
tsan () { # number file summary
  if [ -f _btsan/orc/liborc-0.4.a ] && clang -g -O1 -fsanitize=thread -I"$TOP" -I"$TOP/_btsan" "$HERE/$2.c" -o "$OUT/$2" "$TOP/_btsan/orc/liborc-0.4.a" -lm -lpthread 2>"$OUT/$2.build"; then
    timeout 300 "$OUT/$2" >"$OUT/$2.log" 2>&1
    if grep -q "WARNING: ThreadSanitizer: data race" "$OUT/$2.log" && grep -q "$4" "$OUT/$2.log"; then report "$1" "$3" yes; else report "$1" "$3" no; fi
  else echo "FINDING $1: $3 : not reproduced (TSan build unavailable)"; fi
}

plain 01 01_emulate_x2_explicit_load "P1 emulation of x2/x4-prefixed explicit loads (x2 loadw, x2 loadoffb) reads the wrong elements after the first 16"
plain 02 02_get_accumulator_str "P1 orc_executor_get_accumulator_str reads past ex->accumulators[] instead of returning the sum"
plain 03 03_emulate_ldreslin_position_wrap "P1 emulated ldreslinl/ldreslinb wrap the source position at 2^31 (index 32768 -> -32768), ldresnear* and native code do not"
tsan  04 04_debug_level_race "P3 data race between orc_debug_set_level and a compiling thread" orc_debug_set_level
# 05 must be compiled as C99 to get the non-C11 OrcOnce; the race is timing dependent: try a few times
if gcc -std=gnu99 -O2 $INC "$HERE/05_once_c99_double_init.c" -o "$OUT/05" $LIB 2>"$OUT/05.build"; then
  ok=no; for try in 1 2 3 4 5; do timeout 300 "$OUT/05" >"$OUT/05.log" 2>&1; [ $? -eq 1 ] && { ok=yes; break; }; done
  report 05 "P3 OrcOnce fallback used by C99/C++ callers runs the lazy initialisation twice ($(tail -1 "$OUT/05.log"))" $ok
else echo "FINDING 05: build failed"; fi
# 06: a crash (SIGSEGV) is the reproduction
if gcc -O1 -g $INC "$HERE/06_parse_without_init.c" -o "$OUT/06" $LIB 2>"$OUT/06.build"; then
  timeout 60 "$OUT/06" >"$OUT/06.log" 2>&1; rc=$?
  [ $rc -eq 139 ] || [ $rc -eq 11 ] && report 06 "P3 orc_parse_code without a prior orc_init dereferences a NULL opcode set (SIGSEGV)" yes || report 06 "P3 orc_parse_code without a prior orc_init (exit status $rc)" no
fi
tsan  07 07_opcode_register_race "P3 orc_opcode_register_static reallocs the opcode-set table under compiling threads (undocumented restriction)" orc_opcode_register_static
plain 08 08_mmx_target_needs_mmxext "P5 mmx back end is 'executable' (and default) on an MMX-only CPU but emits MMXEXT/SSE instructions (pshufw, pavgb, pmaxub...)"
plain 09 09_andn_operand_order_vs_reference "P1 andn*: emulation computes (~a)&b, doc/opcode_table.xml says a&(~b)"
echo "(logs in $OUT)"
