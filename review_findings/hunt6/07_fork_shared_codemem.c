/* FINDING 07 (P2, with fork): code regions are MAP_SHARED mappings of an
 * unlinked temporary file (orc_code_region_allocate_codemem_dual_map).  After
 * fork() parent and child still share the pages, but each has its own copy
 * of the chunk bookkeeping: both hand out the same free chunk.  Whatever one
 * process compiles next overwrites the function the other one compiled
 * there: the bytes of a live function do not stay as emitted and the
 * function silently computes something else.                              */
#include <orc/orc.h>
#include <stdio.h>
#include <string.h>
#include <stdlib.h>
#include <unistd.h>
#include <sys/wait.h>

static OrcCode *
mk (const char *op)
{
  OrcProgram *p = orc_program_new_dss (1, 1, 1);
  OrcCompileResult r;
  OrcCode *c;
  orc_program_set_name (p, op);
  orc_program_append_str (p, op, "d1", "s1", "s2");
  r = orc_program_compile (p);
  if (!ORC_COMPILE_RESULT_IS_SUCCESSFUL (r)) {
    printf ("no native code on this machine\n");
    exit (2);
  }
  c = orc_program_take_code (p);
  orc_program_free (p);
  return c;
}

static int
run (OrcCode *c, int a, int b)
{
  orc_int8 d[32], x[32], y[32];
  OrcExecutor e;
  int i;
  for (i = 0; i < 32; i++) { x[i] = a; y[i] = b; d[i] = 0; }
  memset (&e, 0, sizeof e);
  e.arrays[ORC_VAR_A2] = c;
  e.n = 20;
  e.arrays[ORC_VAR_D1] = d;
  e.arrays[ORC_VAR_S1] = x;
  e.arrays[ORC_VAR_S2] = y;
  orc_executor_run (&e);
  return d[3];
}

int
main (void)
{
  int p2c[2], c2p[2], st = 0;
  char ch;
  pid_t pid;
  OrcCode *c;

  setvbuf (stdout, NULL, _IONBF, 0);
  orc_init ();
  (void) mk ("addb");               /* the code region exists before the fork */
  if (pipe (p2c) || pipe (c2p)) return 2;
  pid = fork ();
  if (pid == 0) {
    unsigned char save[4096];
    int before, after, changed;
    c = mk ("subb");
    memcpy (save, c->code, c->code_size);
    before = run (c, 9, 4);
    if (write (c2p[1], "x", 1) != 1) _exit (2);
    if (read (p2c[0], &ch, 1) != 1) _exit (2);      /* the parent compiles now */
    after = run (c, 9, 4);
    changed = memcmp (save, c->code, c->code_size) != 0;
    printf ("child: its subb(9,4) gave %d before and %d after the parent compiled; code bytes changed: %d\n",
        before, after, changed);
    _exit ((changed || after != 5) ? 1 : 0);
  }
  if (read (c2p[0], &ch, 1) != 1) return 2;
  c = mk ("xorb");
  printf ("parent: compiled xorb, xorb(9,4)=%d\n", run (c, 9, 4));
  if (write (p2c[1], "x", 1) != 1) return 2;
  waitpid (pid, &st, 0);
  if (WIFEXITED (st) && WEXITSTATUS (st) == 1) {
    printf ("RESULT: REPRODUCED\n");
    return 0;
  }
  printf ("RESULT: not reproduced\n");
  return 1;
}
