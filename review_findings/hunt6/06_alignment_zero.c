/* FINDING 06 (P3, orc_program_set_var_alignment / ".source ... align N"):
 * an alignment of 0 ("unknown", which orc_program_add_source_full() and the
 * byte code reader turn into the element size) is stored as is by
 * orc_program_set_var_alignment(), and the x86 back ends then treat the array
 * as aligned to the vector register: 0 % register_size == 0 in
 * can_be_validly_aligned().  The generated sse/avx code uses aligned loads
 * and stores (movdqa/vmovdqa) on whatever pointer the caller passes and the
 * process dies with SIGSEGV, while emulation of the same program is fine.
 * The parser gets there with ".source 2 s1 align 0" (or any non-numeric
 * alignment, strtol gives 0).  Negative alignments (-16) behave the same.  */
#include <orc/orc.h>
#include <orc/orcparse.h>
#include <stdio.h>
#include <string.h>
#include <stdlib.h>
#include <unistd.h>
#include <sys/wait.h>

static orc_int16 d[200] __attribute__ ((aligned (64)));
static orc_int16 a[200] __attribute__ ((aligned (64)));
static orc_int16 b[200] __attribute__ ((aligned (64)));

/* returns 1 ok, 0 wrong result, -sig when killed */
static int
run_in_child (int use_parser, int emulate)
{
  pid_t pid = fork ();
  int st = 0;
  if (pid == 0) {
    OrcProgram *p;
    OrcExecutor *ex;
    int i, ok = 1;
    if (use_parser) {
      OrcProgram **progs;
      int n = orc_parse (".function x\n.dest 2 d1 align 0\n.source 2 s1 align 0\n.source 2 s2\naddw d1, s1, s2\n", &progs);
      if (n != 1) _exit (3);
      p = progs[0];
    } else {
      p = orc_program_new_dss (2, 2, 2);
      orc_program_set_name (p, "x");
      orc_program_append_str (p, "addw", "d1", "s1", "s2");
      orc_program_set_var_alignment (p, ORC_VAR_D1, 0);
      orc_program_set_var_alignment (p, ORC_VAR_S1, 0);
    }
    if (emulate)
      orc_program_compile_for_target (p, NULL);
    else
      orc_program_compile (p);
    for (i = 0; i < 200; i++) { a[i] = i; b[i] = 2 * i; }
    ex = orc_executor_new (p);
    orc_executor_set_n (ex, 100);
    orc_executor_set_array (ex, ORC_VAR_D1, d + 1);     /* element aligned, not 16-byte aligned */
    orc_executor_set_array (ex, ORC_VAR_S1, a + 1);
    orc_executor_set_array (ex, ORC_VAR_S2, b + 3);
    orc_executor_run (ex);
    for (i = 0; i < 100; i++) if (d[1 + i] != (orc_int16) (a[1 + i] + b[3 + i])) ok = 0;
    _exit (ok ? 0 : 1);
  }
  waitpid (pid, &st, 0);
  if (WIFSIGNALED (st)) return -WTERMSIG (st);
  return WEXITSTATUS (st) == 0;
}

int
main (void)
{
  int emu, nat_api, nat_parse;
  orc_init ();
  emu = run_in_child (0, 1);
  nat_api = run_in_child (0, 0);
  nat_parse = run_in_child (1, 0);
  printf ("default target: %s\n", orc_target_get_name (orc_target_get_default ()));
  printf ("alignment 0, emulation: %d; native via orc_program_set_var_alignment: %d; native via '.source ... align 0': %d  (1 = correct result, negative = killed by that signal)\n",
      emu, nat_api, nat_parse);
  if (emu == 1 && (nat_api < 0 || nat_parse < 0)) {
    printf ("RESULT: REPRODUCED\n");
    return 0;
  }
  printf ("RESULT: not reproduced\n");
  return 1;
}
