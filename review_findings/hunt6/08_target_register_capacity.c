/* FINDING 08 (capacity, neighbour of P6): orc_target_register() stores into
 * the static table targets[ORC_N_TARGETS] (10) without a check.  This build
 * registers 8 targets itself, so the third application target is written
 * past the table (global-buffer-overflow under AddressSanitizer; in a normal
 * build it lands in whatever the linker placed behind the table).
 * Run against the ASan library.                                            */
#include <orc/orc.h>
#include <stdio.h>
#include <string.h>
#include <stdlib.h>

static unsigned int f0 (void) { return 0; }
static void ci (OrcCompiler *c) { }
static void cc (OrcCompiler *c) { }

int
main (void)
{
  static OrcTarget ut[4];
  static char names[4][16];
  int i;

  setvbuf (stdout, NULL, _IONBF, 0);
  orc_init ();
  for (i = 0; i < 4; i++) {
    sprintf (names[i], "user%d", i);
    ut[i].name = names[i];
    ut[i].executable = 0;
    ut[i].get_default_flags = f0;
    ut[i].compiler_init = ci;
    ut[i].compile = cc;
    printf ("registering application target %d\n", i + 1);
    orc_target_register (&ut[i]);
  }
  printf ("no sanitizer report: run this against the ASan build\n");
  return 0;
}
