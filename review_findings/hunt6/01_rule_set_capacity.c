/* FINDING 01 (P6): orc_rule_set_new() has no capacity check.
 * OrcTarget.rule_sets[] has ORC_N_RULE_SETS (10) entries.  The sse target
 * registers 4 of its own, so an application may add 6.  The 7th application
 * rule set (the 11th of the target) is written past the array, over
 * OrcTarget.n_rule_sets and the function pointers that follow it
 * (get_asm_preamble, load_constant): the target "forgets" its built-in rule
 * sets: built-in programs whose rule lives in one of them (signb: SSSE3 set)
 * no longer compile and silently fall back to emulation.
 * Expected: the call is refused (NULL) or the table grows; the target and
 * built-in programs stay as they were.                                     */
#include <orc/orc.h>
#include <stdio.h>
#include <string.h>
#include <stdlib.h>
#include <unistd.h>
#include <sys/wait.h>

static void emu (OrcOpcodeExecutor *ex, int offset, int n) { }
static OrcStaticOpcode myops[] = { { "myinc", 0, { 1 }, { 1 }, emu }, { "" } };
static void rule_dummy (OrcCompiler *c, void *u, OrcInstruction *insn) { }

static int
builtin_program_compiles (OrcTarget *t)
{
  /* run in a child: with the corrupted target this may crash */
  pid_t pid = fork ();
  if (pid == 0) {
    /* signb only has a rule in the target's third (SSSE3) rule set */
    OrcProgram *p = orc_program_new_ds (1, 1);
    OrcCompileResult r;
    orc_program_append_ds (p, "signb", ORC_VAR_D1, ORC_VAR_S1);
    r = orc_program_compile_for_target (p, t);
    _exit (ORC_COMPILE_RESULT_IS_SUCCESSFUL (r) ? 0 : 1);
  }
  int st = 0;
  waitpid (pid, &st, 0);
  if (WIFSIGNALED (st)) return -WTERMSIG (st);
  return WEXITSTATUS (st) == 0;
}

int
main (void)
{
  OrcTarget *t;
  OrcOpcodeSet *set;
  int i, before, after, n_before, builtin;
  void *lc_before;

  orc_init ();
  t = orc_target_get_by_name ("sse");
  builtin = t->n_rule_sets;
  orc_opcode_register_static (myops, "my");
  set = orc_opcode_set_get ("my");

  before = builtin_program_compiles (t);
  /* fill the table up to its capacity: fine */
  for (i = builtin; i < ORC_N_RULE_SETS; i++) {
    OrcRuleSet *rs = orc_rule_set_new (set, t, 0);
    orc_rule_register (rs, "myinc", rule_dummy, NULL);
  }
  n_before = t->n_rule_sets;
  lc_before = (void *) t->load_constant;
  printf ("sse: %d built-in rule sets, %d after filling to capacity, built-in program compiles: %d\n",
      builtin, n_before, builtin_program_compiles (t));

  /* one more */
  {
    OrcRuleSet *rs = orc_rule_set_new (set, t, 0);
    if (rs) orc_rule_register (rs, "myinc", rule_dummy, NULL);
  }
  after = builtin_program_compiles (t);
  printf ("after one more orc_rule_set_new: n_rule_sets=%d (was %d), load_constant=%p (was %p), built-in program compiles: %d%s\n",
      t->n_rule_sets, n_before, (void *) t->load_constant, lc_before, after,
      after < 0 ? " (child killed by a signal)" : "");

  if (before == 1 && (t->n_rule_sets < n_before || (void *) t->load_constant != lc_before || after != 1)) {
    printf ("RESULT: REPRODUCED\n");
    return 0;
  }
  printf ("RESULT: not reproduced\n");
  return 1;
}
