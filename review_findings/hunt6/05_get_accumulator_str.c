/* FINDING 05 (P3, less common executor API): orc_executor_get_accumulator_str()
 * indexes OrcExecutor.accumulators[4] with the variable number (ORC_VAR_A1 = 12
 * ... 15) instead of var - ORC_VAR_A1: it reads 8..11 ints past the end of
 * the executor (heap-buffer-overflow with orc_executor_new) and returns
 * garbage instead of the accumulator.                                      */
#include <orc/orc.h>
#include <stdio.h>
#include <string.h>
#include <stdlib.h>

int
main (void)
{
  OrcProgram *p;
  OrcExecutor *ex;
  orc_int32 s[10] = { 1, 2, 3, 4, 5, 6, 7, 8, 9, 10 };
  int by_index, by_name;

  setvbuf (stdout, NULL, _IONBF, 0);
  orc_init ();
  p = orc_program_new_as (4, 4);
  orc_program_set_name (p, "acc");
  orc_program_append_str (p, "accl", "a1", "s1", NULL);
  orc_program_compile (p);

  /* an executor surrounded by known bytes, so that the result is the same everywhere */
  {
    struct { OrcExecutor ex; int after[16]; } box;
    memset (&box, 0, sizeof (box));
    for (by_index = 0; by_index < 16; by_index++) box.after[by_index] = 1000 + by_index;
    orc_executor_set_program (&box.ex, p);
    orc_executor_set_n (&box.ex, 10);
    orc_executor_set_array_str (&box.ex, "s1", s);
    orc_executor_run (&box.ex);
    by_index = orc_executor_get_accumulator (&box.ex, ORC_VAR_A1);
    by_name = orc_executor_get_accumulator_str (&box.ex, "a1");
    printf ("sum 1..10: orc_executor_get_accumulator(ORC_VAR_A1)=%d, orc_executor_get_accumulator_str(\"a1\")=%d\n",
        by_index, by_name);
  }
  /* the same on a heap executor: AddressSanitizer reports the over-read here */
  ex = orc_executor_new (p);
  orc_executor_set_n (ex, 10);
  orc_executor_set_array_str (ex, "s1", s);
  orc_executor_run (ex);
  printf ("heap executor: by index %d, by name %d\n",
      orc_executor_get_accumulator (ex, ORC_VAR_A1),
      orc_executor_get_accumulator_str (ex, "a1"));
  orc_executor_free (ex);
  orc_program_free (p);

  if (by_index == 55 && by_name != 55) {
    printf ("RESULT: REPRODUCED\n");
    return 0;
  }
  printf ("RESULT: not reproduced\n");
  return 1;
}
