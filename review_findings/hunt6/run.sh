#!/bin/bash
# Builds two static copies of the library in findings/_build (plain and
# ASan+UBSan), compiles every reproducer and prints one line per finding.
# Existing builds in ../_bs and ../_basan are reused when present.
cd "$(dirname "$0")" || exit 2
ROOT=$(cd .. && pwd)
OUT=$PWD/_build
mkdir -p "$OUT"
LOG=$OUT/log.txt
: > "$LOG"

plain=$ROOT/_bs
asan=$ROOT/_basan
if [ ! -f "$plain/orc/liborc-0.4.a" ]; then
  plain=$OUT/plain
  [ -f "$plain/orc/liborc-0.4.a" ] || { (cd "$ROOT" && meson setup "$plain" -Ddefault_library=static -Dorc-test=disabled -Dtools=disabled -Dexamples=disabled -Dgtk_doc=disabled -Dbenchmarks=disabled && ninja -C "$plain") >>"$LOG" 2>&1; }
fi
if [ ! -f "$asan/orc/liborc-0.4.a" ]; then
  asan=$OUT/asan
  [ -f "$asan/orc/liborc-0.4.a" ] || { (cd "$ROOT" && CC=clang meson setup "$asan" -Db_sanitize=address,undefined -Db_lundef=false -Ddefault_library=static -Dorc-test=disabled -Dtools=disabled -Dexamples=disabled -Dgtk_doc=disabled -Dbenchmarks=disabled && ninja -C "$asan") >>"$LOG" 2>&1; }
fi

cc_plain() { gcc -g -O0 -I"$ROOT" -I"$plain" "$1" -o "$2" "$plain/orc/liborc-0.4.a" -lm -lpthread >>"$LOG" 2>&1; }
cc_asan()  { clang -g -O0 -fsanitize=address,undefined -I"$ROOT" -I"$asan" "$1" -o "$2" "$asan/orc/liborc-0.4.a" -lm -lpthread >>"$LOG" 2>&1; }

report() { # nn summary status
  echo "FINDING $1: $2 : $3"
}
# run a plain reproducer that prints "RESULT: REPRODUCED"
plain_case() { # nn file summary
  local exe=$OUT/${2%.c}
  if ! cc_plain "$2" "$exe"; then report "$1" "$3" "not reproduced (build failed, see $LOG)"; return; fi
  local out; out=$(timeout 120 "$exe" 2>>"$LOG"); echo "--- $2" >>"$LOG"; echo "$out" >>"$LOG"
  if echo "$out" | grep -q "RESULT: REPRODUCED"; then report "$1" "$3" "REPRODUCED"; else report "$1" "$3" "not reproduced"; fi
}
# run an ASan reproducer and look for a sanitizer message
asan_case() { # nn file summary pattern
  local exe=$OUT/${2%.c}.asan
  if ! cc_asan "$2" "$exe"; then report "$1" "$3" "not reproduced (build failed, see $LOG)"; return; fi
  local out; out=$(ASAN_OPTIONS=detect_leaks=1 timeout 120 "$exe" 2>&1); echo "--- $2 (asan)" >>"$LOG"; echo "$out" | grep -v '^ORC: ' >>"$LOG"
  if echo "$out" | grep -q "$4"; then report "$1" "$3" "REPRODUCED"; else report "$1" "$3" "not reproduced"; fi
}

plain_case 01 01_rule_set_capacity.c      "P6 orc_rule_set_new beyond ORC_N_RULE_SETS overwrites the target (n_rule_sets, load_constant); built-in programs break"
asan_case  02 02_opcode_set_handle_stale.c "P6 OrcOpcodeSet handle dangles after the next orc_opcode_register_static (heap-use-after-free in orc_rule_set_new)" "heap-use-after-free"
plain_case 03 03_parse_full_leak.c        "P3 orc_parse_full leaks all parse error records on every call"
plain_case 04 04_parse_full_log.c         "P3 orc_parse_full tests *log instead of log: no log for a NULL-initialised pointer, NULL log crashes"
plain_case 05 05_get_accumulator_str.c    "P3 orc_executor_get_accumulator_str reads accumulators[var] (out of bounds) and returns garbage"
plain_case 06 06_alignment_zero.c         "P3 alignment 0 (orc_program_set_var_alignment / 'align 0') is taken as vector aligned: native code SIGSEGV, emulation fine"
plain_case 07 07_fork_shared_codemem.c    "P2 code regions stay shared after fork: one process' compile overwrites the other's live function"
asan_case  08 08_target_register_capacity.c "orc_target_register beyond ORC_N_TARGETS writes past the static table" "global-buffer-overflow"
