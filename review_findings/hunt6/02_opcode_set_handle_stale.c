/* FINDING 02 (P6): OrcOpcodeSet handles do not survive the next
 * orc_opcode_register_static().
 * orc_opcode_set_get() / orc_opcode_set_get_nth() / orc_opcode_set_find_by_opcode()
 * return pointers INTO the array `opcode_sets`, which
 * orc_opcode_register_static() reallocs for every new set.  An application
 * that registers two or more sets and keeps the handle of the first (to
 * create its rule sets afterwards) passes a dangling pointer to
 * orc_rule_set_new(): heap-use-after-free (AddressSanitizer), or a rule set
 * with a wrong opcode_major.
 * Build with the ASan library to see the use-after-free report.           */
#include <orc/orc.h>
#include <stdio.h>
#include <string.h>
#include <stdlib.h>

static void emu (OrcOpcodeExecutor *ex, int offset, int n) { }
static OrcStaticOpcode s1[] = { { "u1op", 0, { 1 }, { 1, 1 }, emu }, { "" } };
static OrcStaticOpcode s2[] = { { "u2op", 0, { 1 }, { 1, 1 }, emu }, { "" } };
static OrcStaticOpcode s3[] = { { "u3op", 0, { 1 }, { 1, 1 }, emu }, { "" } };
static OrcStaticOpcode s4[] = { { "u4op", 0, { 1 }, { 1, 1 }, emu }, { "" } };
static void rule (OrcCompiler *c, void *u, OrcInstruction *i) { }

int
main (void)
{
  OrcOpcodeSet *set1, *again;
  OrcTarget *t;
  OrcRuleSet *rs;

  setvbuf (stdout, NULL, _IONBF, 0);
  orc_init ();
  orc_opcode_register_static (s1, "u1");
  set1 = orc_opcode_set_get ("u1");
  orc_opcode_register_static (s2, "u2");
  orc_opcode_register_static (s3, "u3");
  orc_opcode_register_static (s4, "u4");
  again = orc_opcode_set_get ("u1");
  printf ("handle of set u1: %p, after three more registrations: %p\n",
      (void *) set1, (void *) again);
  if (again != set1)
    printf ("STALE: the first handle points into a block that realloc released\n");

  t = orc_target_get_by_name ("sse");
  rs = orc_rule_set_new (set1, t, 0);     /* reads set1->opcode_major, n_opcodes */
  orc_rule_register (rs, "u1op", rule, NULL);
  printf ("rule set created with the kept handle: opcode_major=%d (the set's major is %d)\n",
      rs->opcode_major, again->opcode_major);
  printf ("RESULT: %s\n", again != set1 ? "REPRODUCED" : "not reproduced");
  return again != set1 ? 0 : 1;
}
