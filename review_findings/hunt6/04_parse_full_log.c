/* FINDING 04 (P3): orc_parse_full() decides whether to produce the log by
 * looking at *log instead of log.
 *  - the normal call, `char *log = NULL; orc_parse_full (code, &progs, &log)`,
 *    never returns a log although the source has errors;
 *  - a log is only produced when the caller's pointer happens to be non-NULL
 *    (e.g. uninitialised), and that value is then overwritten;
 *  - orc_parse_full (code, &progs, NULL) dereferences NULL.              */
#include <orc/orc.h>
#include <orc/orcparse.h>
#include <stdio.h>
#include <string.h>
#include <stdlib.h>
#include <unistd.h>
#include <sys/wait.h>

int
main (void)
{
  const char *src = ".function f\n.dest 2 d1\n.source 2 s1\nbogus d1, s1\n";
  OrcProgram **progs = NULL;
  OrcParseError **errs = NULL;
  int n, i, n_err = 0, got_null_log, crashed;
  char *log = NULL;
  char dummy[] = "x";

  orc_init ();
  orc_parse_code (src, &progs, &n, &errs, &n_err);
  printf ("orc_parse_code finds %d error(s) in the source\n", n_err);
  orc_parse_error_freev (errs);
  for (i = 0; i < n; i++) orc_program_free (progs[i]);
  free (progs);

  n = orc_parse_full (src, &progs, &log);
  printf ("orc_parse_full with log initialised to NULL: log=%s\n", log ? log : "(null)");
  got_null_log = (log == NULL);
  free (log);
  for (i = 0; i < n; i++) orc_program_free (progs[i]);
  free (progs);

  log = dummy;
  n = orc_parse_full (src, &progs, &log);
  printf ("orc_parse_full with log initialised to a non-NULL value: log=%s", log == dummy ? "(unchanged)\n" : log);
  for (i = 0; i < n; i++) orc_program_free (progs[i]);
  free (progs);

  {
    pid_t pid = fork ();
    int st = 0;
    if (pid == 0) {
      OrcProgram **pp = NULL;
      orc_parse_full (src, &pp, NULL);
      _exit (0);
    }
    waitpid (pid, &st, 0);
    crashed = WIFSIGNALED (st);
    printf ("orc_parse_full (code, &progs, NULL): %s\n", crashed ? "killed by a signal" : "returns");
  }

  if (n_err > 0 && got_null_log && log != dummy) {
    printf ("RESULT: REPRODUCED\n");
    return 0;
  }
  printf ("RESULT: not reproduced\n");
  return 1;
}
