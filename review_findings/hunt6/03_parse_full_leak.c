/* FINDING 03 (P3): orc_parse_full() leaks every error record.
 * When a log is requested it calls orc_parse_code() with an error vector,
 * turns the records into the log string and never frees the vector nor the
 * records (orc_parse_error_freev is not called).  The leak grows with every
 * call that meets a parse error.  Measured here with mallinfo; the ASan
 * build reports the same blocks (LeakSanitizer).                          */
#include <orc/orc.h>
#include <orc/orcparse.h>
#include <stdio.h>
#include <string.h>
#include <stdlib.h>
#include <malloc.h>

static size_t
in_use (void)
{
#if defined(__GLIBC__) && (__GLIBC__ > 2 || (__GLIBC__ == 2 && __GLIBC_MINOR__ >= 33))
  struct mallinfo2 mi = mallinfo2 ();
#else
  struct mallinfo mi = mallinfo ();
#endif
  return (size_t) mi.uordblks;
}

static void
one_call (const char *src)
{
  OrcProgram **progs = NULL;
  char dummy[] = "x";
  char *log = dummy;            /* see finding 04: *log must be non-NULL to get a log */
  int i, n;

  n = orc_parse_full (src, &progs, &log);
  if (log != dummy) free (log);
  for (i = 0; i < n; i++) orc_program_free (progs[i]);
  free (progs);
}

int
main (void)
{
  const char *src = ".function f\n.dest 2 d1\n.source 2 s1\nbogus d1, s1\naddw d1, s1, 1, 2\n.temp\n";
  size_t a, b, c;
  int i;

  orc_init ();
  for (i = 0; i < 50; i++) one_call (src);
  a = in_use ();
  for (i = 0; i < 1000; i++) one_call (src);
  b = in_use ();
  for (i = 0; i < 1000; i++) one_call (src);
  c = in_use ();
  printf ("heap in use: %zu, after 1000 more calls %zu (+%zu), after 2000 %zu (+%zu)\n",
      a, b, b - a, c, c - a);
  if (b > a + 100000 && c > b + 100000) {
    printf ("RESULT: REPRODUCED (about %zu bytes leaked per call)\n", (c - a) / 2000);
    return 0;
  }
  printf ("RESULT: not reproduced\n");
  return 1;
}
