/* FINDING 09 (P1/P2): ldresnearl / ldreslinl whose array operand is a *destination* variable
 * (a dest that is read, "dest also a source") compiles without error but the generated code uses
 * an unallocated register for the 16.16 position and faults; emulation runs it fine.
 *
 * orc_x86_compiler_init sets need_offset_reg for the array operand of ldres*
 * (orc/orcprogram-x86.c:173-183), but orc_compiler_global_reg_alloc honours need_offset_reg only
 * in "case ORC_VAR_TYPE_SRC" (orc/orccompiler.c:1175-1192); for ORC_VAR_TYPE_DEST (1193-1195)
 * ptr_offset stays 0 and no error is raised.  The rules then emit "mov $0, %UNALLOCATED",
 * "add $65536, %UNALLOCATED" ... (register number 0 is encoded as %eax, which holds the pointer
 * of the first destination).
 */
#include "harness.h"

static int
run (const char *target, const char *opcode)
{
  OrcProgram *p = orc_program_new ();
  HCfg cfg;
  char rep[1024];
  int d1, d2, c1, c2, r;
  OrcCompileResult cr;

  d1 = orc_program_add_destination (p, 4, "d1");   /* only read */
  d2 = orc_program_add_destination (p, 4, "d2");   /* written */
  c1 = orc_program_add_constant (p, 4, 0, "c1");
  c2 = orc_program_add_constant (p, 4, 0x10000, "c2");
  orc_program_append_2 (p, opcode, 0, d2, d1, c1, c2);
  cr = h_compile (p, target, 0, 0);
  memset (&cfg, 0, sizeof (cfg));
  cfg.after[d1] = 1;   /* ldreslinl also looks at the right neighbour */
  r = h_diff_run (p, 9, 1, &cfg, rep, sizeof (rep));
  printf ("  %s %s d2, d1, 0, 0x10000: compile result %d%s; %s %.100s\n", target, opcode, cr,
      p->asm_code && strstr (p->asm_code, "UNALLOCATED") ? " (listing contains %UNALLOCATED)" : "",
      r == 0 ? "ok" : r == H_NOTCOMPILED ? "not compiled" : "FAILED", rep);
  orc_program_free (p);
  return r != 0 && r != H_NOTCOMPILED;
}

int
main (void)
{
  int bad = 0;
  orc_init ();
  bad += run ("sse", "ldresnearl");
  bad += run ("sse", "ldreslinl");
  bad += run ("mmx", "ldresnearl");
  bad += run ("mmx", "ldreslinl");
  printf (bad ? "REPRODUCED\n" : "not reproduced\n");
  return bad ? 0 : 1;
}
