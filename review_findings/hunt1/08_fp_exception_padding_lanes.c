/* FINDING 08 (P1/P3, low severity): float programs execute divps/sqrtps/... on the padding lanes
 * of partial vectors, so a caller that runs with unmasked floating-point exceptions gets a
 * SIGFPE although no array element causes an exception (emulation runs fine).
 *
 * For n smaller than one vector (or the head/tail elements around the aligned region) the load
 * rules fetch 1 or 2 elements with movd/movq, which zero the other lanes; "divf d, s1, s2" then
 * executes DIVPS on all four lanes, i.e. 0/0 in the padding lanes -> invalid-operation exception.
 * orc_sse_set_mxcsr / orc_avx_set_mxcsr (orc/orcsse.c:123-149, orc/orcavx.c:188-215) only OR
 * FTZ|DAZ (0x8040) into the caller's MXCSR and keep its exception masks, so the exception is
 * delivered when the caller has enabled FE_INVALID (feenableexcept).  With the default masks only
 * the sticky flags are affected, and these are restored on exit.
 */
#define _GNU_SOURCE
#include <fenv.h>
#include "harness.h"

static void
fill (int var, void *ptr, int bytes, void *user)
{
  float *f = ptr; int i;
  (void) user;
  for (i = 0; i < bytes / 4; i++) f[i] = 1.5f + i + var;   /* no zero, no NaN anywhere */
}

int
main (void)
{
  static const char *targets[] = { "sse", "avx" };
  int t, n, bad = 0;
  orc_init ();
  for (t = 0; t < 2; t++) for (n = 1; n <= 4; n++) {
    OrcProgram *p = orc_program_new ();
    HCfg cfg; char rep[1024]; int r;
    orc_program_add_destination (p, 4, "d");
    orc_program_add_source (p, 4, "s1");
    orc_program_add_source (p, 4, "s2");
    orc_program_append_2 (p, "divf", 0, ORC_VAR_D1, ORC_VAR_S1, ORC_VAR_S2, 0);
    h_compile (p, targets[t], 0, 0);
    memset (&cfg, 0, sizeof (cfg)); cfg.fill = fill; cfg.place[0] = 1;
    feclearexcept (FE_ALL_EXCEPT);
    feenableexcept (FE_INVALID | FE_DIVBYZERO);
    r = h_diff_run (p, n, 1, &cfg, rep, sizeof (rep));
    fedisableexcept (FE_ALL_EXCEPT);
    printf ("  %s divf n=%d with FE_INVALID|FE_DIVBYZERO unmasked: %s %.60s\n", targets[t], n,
        r == 0 ? "ok" : "FAILED", rep);
    if (r & H_FAULT) bad++;
    orc_program_free (p);
  }
  printf (bad ? "REPRODUCED\n" : "not reproduced\n");
  return bad ? 0 : 1;
}
