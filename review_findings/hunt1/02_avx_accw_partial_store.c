/* FINDING 02 (P1): the avx target stores only the low 16 bits of a 16-bit accumulator.
 *
 * avx_reduce_accumulator (orc/orcprogram-avx.c, "if (var->size == 2) orc_avx_sse_emit_pextrw_memoffset")
 * writes 2 bytes into ex->accumulators[i] (an int).  Emulation, sse and mmx write the whole int
 * (sum & 0xffff).  An OrcExecutor is normally an uninitialised object on the caller's stack (this is
 * what orcc generates: "OrcExecutor _ex, *ex = &_ex;"), so after an avx run
 * orc_executor_get_accumulator() / ex->accumulators[0] carries 16 bits of stale data.
 */
#include "harness.h"

int
main (void)
{
  static const char *targets[] = { "sse", "mmx", "avx" };
  int t, bad = 0;
  orc_init ();
  for (t = 0; t < 3; t++) {
    OrcProgram *p = orc_program_new ();
    char rep[1024];
    int r;
    orc_program_add_source (p, 2, "s1");
    orc_program_add_accumulator (p, 2, "a1");
    orc_program_append_2 (p, "accw", 0, ORC_VAR_A1, ORC_VAR_S1, 0, 0);
    h_compile (p, targets[t], 0, 0);
    h_acc_preset[0] = (int) 0xdeadbeef;   /* what happened to be in the executor */
    r = h_diff_run (p, 10, 1, NULL, rep, sizeof (rep));
    printf ("  %s accw: %s %s\n", targets[t], r ? "MISMATCH" : "ok", rep);
    if (t == 2 && (r & H_MISMATCH)) bad = 1;
    orc_program_free (p);
  }
  printf (bad ? "REPRODUCED\n" : "not reproduced\n");
  return bad ? 0 : 1;
}
