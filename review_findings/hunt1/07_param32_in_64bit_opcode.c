/* FINDING 07 (P1, low severity): a 4-byte parameter used as operand of a 64-bit opcode is
 * zero-extended by sse/avx and sign-extended by emulation.
 *
 * orc_compiler_check_sizes deliberately does not compare the declared size of constants and
 * parameters with the operand size, so ".param 4 p1 / addq d, s, p1" compiles.  Emulation
 * (orcexecutor.c: load_constant (tmpspace, 8, ex->params[i]) with an int argument) uses the
 * sign-extended value, as it does for a 4-byte *constant* in the same position, and so do the
 * sse/avx constant paths.  sse_rule_loadpX / avx_rule_loadpX take the "else" branch for
 * src->size != 8 (orc/orcrules-sse.c:60-84, orc/orcrules-avx.c:54-61): movd + pshufd (1,0,1,0)
 * resp. a 64-bit broadcast of the movd result, i.e. 0x00000000_pppppppp per lane.
 */
#include "harness.h"

int
main (void)
{
  static const char *targets[] = { "sse", "avx" };
  int t, bad = 0;
  orc_init ();
  for (t = 0; t < 2; t++) {
    OrcProgram *p = orc_program_new ();
    char rep[1024];
    int s, p1, r;
    orc_program_add_destination (p, 8, "d");
    s = orc_program_add_source (p, 8, "s");
    p1 = orc_program_add_parameter (p, 4, "p1");
    orc_program_append_2 (p, "addq", 0, ORC_VAR_D1, s, p1, 0);
    h_compile (p, targets[t], 0, 0);
    h_params[p1] = -5;
    r = h_diff_run (p, 9, 1, NULL, rep, sizeof (rep));
    printf ("  %s addq d, s, (4-byte param = -5): %s %s\n", targets[t], r ? "MISMATCH" : "ok", rep);
    if (r & H_MISMATCH) bad++;
    orc_program_free (p);
  }
  printf (bad ? "REPRODUCED\n" : "not reproduced\n");
  return bad ? 0 : 1;
}
