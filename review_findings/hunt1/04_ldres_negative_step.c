/* FINDING 04 (P1/P2): ldresnearl / ldreslinl with a position that moves backwards (negative
 * increment, or negative start) read from a wild address on sse and mmx.
 *
 * The rules keep the element index as a signed 16.16 value in a 32-bit register, compute the index
 * with a 32-bit "sar $16" (which clears bits 63:32 of the register) and then use that register as
 * a 64-bit index/addend: "movd (ptr,%rcx,4)" and "lea (ptr,%rcx,4),ptr"
 * (orc/orcrules-sse.c sse_rule_ldresnearl 505-506, 527-533; sse_rule_ldreslinl 582-586, 606-610,
 * 656-661; the same for the start position in orc/orcprogram-x86.c orc_x86_load_constants_inner
 * 330-335).  An index of -1 becomes +4294967295.
 * Emulation computes (start + i*increment) >> 16 as a signed value and simply walks the source
 * backwards (horizontal mirroring).
 */
#include "harness.h"

static int
run (const char *target, const char *opcode, int start, int inc, int n, int nsrc)
{
  OrcProgram *p = orc_program_new ();
  HCfg cfg;
  char rep[1024];
  int s, p1, p2, r;

  orc_program_add_destination (p, 4, "d");
  s = orc_program_add_source (p, 4, "s");
  p1 = orc_program_add_parameter (p, 4, "p1");
  p2 = orc_program_add_parameter (p, 4, "p2");
  orc_program_append_2 (p, opcode, 0, ORC_VAR_D1, s, p1, p2);
  h_compile (p, target, 0, 0);
  memset (&cfg, 0, sizeof (cfg));
  cfg.nelem[s] = nsrc;           /* source elements 0..nsrc-1 exist, guard pages around them */
  cfg.place[s] = 1;
  h_params[p1] = start;
  h_params[p2] = inc;
  r = h_diff_run (p, n, 1, &cfg, rep, sizeof (rep));
  printf ("  %s %s start=0x%x inc=%d n=%d: %s %s\n", target, opcode, start, inc, n,
      r == 0 ? "ok" : "FAILED", rep);
  orc_program_free (p);
  return r != 0 && r != H_NOTCOMPILED;
}

int
main (void)
{
  int bad = 0;
  orc_init ();
  /* forward walk, for reference */
  run ("sse", "ldresnearl", 0, 0x10000, 4, 4);
  /* positions 3.0, 2.0, 1.0, 0.0: elements 3,2,1,0 */
  bad += run ("sse", "ldresnearl", 0x30000, -0x10000, 4, 4);
  bad += run ("mmx", "ldresnearl", 0x30000, -0x10000, 4, 4);
  /* positions 3.5, 3.25, 3.0, 2.75: elements 3,3,3,2 (and their right neighbours) */
  bad += run ("sse", "ldreslinl", 0x38000, -0x4000, 4, 5);
  bad += run ("mmx", "ldreslinl", 0x38000, -0x4000, 4, 5);
  printf (bad ? "REPRODUCED\n" : "not reproduced\n");
  return bad ? 0 : 1;
}
