#!/bin/sh
# Builds every reproducer in this directory against the library in ../_b and runs it.
# Prints one line per finding:  FINDING NN: <summary> : REPRODUCED / not reproduced
# (details of each run are kept in out/NN.log)
HERE=$(cd "$(dirname "$0")" && pwd)
ROOT=$(dirname "$HERE")
B=${B:-$ROOT/_b}
mkdir -p "$HERE/out"
summary () {
  case "$1" in
    01) echo "minf/maxf/mind/maxd (sse, avx): -0.0/+0.0 and NaN paired with a number do not give the emulated bytes (OR of two MINPS/MAXPS results)" ;;
    02) echo "avx stores only 16 bits of a 16-bit accumulator, the upper half of ex->accumulators[i] keeps stale data" ;;
    03) echo "negative 2-D stride is zero-extended in orc_x86_add_strides: native code walks +4 GiB and faults (sse, avx, mmx)" ;;
    04) echo "ldresnearl/ldreslinl with a backwards moving position: negative index zero-extended to 64 bits, wild read (sse, mmx)" ;;
    05) echo "ldresnearl with increment >= 0x20000000: 32-bit 16.16 accumulator overflows inside one vector iteration (sse, mmx)" ;;
    06) echo "x2 accw / x2 accl / x2 accsadubl compile but the native accumulator differs from emulation (sse, avx, mmx)" ;;
    07) echo "4-byte parameter used by a 64-bit opcode: zero-extended by sse/avx loadpq, sign-extended by emulation" ;;
    08) echo "float ops run on the zero padding lanes of partial vectors: spurious SIGFPE when the caller has FP exceptions unmasked (sse, avx)" ;;
    09) echo "ldresnearl/ldreslinl reading a destination array: no offset register allocated, code uses %UNALLOCATED and faults (sse, mmx)" ;;
    *) echo "$1" ;;
  esac
}
for src in "$HERE"/[0-9][0-9]_*.c; do
  nn=$(basename "$src" | cut -c1-2)
  exe="$HERE/out/$(basename "$src" .c)"
  if ! gcc -O1 -g -Wall -Wno-unused-function -I"$ROOT" -I"$B" -I"$B/orc" "$src" -o "$exe" \
       -L"$B/orc" -lorc-0.4 -Wl,-rpath,"$B/orc" -lm > "$HERE/out/$nn.build.log" 2>&1; then
    echo "FINDING $nn: $(summary $nn) : BUILD FAILED (see out/$nn.build.log)"
    continue
  fi
  timeout 120 "$exe" > "$HERE/out/$nn.log" 2>&1
  if tail -n 1 "$HERE/out/$nn.log" | grep -q '^REPRODUCED$'; then
    echo "FINDING $nn: $(summary $nn) : REPRODUCED"
  else
    echo "FINDING $nn: $(summary $nn) : not reproduced"
  fi
done
