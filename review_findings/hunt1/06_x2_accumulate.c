/* FINDING 06 (P1): the x2 prefix on accumulating opcodes (x2 accw, x2 accl, x2 accsadubl) is
 * accepted by the compiler but the native accumulator value differs from emulation on sse, avx
 * and mmx.
 *
 * orc_compiler_check_sizes accepts "x2 accw a, s" when a is a 4-byte accumulator and s a 4-byte
 * array, and emulation defines it (2n 16-bit elements are summed, result & 0xffff).  The x86
 * back ends pick the reduction by the size of the accumulator *variable*:
 * sse_reduce_accumulator / avx_reduce_accumulator / mmx_reduce_accumulator
 * (orc/orcprogram-sse.c:160-195, orcprogram-avx.c:166-222, orcprogram-mmx.c:159-188) test
 * "var->size == 2", which is false for the doubled size, so the 16-bit lane sums of accw are
 * added as 32-bit lanes and stored unmasked; sse/avx accl drops an element in the single-element
 * tail ("if (loop_shift == 0) pslldq 12", orcrules-sse.c:865, orcrules-avx.c:756, assumes one
 * 4-byte element); accsadubl shifts by 16 - (1 << loop_shift) bytes, i.e. assumes 1-byte
 * elements, and sums garbage/too few bytes.
 */
#include "harness.h"

static int
run (const char *target, const char *opcode, int srcsize, int accsize, int nsrc_ops, int n)
{
  OrcProgram *p = orc_program_new ();
  char rep[1024];
  int a, s1, s2 = 0, r;

  s1 = orc_program_add_source (p, srcsize, "s1");
  if (nsrc_ops == 2) s2 = orc_program_add_source (p, srcsize, "s2");
  a = orc_program_add_accumulator (p, accsize, "a1");
  orc_program_append_2 (p, opcode, ORC_INSTRUCTION_FLAG_X2, a, s1, s2, 0);
  h_compile (p, target, 0, 0);
  h_acc_preset[0] = 0;
  r = h_diff_run (p, n, 1, NULL, rep, sizeof (rep));
  printf ("  %s x2 %s n=%d: %s %s\n", target, opcode, n, r == 0 ? "ok" : r == H_NOTCOMPILED ? "-" : "MISMATCH", rep);
  orc_program_free (p);
  return (r & H_MISMATCH) != 0;
}

int
main (void)
{
  static const char *targets[] = { "sse", "avx", "mmx" };
  int t, bad = 0;
  orc_init ();
  for (t = 0; t < 3; t++) {
    bad += run (targets[t], "accw", 4, 4, 1, 37);
    bad += run (targets[t], "accl", 8, 8, 1, 37);
    bad += run (targets[t], "accsadubl", 2, 8, 2, 37);
  }
  printf (bad ? "REPRODUCED\n" : "not reproduced\n");
  return bad ? 0 : 1;
}
