/* FINDING 03 (P1/P2): a negative stride of a 2-D program is zero-extended by the x86 back ends.
 *
 * orc_x86_add_strides (orc/orcprogram-x86.c:354-360) loads the 32-bit stride with a 32-bit mov
 * (which clears the upper half of the 64-bit register) and then adds the 64-bit register to the
 * 64-bit array pointer: a stride of -64 advances the pointer by +4294967232 bytes.
 * Emulation (orcexecutor.c: ORC_PTR_OFFSET(array, stride * row)) walks the rows backwards as
 * intended (bottom-up images).  Native code faults on the second row (or reads/writes whatever
 * is mapped 4 GiB further).  sse, avx and mmx are all affected.
 */
#include "harness.h"

#define ROWS 4
#define STRIDE 64
#define N 20

static int
run (const char *target)
{
  OrcProgram *p = orc_program_new ();
  OrcExecutor *ex;
  unsigned char *map, *src, d_emul[ROWS][STRIDE], d_nat[ROWS][STRIDE];
  int i, j, sig, res;

  orc_program_set_2d (p);
  orc_program_add_destination (p, 1, "d");
  orc_program_add_source (p, 1, "s");
  orc_program_append_2 (p, "copyb", 0, ORC_VAR_D1, ORC_VAR_S1, 0, 0);
  h_compile (p, target, 0, 0);
  if (p->code_exec == (void *) orc_executor_emulate) { printf ("  %s: not compiled\n", target); return 0; }

  map = mmap (NULL, 3 * H_PAGE, PROT_NONE, MAP_PRIVATE | MAP_ANONYMOUS, -1, 0);
  mprotect (map + H_PAGE, H_PAGE, PROT_READ | PROT_WRITE);
  src = map + H_PAGE;
  for (i = 0; i < ROWS; i++) for (j = 0; j < STRIDE; j++) src[i * STRIDE + j] = i * 50 + j;
  memset (d_emul, 0xA5, sizeof (d_emul));
  memset (d_nat, 0xA5, sizeof (d_nat));

  ex = orc_executor_new (p);
  orc_executor_set_n (ex, N);
  orc_executor_set_m (ex, ROWS);
  /* the source is read bottom-up */
  orc_executor_set_array (ex, ORC_VAR_S1, src + (ROWS - 1) * STRIDE);
  orc_executor_set_stride (ex, ORC_VAR_S1, -STRIDE);
  orc_executor_set_stride (ex, ORC_VAR_D1, STRIDE);

  { OrcExecutor e = *ex; orc_executor_set_array (&e, ORC_VAR_D1, d_emul); orc_executor_emulate (&e); }
  h_install ();
  h_armed = 1;
  sig = sigsetjmp (h_jmp, 1);
  if (sig == 0) {
    OrcExecutor e = *ex;
    orc_executor_set_array (&e, ORC_VAR_D1, d_nat);
    orc_executor_run (&e);
    h_armed = 0;
    res = memcmp (d_emul, d_nat, sizeof (d_nat)) != 0;
    printf ("  %s: native ran, output %s\n", target, res ? "DIFFERS from emulation" : "equals emulation");
  } else {
    __asm__ volatile ("emms");
    printf ("  %s: emulation completed; native code faulted (signal %d) at %p = last source row + %lld bytes\n",
        target, sig, h_fault_addr, (long long) ((unsigned char *) h_fault_addr - (src + (ROWS - 1) * STRIDE)));
    res = 1;
  }
  munmap (map, 3 * H_PAGE);
  return res;
}

int
main (void)
{
  int bad = 0;
  orc_init ();
  bad += run ("sse");
  bad += run ("avx");
  bad += run ("mmx");
  printf (bad ? "REPRODUCED\n" : "not reproduced\n");
  return bad ? 0 : 1;
}
