/* FINDING 01 (P1): minf/maxf/mind/maxd on sse and avx do not return the bytes emulation returns
 * for signed zeros and for a NaN paired with a number.
 *
 * The rules compute min(a,b) and min(b,a) and OR the two results
 * (orc/orcrules-sse.c sse_rule_minf/mind/maxf/maxd, orc/orcrules-avx.c avx_rule_minf/...).
 *  - (-0.0, +0.0): the two MINPS results are +0.0 and -0.0, OR gives -0.0;
 *    emulation returns (a < b) ? a : b = +0.0 (same for max).
 *  - (NaN, x): the two results are NaN and x, OR gives NaN|x, i.e. the NaN payload/sign is
 *    polluted with the bits of the number; emulation returns the NaN operand unchanged.
 */
#include "harness.h"

static const unsigned a32[] = { 0x80000000u, 0x7fc00000u, 0x3fa00000u, 0x7fc00000u, 0x80000001u };
static const unsigned b32[] = { 0x00000000u, 0x3fa00000u, 0x7fc00000u, 0xbf800000u, 0x00000000u };
#define NV 5

static void
fill (int var, void *ptr, int bytes, void *user)
{
  int size = *(int *) user, i;
  for (i = 0; i < bytes / size; i++) {
    unsigned v = (var == ORC_VAR_S1 ? a32 : b32)[i % NV];
    if (size == 4) ((unsigned *) ptr)[i] = v;
    else {
      /* same values as doubles: sign | exponent pattern | payload */
      orc_uint64 d;
      switch (i % NV) {
        case 0: d = var == ORC_VAR_S1 ? 0x8000000000000000ULL : 0; break;
        case 1: d = var == ORC_VAR_S1 ? 0x7ff8000000000000ULL : 0x3ff4000000000000ULL; break;
        case 2: d = var == ORC_VAR_S1 ? 0x3ff4000000000000ULL : 0x7ff8000000000000ULL; break;
        case 3: d = var == ORC_VAR_S1 ? 0x7ff8000000000000ULL : 0xbff0000000000000ULL; break;
        default: d = var == ORC_VAR_S1 ? 0x8000000000000001ULL : 0; break;
      }
      ((orc_uint64 *) ptr)[i] = d;
    }
  }
}

int
main (void)
{
  static const char *ops[] = { "minf", "maxf", "mind", "maxd" };
  static const char *targets[] = { "sse", "avx" };
  int t, o, bad = 0;

  orc_init ();
  for (t = 0; t < 2; t++) for (o = 0; o < 4; o++) {
    int size = o < 2 ? 4 : 8, r;
    OrcProgram *p = orc_program_new ();
    HCfg cfg;
    char rep[1024];
    orc_program_add_destination (p, size, "d");
    orc_program_add_source (p, size, "s1");
    orc_program_add_source (p, size, "s2");
    orc_program_append_2 (p, ops[o], 0, ORC_VAR_D1, ORC_VAR_S1, ORC_VAR_S2, 0);
    h_compile (p, targets[t], 0, 0);
    memset (&cfg, 0, sizeof (cfg));
    cfg.fill = fill; cfg.user = &size;
    r = h_diff_run (p, NV, 1, &cfg, rep, sizeof (rep));
    printf ("  %s %s: %s %s\n", targets[t], ops[o], r ? "MISMATCH" : "ok", rep);
    if (r & H_MISMATCH) bad++;
    orc_program_free (p);
  }
  /* element by element for minf on sse */
  {
    OrcProgram *p = orc_program_new ();
    OrcExecutor *ex;
    unsigned de[NV], dn[NV];
    int i;
    orc_program_add_destination (p, 4, "d");
    orc_program_add_source (p, 4, "s1");
    orc_program_add_source (p, 4, "s2");
    orc_program_append_2 (p, "minf", 0, ORC_VAR_D1, ORC_VAR_S1, ORC_VAR_S2, 0);
    h_compile (p, "sse", 0, 0);
    ex = orc_executor_new (p);
    orc_executor_set_n (ex, NV);
    orc_executor_set_array (ex, ORC_VAR_S1, (void *) a32);
    orc_executor_set_array (ex, ORC_VAR_S2, (void *) b32);
    orc_executor_set_array (ex, ORC_VAR_D1, de);
    orc_executor_emulate (ex);
    orc_executor_set_array (ex, ORC_VAR_D1, dn);
    orc_executor_run (ex);
    for (i = 0; i < NV; i++)
      printf ("  minf(%08x, %08x): emulated %08x  sse %08x%s\n", a32[i], b32[i], de[i], dn[i], de[i] != dn[i] ? "  <-- differs" : "");
  }
  printf (bad ? "REPRODUCED\n" : "not reproduced\n");
  return bad ? 0 : 1;
}
