/* FINDING 05 (P1/P2): ldresnearl with an increment >= 0x20000000 (8192.0 source elements per
 * output element) reads wrong/unmapped elements on sse and mmx.
 *
 * sse_rule_ldresnearl (orc/orcrules-sse.c:500-534) adds the increment to the 32-bit 16.16
 * accumulator once per element of the vector iteration and only removes the integer part
 * ("and $0xffff") after the last one.  With 4 elements per iteration fraction + 4*increment must
 * stay below 2^31, otherwise the accumulator turns negative and "sar $16" yields a negative
 * index.  Emulation computes (start + i*increment) >> 16 in 64 bits.
 */
#include "harness.h"

static int
run (const char *target, int inc, int n)
{
  OrcProgram *p = orc_program_new ();
  HCfg cfg;
  char rep[1024];
  int s, p1, p2, r;
  long long last = ((long long) inc * (n - 1)) >> 16;

  orc_program_add_destination (p, 4, "d");
  s = orc_program_add_source (p, 4, "s");
  p1 = orc_program_add_parameter (p, 4, "p1");
  p2 = orc_program_add_parameter (p, 4, "p2");
  orc_program_append_2 (p, "ldresnearl", 0, ORC_VAR_D1, s, p1, p2);
  h_compile (p, target, 0, 0);
  memset (&cfg, 0, sizeof (cfg));
  cfg.nelem[s] = (int) last + 1;
  cfg.place[s] = 1;              /* element 0 right after an unmapped page */
  h_params[p1] = 0;
  h_params[p2] = inc;
  r = h_diff_run (p, n, 1, &cfg, rep, sizeof (rep));
  printf ("  %s ldresnearl inc=0x%x n=%d (source has %lld elements): %s %s\n", target, inc, n, last + 1,
      r == 0 ? "ok" : "FAILED", rep);
  orc_program_free (p);
  return r != 0 && r != H_NOTCOMPILED;
}

int
main (void)
{
  int bad = 0;
  orc_init ();
  run ("sse", 0x10000000, 8);          /* fine: 4 * 0x10000000 < 2^31 */
  bad += run ("sse", 0x20000000, 8);   /* 4 * 0x20000000 = 2^31 */
  bad += run ("sse", 0x40000000, 4);
  bad += run ("mmx", 0x40000000, 4);
  printf (bad ? "REPRODUCED\n" : "not reproduced\n");
  return bad ? 0 : 1;
}
