/* Small differential-test harness shared by the reproducers.
 *
 * - every array lives in its own mmap'ed region that is fenced by PROT_NONE
 *   pages, either ending right before a guard page or starting right after one
 * - orc_executor_emulate and the JIT code run on identical input (same
 *   addresses), the complete writable regions and the accumulators are compared
 * - the JIT code is entered through an assembly trampoline that checks the
 *   callee-saved registers, the stack pointer, the direction flag, MXCSR and
 *   the x87 tag word
 */
#ifndef HARNESS_H
#define HARNESS_H

#define _GNU_SOURCE
#include <stdio.h>
#include <stdlib.h>
#include <string.h>
#include <stdint.h>
#include <signal.h>
#include <setjmp.h>
#include <unistd.h>
#include <sys/mman.h>
#include <orc/orc.h>

#define H_PAGE 4096
#define H_MAXARR 12

typedef struct {
  /* per array variable (index ORC_VAR_D1 .. ORC_VAR_S8) */
  int place[H_MAXARR];      /* 0: row block ends at guard page, 1: starts at guard page, 2: start + misalign */
  int misalign[H_MAXARR];   /* bytes, for place == 2 */
  int stride[H_MAXARR];     /* bytes, 2-D only; 0 = n*size */
  int before[H_MAXARR];     /* extra readable elements before element 0 (loadoff negative) */
  int after[H_MAXARR];      /* extra readable elements after element n-1 (loadoff/loadup/ldres) */
  int nelem[H_MAXARR];      /* if non-zero: number of elements of the array (overrides n) */
  unsigned seed;
  int verbose;
  int check_p3;
  /* hook to fill an array: if NULL random bytes */
  void (*fill) (int var, void *ptr, int bytes, void *user);
  void *user;
} HCfg;

typedef struct {
  unsigned char *map;       /* whole mapping */
  size_t maplen;
  unsigned char *lo;        /* accessible area */
  size_t len;
  unsigned char *ptr;       /* pointer handed to orc (element 0 of row 0) */
} HArr;

static sigjmp_buf h_jmp;
static volatile sig_atomic_t h_armed;
static void *volatile h_fault_addr;

static void
h_segv (int sig, siginfo_t *si, void *uc)
{
  (void) uc;
  if (h_armed) {
    h_fault_addr = si->si_addr;
    h_armed = 0;
    siglongjmp (h_jmp, sig);
  }
  signal (sig, SIG_DFL);
  raise (sig);
}

static void
h_install (void)
{
  static int done;
  static unsigned char altstack[65536];
  stack_t ss;
  struct sigaction sa;
  if (done) return;
  done = 1;
  ss.ss_sp = altstack;
  ss.ss_size = sizeof (altstack);
  ss.ss_flags = 0;
  sigaltstack (&ss, NULL);
  memset (&sa, 0, sizeof (sa));
  sa.sa_sigaction = h_segv;
  sa.sa_flags = SA_SIGINFO | SA_ONSTACK | SA_NODEFER;
  sigaction (SIGSEGV, &sa, NULL);
  sigaction (SIGBUS, &sa, NULL);
  sigaction (SIGILL, &sa, NULL);
  sigaction (SIGFPE, &sa, NULL);
}

/* ---- trampoline ------------------------------------------------------- */
typedef struct {
  uint64_t rbx, rbp, r12, r13, r14, r15, rflags, rsp_before, rsp_after;
  uint32_t mxcsr_before, mxcsr_after;
  uint16_t x87_tag_after;
  uint16_t x87_cw_before, x87_cw_after;
} HRegs;

void h_call_checked (void *func, void *ex, HRegs *out);
__asm__ (
    ".text\n"
    ".globl h_call_checked\n"
    ".type h_call_checked,@function\n"
    "h_call_checked:\n"
    "  push %rbx\n  push %rbp\n  push %r12\n  push %r13\n  push %r14\n  push %r15\n"
    "  push %rdx\n"
    "  stmxcsr 72(%rdx)\n"
    "  fnstcw 82(%rdx)\n"
    "  mov %rsp, 56(%rdx)\n"
    "  mov %rdi, %rax\n"
    "  mov %rsi, %rdi\n"
    "  movabs $0x1111111111111111, %rbx\n"
    "  movabs $0x2222222222222222, %rbp\n"
    "  movabs $0x3333333333333333, %r12\n"
    "  movabs $0x4444444444444444, %r13\n"
    "  movabs $0x5555555555555555, %r14\n"
    "  movabs $0x6666666666666666, %r15\n"
    "  call *%rax\n"
    "  mov (%rsp), %rdx\n"
    "  mov %rsp, 64(%rdx)\n"
    "  mov %rbx, 0(%rdx)\n"
    "  mov %rbp, 8(%rdx)\n"
    "  mov %r12, 16(%rdx)\n"
    "  mov %r13, 24(%rdx)\n"
    "  mov %r14, 32(%rdx)\n"
    "  mov %r15, 40(%rdx)\n"
    "  pushfq\n  pop %rax\n  mov %rax, 48(%rdx)\n"
    "  cld\n"
    "  stmxcsr 76(%rdx)\n"
    "  fnstcw 84(%rdx)\n"
    "  sub $32, %rsp\n"
    "  fnstenv (%rsp)\n"
    "  mov 8(%rsp), %ax\n"
    "  mov %ax, 80(%rdx)\n"
    "  fldenv (%rsp)\n"
    "  add $32, %rsp\n"
    "  emms\n"
    "  vzeroupper\n"
    "  pop %rdx\n"
    "  pop %r15\n  pop %r14\n  pop %r13\n  pop %r12\n  pop %rbp\n  pop %rbx\n"
    "  ret\n"
    ".size h_call_checked, .-h_call_checked\n");

static int
h_check_regs (const HRegs *r, char *msg, size_t msglen)
{
  int bad = 0;
  msg[0] = 0;
#define H_CHK(cond, ...) do { if (!(cond)) { bad = 1; \
  snprintf (msg + strlen (msg), msglen - strlen (msg), __VA_ARGS__); } } while (0)
  H_CHK (r->rbx == 0x1111111111111111ULL, "rbx clobbered (%llx); ", (unsigned long long) r->rbx);
  H_CHK (r->rbp == 0x2222222222222222ULL, "rbp clobbered (%llx); ", (unsigned long long) r->rbp);
  H_CHK (r->r12 == 0x3333333333333333ULL, "r12 clobbered (%llx); ", (unsigned long long) r->r12);
  H_CHK (r->r13 == 0x4444444444444444ULL, "r13 clobbered (%llx); ", (unsigned long long) r->r13);
  H_CHK (r->r14 == 0x5555555555555555ULL, "r14 clobbered (%llx); ", (unsigned long long) r->r14);
  H_CHK (r->r15 == 0x6666666666666666ULL, "r15 clobbered (%llx); ", (unsigned long long) r->r15);
  H_CHK (r->rsp_before == r->rsp_after, "rsp changed; ");
  H_CHK ((r->rflags & 0x400) == 0, "direction flag set; ");
  H_CHK ((r->mxcsr_before & 0xffc0) == (r->mxcsr_after & 0xffc0),
      "mxcsr control bits %04x -> %04x; ", r->mxcsr_before, r->mxcsr_after);
  H_CHK (r->x87_tag_after == 0xffff, "x87/MMX state not empty (tag %04x); ", r->x87_tag_after);
  H_CHK (r->x87_cw_before == r->x87_cw_after, "x87 cw changed; ");
#undef H_CHK
  return bad;
}

/* ---- arrays ------------------------------------------------------------ */
static void
h_arr_alloc (HArr *a, size_t before_bytes, size_t total_bytes, int place, int misalign)
{
  /* accessible area: [lo, lo+len) ; element 0 at lo + before_bytes */
  size_t pages = (total_bytes + misalign + H_PAGE - 1) / H_PAGE + 1;
  a->maplen = (pages + 2) * H_PAGE;
  a->map = mmap (NULL, a->maplen, PROT_NONE, MAP_PRIVATE | MAP_ANONYMOUS, -1, 0);
  if (a->map == MAP_FAILED) { perror ("mmap"); exit (2); }
  if (mprotect (a->map + H_PAGE, pages * H_PAGE, PROT_READ | PROT_WRITE)) { perror ("mprotect"); exit (2); }
  a->len = total_bytes;
  if (place == 0) {
    a->lo = a->map + H_PAGE + pages * H_PAGE - total_bytes;
  } else if (place == 1) {
    a->lo = a->map + H_PAGE;
  } else {
    a->lo = a->map + H_PAGE + misalign;
  }
  /* make the slack unreadable too is impossible below page granularity;
   * the slack is filled with a canary and compared instead */
  a->ptr = a->lo + before_bytes;
}

static void
h_arr_free (HArr *a)
{
  if (a->map) munmap (a->map, a->maplen);
  a->map = NULL;
}

static unsigned
h_rand (unsigned *s)
{
  *s = *s * 1103515245u + 12345u;
  return (*s >> 8) & 0xffffff;
}

/* result codes */
#define H_OK 0
#define H_MISMATCH 1
#define H_FAULT 2
#define H_P3 4
#define H_NOTCOMPILED 8

/* Run program p (already compiled) with n, m.  Returns bitmask. */
static int
h_diff_run (OrcProgram *p, int n, int m, const HCfg *cfg_in, char *report, size_t rlen)
{
  HCfg cfg;
  HArr arr[H_MAXARR];
  unsigned char *save_emul[H_MAXARR];
  unsigned char *init[H_MAXARR];
  OrcExecutor *ex;
  int i, res = 0, sig;
  unsigned seed;
  int acc_emul[4], acc_nat[4];
  int is2d = p->is_2d;
  int rows = is2d ? m : 1;
  HRegs regs;

  h_install ();
  if (cfg_in) cfg = *cfg_in; else memset (&cfg, 0, sizeof (cfg));
  report[0] = 0;
  memset (arr, 0, sizeof (arr));
  memset (save_emul, 0, sizeof (save_emul));
  memset (init, 0, sizeof (init));

  if (p->code_exec == NULL || p->code_exec == (void *) orc_executor_emulate ||
      p->orccode == NULL) {
    snprintf (report, rlen, "not compiled to native code");
    return H_NOTCOMPILED;
  }

  seed = cfg.seed ? cfg.seed : 12345;
  for (i = 0; i < H_MAXARR; i++) {
    int size = p->vars[i].size;
    size_t rowbytes, total, before;
    int ne;
    if (size == 0) continue;
    ne = cfg.nelem[i] ? cfg.nelem[i] : n;
    rowbytes = (size_t) (cfg.before[i] + ne + cfg.after[i]) * size;
    if (rows > 1) {
      int stride = cfg.stride[i] ? cfg.stride[i] : ne * size;
      total = (size_t) stride * (rows - 1) + rowbytes;
    } else {
      total = rowbytes;
    }
    before = (size_t) cfg.before[i] * size;
    h_arr_alloc (&arr[i], before, total, cfg.place[i], cfg.misalign[i]);
    /* canary in the whole writable mapping */
    memset (arr[i].map + H_PAGE, 0xA5, arr[i].maplen - 2 * H_PAGE);
    init[i] = malloc (total + 1);
    if (cfg.fill) {
      cfg.fill (i, init[i], (int) total, cfg.user);
    } else {
      size_t k;
      for (k = 0; k < total; k++) init[i][k] = h_rand (&seed);
    }
  }

  ex = orc_executor_new (p);
  orc_executor_set_n (ex, n);
  if (is2d) orc_executor_set_m (ex, m);
  for (i = 0; i < H_MAXARR; i++) {
    if (!arr[i].map) continue;
    orc_executor_set_array (ex, i, arr[i].ptr);
    if (is2d) {
      int ne = cfg.nelem[i] ? cfg.nelem[i] : n;
      orc_executor_set_stride (ex, i, cfg.stride[i] ? cfg.stride[i] : ne * p->vars[i].size);
    }
  }
  /* parameters: taken from cfg.user? no: caller sets them through h_params */
  {
    extern int h_params[64];
    extern int h_params_hi[64];
    extern int h_acc_preset[4];
    for (i = 0; i < 4; i++) ex->accumulators[i] = h_acc_preset[i];
    for (i = ORC_VAR_P1; i <= ORC_VAR_P8; i++) {
      ex->params[i] = h_params[i];
      ex->params[i + (ORC_VAR_T1 - ORC_VAR_P1)] = h_params_hi[i];
    }
  }

  /* ---- emulation ---- */
  for (i = 0; i < H_MAXARR; i++)
    if (arr[i].map) memcpy (arr[i].lo, init[i], arr[i].len);
  {
    OrcExecutor exe = *ex;
    h_armed = 1;
    sig = sigsetjmp (h_jmp, 1);
    if (sig == 0) {
      orc_executor_emulate (&exe);
      h_armed = 0;
    } else {
      snprintf (report, rlen, "EMULATION faulted (signal %d at %p): test set-up problem", sig, h_fault_addr);
      res = -1;
      goto out;
    }
    memcpy (acc_emul, exe.accumulators, sizeof (acc_emul));
  }
  for (i = 0; i < H_MAXARR; i++) {
    if (!arr[i].map) continue;
    save_emul[i] = malloc (arr[i].maplen);
    memcpy (save_emul[i], arr[i].map + H_PAGE, arr[i].maplen - 2 * H_PAGE);
    memset (arr[i].map + H_PAGE, 0xA5, arr[i].maplen - 2 * H_PAGE);
    memcpy (arr[i].lo, init[i], arr[i].len);
  }

  /* ---- native ---- */
  {
    OrcExecutor exe = *ex;
    memset (&regs, 0, sizeof (regs));
    h_armed = 1;
    sig = sigsetjmp (h_jmp, 1);
    if (sig == 0) {
      h_call_checked (p->code_exec, &exe, &regs);
      h_armed = 0;
    } else {
      int which = -1;
      for (i = 0; i < H_MAXARR; i++)
        if (arr[i].map && (unsigned char *) h_fault_addr >= arr[i].map &&
            (unsigned char *) h_fault_addr < arr[i].map + arr[i].maplen) which = i;
      __asm__ volatile ("emms; cld");
      if (which >= 0) {
        long off = (unsigned char *) h_fault_addr - arr[which].ptr;
        snprintf (report, rlen, "native code faulted (signal %d) at %s array var %d, byte offset %ld from element 0 (accessible bytes %ld..%ld)",
            sig, which < ORC_VAR_S1 ? "dest" : "src", which, off,
            (long) (arr[which].lo - arr[which].ptr), (long) (arr[which].lo + arr[which].len - arr[which].ptr) - 1);
      } else {
        size_t l;
        snprintf (report, rlen, "native code faulted (signal %d) at %p", sig, h_fault_addr);
        for (i = 0; i < H_MAXARR; i++) if (arr[i].map) {
          long long d = (long long) ((unsigned char *) h_fault_addr - arr[i].ptr);
          l = strlen (report);
          snprintf (report + l, rlen - l, " [= %s var %d element 0 %+lld bytes]", i < ORC_VAR_S1 ? "dest" : "src", i, d);
        }
      }
      res |= H_FAULT;
      goto out;
    }
    memcpy (acc_nat, exe.accumulators, sizeof (acc_nat));
  }

  for (i = 0; i < H_MAXARR; i++) {
    size_t k, len;
    unsigned char *nat;
    if (!arr[i].map) continue;
    nat = arr[i].map + H_PAGE;
    len = arr[i].maplen - 2 * H_PAGE;
    if (memcmp (nat, save_emul[i], len) != 0) {
      for (k = 0; k < len; k++) if (nat[k] != save_emul[i][k]) break;
      {
        long off = (long) ((nat + k) - arr[i].ptr);
        int inside = (nat + k >= arr[i].lo && nat + k < arr[i].lo + arr[i].len);
        size_t l = strlen (report);
        snprintf (report + l, rlen - l, "%s var %d differs at byte offset %ld%s: emulated %02x native %02x; ",
            i < ORC_VAR_S1 ? "dest" : "src", i, off, inside ? "" : " (OUTSIDE the array)",
            save_emul[i][k], nat[k]);
      }
      res |= H_MISMATCH;
    }
  }
  for (i = 0; i < 4; i++) {
    OrcVariable *v = &p->vars[ORC_VAR_A1 + i];
    if (v->size == 0) continue;
    {
      unsigned a = acc_emul[i], b = acc_nat[i];
      if (a != b) {
        size_t l = strlen (report);
        snprintf (report + l, rlen - l, "accumulator %d: emulated %08x native %08x; ", i + 1, a, b);
        res |= H_MISMATCH;
      }
    }
  }
  if (cfg.check_p3) {
    char msg[512];
    if (h_check_regs (&regs, msg, sizeof (msg))) {
      size_t l = strlen (report);
      snprintf (report + l, rlen - l, "P3: %s", msg);
      res |= H_P3;
    }
  }

out:
  orc_executor_free (ex);
  for (i = 0; i < H_MAXARR; i++) {
    h_arr_free (&arr[i]);
    free (save_emul[i]);
    free (init[i]);
  }
  return res;
}

int h_params[64];
int h_params_hi[64];
int h_acc_preset[4]; /* content of ex->accumulators[] before the run (an OrcExecutor on the stack is not zeroed) */

static OrcCompileResult
h_compile (OrcProgram *p, const char *target, unsigned int flags_clear, unsigned int flags_set)
{
  OrcTarget *t = orc_target_get_by_name (target);
  unsigned int flags;
  if (!t) { fprintf (stderr, "no target %s\n", target); exit (2); }
  flags = orc_target_get_default_flags (t);
  flags &= ~flags_clear;
  flags |= flags_set;
  return orc_program_compile_full (p, t, flags);
}

#endif
