#!/bin/sh
# FINDING 11 (P2, neon 32-bit): divf (when the loop shift is <= 1, e.g. next to an 8-byte variable or a 4-byte
# accumulator): the listing prints "vdiv.f32 d4, d4, d6" (VFP VDIV.F32 takes S registers only; rejected by the
# assembler), the machine code encodes S registers with the NEON D/N/M bit layout: s8,s8,s12 - and unrelated
# registers (s21, s1, ...) once d16-d31 are involved; only lane 0 is divided.
# orc/orcrules-neon.c BINARY_VFP(divf,"vdiv.f32",0xee800a00) via orc_neon_emit_binary().
if /tmp/wt-hunt5/findings/neon_tools/run_repro.sh f2_divf_dregs 'vdiv\.f32 d[0-9]+, d[0-9]+, d[0-9]+ .*orc [0-9a-f]{8} vdiv\.f32 s[0-9]+, s[0-9]+, s[0-9]+'
then r=REPRODUCED; else r="not reproduced"; fi
echo "FINDING 11: neon divf: listing 'vdiv.f32 dA, dB, dC' (invalid), code divides S registers (wrong ones above d15) : $r"
