/* FINDING 01 (P3, 32-bit x86, targets sse / mmx / avx with the FRAME_POINTER flag):
 * with ORC_TARGET_*_FRAME_POINTER in 32-bit mode the executor pointer lives in %ebx
 * (orcprogram-x86.c, orc_x86_compiler_init: exec_reg = X86_EBX).
 * orc_x86_emit_prologue() loads it with "movl 8(%esp), %ebx" but only pushes %ebx
 * "if (compiler->used_regs[X86_EBX])", which is never set for the executor register;
 * the epilogue does not restore it either: the callee-saved register ebx is lost.
 *
 * Part 1 reads the listing and the machine code.
 * Part 2 actually runs the 32-bit code: the process switches to the 32-bit code
 * segment (far call to selector 0x23) with code, stack, executor and arrays mapped
 * below 4 GiB; a 32-bit thunk seeds ebx/esi/edi/ebp, calls the function and
 * reports the registers afterwards.  (Skipped if the kernel refuses.)           */
#define _GNU_SOURCE
#include <stdio.h>
#include <string.h>
#include <stdint.h>
#include <stdlib.h>
#include <signal.h>
#include <unistd.h>
#include <sys/mman.h>
#include <sys/wait.h>
#include <orc/orc.h>

extern void call32 (uint32_t thunk, uint32_t stack32);
__asm__ (
".text\n.globl call32\ncall32:\n"
"  push %rbx\n push %rbp\n push %r12\n push %r13\n push %r14\n push %r15\n"
"  mov %rsp, saved_rsp64(%rip)\n"
"  mov %esi, %esp\n"
"  movl %edi, thunk_desc(%rip)\n"
"  lea thunk_desc(%rip), %rax\n"
"  lcall *(%rax)\n"
"  mov saved_rsp64(%rip), %rsp\n"
"  pop %r15\n pop %r14\n pop %r13\n pop %r12\n pop %rbp\n pop %rbx\n ret\n"
".data\nsaved_rsp64: .quad 0\nthunk_desc: .long 0\n .word 0x23\n.text\n");

static OrcProgram *make (const char *target, unsigned int flags)
{
  OrcProgram *p = orc_program_new ();
  orc_program_set_name (p, "fp32");
  orc_program_add_destination (p, 2, "d1");
  orc_program_add_source (p, 2, "s1");
  orc_program_add_source (p, 2, "s2");
  orc_program_append_str (p, "addw", "d1", "s1", "s2");
  OrcCompileResult r = orc_program_compile_full (p, orc_target_get_by_name (target), flags);
  if (!ORC_COMPILE_RESULT_IS_SUCCESSFUL (r)) { printf ("compile failed\n"); return NULL; }
  return p;
}

static int check_static (const char *target, unsigned int flags)
{
  OrcProgram *p = make (target, flags);
  if (!p) return -1;
  const char *a = orc_program_get_asm_code (p);
  const unsigned char *c = p->orccode->code; int n = p->orccode->code_size;
  int writes_ebx = strstr (a, "movl 8(%esp), %ebx") != NULL;
  int push_in_listing = strstr (a, "push %ebx") != NULL;
  int pop_in_listing = strstr (a, "pop %ebx") != NULL;
  /* endbr32, push %ebp, mov %esp,%ebp, mov 8(%esp),%ebx */
  static const unsigned char pro[] = { 0xf3,0x0f,0x1e,0xfb, 0x55, 0x89,0xe5, 0x8b,0x5c,0x24,0x08 };
  int code_prologue = n > (int) sizeof pro && memcmp (c, pro, sizeof pro) == 0;
  int i, pop_ebx_in_tail = 0;
  for (i = n - 8; i < n; i++) if (i >= 0 && c[i] == 0x5b) pop_ebx_in_tail = 1;
  printf ("  [read] %s flags 0x%03x: 'movl 8(%%esp), %%ebx' in listing=%d, 'push %%ebx'=%d, 'pop %%ebx'=%d; code starts endbr32/push ebp/mov esp,ebp/mov 8(esp),ebx=%d, pop ebx among the last bytes=%d\n",
      target, flags, writes_ebx, push_in_listing, pop_in_listing, code_prologue, pop_ebx_in_tail);
  return writes_ebx && !push_in_listing && !pop_in_listing && code_prologue && !pop_ebx_in_tail;
}

static void emit (unsigned char **p, const void *b, int n) { memcpy (*p, b, n); *p += n; }
static void imm (unsigned char **p, uint32_t v) { memcpy (*p, &v, 4); *p += 4; }

/* returns ebx after the call (seeded with 0x11111111), or 0 if it could not run */
static uint32_t run32 (const char *target, unsigned int flags, uint32_t *others_ok)
{
  OrcProgram *p = make (target, flags);
  if (!p) return 0;
  unsigned char *low = mmap ((void *) 0x30000000, 1 << 20, PROT_READ | PROT_WRITE | PROT_EXEC,
      MAP_PRIVATE | MAP_ANONYMOUS | MAP_32BIT, -1, 0);
  if (low == MAP_FAILED) return 0;
  unsigned char *thunk = low, *code = low + 0x1000, *stack = low + 0x40000;
  uint32_t *regs = (uint32_t *) (low + 0x50000);
  OrcExecutor *ex = (OrcExecutor *) (low + 0x60000);
  orc_int16 *d = (orc_int16 *) (low + 0x70000), *s1 = d + 1024, *s2 = d + 2048;
  int i;
  for (i = 0; i < 100; i++) { s1[i] = i; s2[i] = 1000; }
  memset (ex, 0, sizeof *ex);
  ex->program = p; ex->n = 37;
  ex->arrays[ORC_VAR_D1] = d; ex->arrays[ORC_VAR_S1] = s1; ex->arrays[ORC_VAR_S2] = s2;
  memcpy (code, p->orccode->code, p->orccode->code_size);
  unsigned char *q = thunk; uint32_t o = (uint32_t) (uintptr_t) regs;
  emit (&q, "\x6a\x2b\x1f\x6a\x2b\x07", 6);           /* push $0x2b; pop %ds; push $0x2b; pop %es */
  emit (&q, "\xbb", 1); imm (&q, 0x11111111);         /* mov $..., %ebx */
  emit (&q, "\xbe", 1); imm (&q, 0x22222222);         /* %esi */
  emit (&q, "\xbf", 1); imm (&q, 0x33333333);         /* %edi */
  emit (&q, "\xbd", 1); imm (&q, 0x44444444);         /* %ebp */
  emit (&q, "\x68", 1); imm (&q, (uint32_t) (uintptr_t) ex);  /* push executor */
  emit (&q, "\xb8", 1); imm (&q, (uint32_t) (uintptr_t) code);
  emit (&q, "\xff\xd0", 2);                           /* call *%eax */
  emit (&q, "\x89\x1d", 2); imm (&q, o + 0);          /* mov %ebx, regs[0] */
  emit (&q, "\x89\x35", 2); imm (&q, o + 4);
  emit (&q, "\x89\x3d", 2); imm (&q, o + 8);
  emit (&q, "\x89\x2d", 2); imm (&q, o + 12);
  emit (&q, "\x83\xc4\x04\xcb", 4);                   /* add $4,%esp; lret */
  call32 ((uint32_t) (uintptr_t) thunk, (uint32_t) (uintptr_t) (stack + 0x8000));
  int ok = 1; for (i = 0; i < 37; i++) if (d[i] != (orc_int16) (i + 1000)) ok = 0;
  *others_ok = (regs[1] == 0x22222222 && regs[2] == 0x33333333 && regs[3] == 0x44444444 && ok);
  uint32_t ebx = regs[0];
  printf ("  [run ] %s flags 0x%03x: results %s; after the call ebx=%08x (seeded 11111111, executor at %08x) esi=%08x edi=%08x ebp=%08x\n",
      target, flags, ok ? "correct" : "WRONG", ebx, (uint32_t) (uintptr_t) ex, regs[1], regs[2], regs[3]);
  munmap (low, 1 << 20);
  return ebx;
}

int main (void)
{
  orc_init ();
  int a = check_static ("sse", ORC_TARGET_SSE_SSE2 | ORC_TARGET_SSE_FRAME_POINTER);
  int b = check_static ("mmx", ORC_TARGET_MMX_MMX | ORC_TARGET_MMX_MMXEXT | ORC_TARGET_MMX_FRAME_POINTER);
  int c = check_static ("avx", ORC_TARGET_SSE_SSE2 | ORC_TARGET_AVX_AVX | ORC_TARGET_AVX_AVX2 | ORC_TARGET_SSE_FRAME_POINTER);
  int stat = (a == 1 && b == 1 && c == 1);

  /* run it, in a child so that a kernel without 32-bit segments only kills the child */
  int ran = 0, runbad = 0;
  fflush (stdout);
  int fd[2]; if (pipe (fd) == 0) {
    pid_t pid = fork ();
    if (pid == 0) {
      uint32_t ok1 = 0, ok2 = 0;
      uint32_t e_fp = run32 ("sse", ORC_TARGET_SSE_SSE2 | ORC_TARGET_SSE_FRAME_POINTER, &ok1);
      uint32_t e_nofp = run32 ("sse", ORC_TARGET_SSE_SSE2, &ok2);
      fflush (stdout);
      char res = (e_fp && e_nofp) ? ((e_fp != 0x11111111 && e_nofp == 0x11111111 && ok1 && ok2) ? 'B' : 'G') : 'S';
      if (write (fd[1], &res, 1) != 1) _exit (1);
      _exit (0);
    }
    int st; char res = 'S'; waitpid (pid, &st, 0);
    if (WIFEXITED (st) && WEXITSTATUS (st) == 0 && read (fd[0], &res, 1) == 1) { ran = res != 'S'; runbad = res == 'B'; }
    else printf ("  [run ] could not execute 32-bit code in this environment (skipped)\n");
  }
  printf ("FINDING 01: 32-bit code with the frame-pointer flag clobbers callee-saved ebx (executor pointer loaded into ebx, never saved/restored)%s : %s\n",
      ran ? (runbad ? " [confirmed by running the 32-bit code]" : " [run did not confirm]") : " [by reading the code]",
      (stat && (!ran || runbad)) ? "REPRODUCED" : "not reproduced");
  return 0;
}
