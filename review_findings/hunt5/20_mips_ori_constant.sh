#!/bin/sh
# FINDING 20 (P2, mips): a 1- or 2-byte constant outside 0..65535 (e.g. "addb d, s, -1", or a .const 2 with
# more than 16 bits) is loaded with ORI; the listing prints the unmasked value ("ori $a3, $0, -1",
# "ori $a3, $0, 305419896": not valid ORI operands, rejected by the assembler) while the encoder masks it
# to 16 bits (ori $7,$zero,0xffff / 0x5678).  orc/orcrules-mips.c:529 + orc/orcmips.c:467 (orc_mips_emit_ori).
out=$(/tmp/wt-hunt5/findings/mips_tools/f1_ori_const.sh 2>&1)
echo "$out" | grep -E "^(REJECT|MISMATCH)" | cut -c1-200 | sed 's/^/  /'
if echo "$out" | grep -q "^REPRODUCED"; then r=REPRODUCED; else r="not reproduced"; fi
echo "FINDING 20: mips ori of a 1/2-byte constant: listing prints the unmasked (negative / >16 bit) value, code encodes the low 16 bits : $r"
