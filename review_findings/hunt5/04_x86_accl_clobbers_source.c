/* FINDING 04 (P1 "same results as emulation", targets sse and avx, every flag subset):
 * sse_rule_accl / avx_rule_accl shift their *source* register in place
 * (pslldq $12, src) when an iteration handles a single element (loop_shift == 0),
 * to keep the three unused lanes out of the sum.  The source is an ordinary
 * temporary; any later use of it in the same iteration reads the shifted value:
 *
 *    addl t, s, 5 ; accl a, t ; storel d, t
 *
 * stores 0 instead of s+5 for every element handled by a one-element iteration
 * (n = 1; the last element of any odd n; the unaligned head elements).        */
#include <stdio.h>
#include <string.h>
#include <orc/orc.h>

static int run (const char *target, unsigned flags, int n)
{
  OrcProgram *p = orc_program_new ();
  orc_program_set_name (p, "accl_src");
  orc_program_add_destination (p, 4, "d");
  orc_program_add_source (p, 4, "s");
  orc_program_add_accumulator (p, 4, "a");
  orc_program_add_temporary (p, 4, "t");
  orc_program_add_constant (p, 4, 5, "c");
  orc_program_append_str (p, "addl", "t", "s", "c");
  orc_program_append_ds_str (p, "accl", "a", "t");
  orc_program_append_ds_str (p, "storel", "d", "t");
  OrcCompileResult r = orc_program_compile_full (p, orc_target_get_by_name (target), flags);
  if (!ORC_COMPILE_RESULT_IS_SUCCESSFUL (r)) { printf ("  %s: compile failed\n", target); return -1; }
  static orc_int32 s[64] __attribute__((aligned (64))), dn[64] __attribute__((aligned (64))), de[64] __attribute__((aligned (64)));
  int i, bad = 0;
  for (i = 0; i < 64; i++) { s[i] = 100 + i; dn[i] = de[i] = -1; }
  OrcExecutor *ex = orc_executor_new (p);
  orc_executor_set_n (ex, n);
  orc_executor_set_array_str (ex, "s", s);
  orc_executor_set_array_str (ex, "d", de);
  orc_executor_emulate (ex);
  orc_executor_set_array_str (ex, "d", dn);
  ((void (*)(OrcExecutor *)) p->orccode->exec) (ex);
  printf ("  %-3s flags 0x%03x n=%d:", target, flags, n);
  for (i = 0; i < n; i++) if (dn[i] != de[i]) { printf (" d[%d]: emulation %d native %d;", i, de[i], dn[i]); bad++; }
  printf ("%s\n", bad ? "" : " equal");
  orc_executor_free (ex);
  return bad != 0;
}

int main (void)
{
  orc_init ();
  int bad = 0, total = 0;
  unsigned avx_all = orc_target_get_default_flags (orc_target_get_by_name ("avx"));
  bad += run ("sse", ORC_TARGET_SSE_SSE2 | ORC_TARGET_SSE_64BIT, 1) > 0; total++;
  bad += run ("sse", ORC_TARGET_SSE_SSE2 | ORC_TARGET_SSE_64BIT, 7) > 0; total++;
  bad += run ("sse", orc_target_get_default_flags (orc_target_get_by_name ("sse")), 5) > 0; total++;
  if (avx_all & ORC_TARGET_AVX_AVX2) { bad += run ("avx", avx_all, 9) > 0; total++; }
  printf ("FINDING 04: accl destroys its source operand in one-element iterations (pslldq in place); a later use of the temporary reads 0 : %s\n",
      bad == total ? "REPRODUCED" : (bad ? "REPRODUCED (partly)" : "not reproduced"));
  return 0;
}
