#!/bin/sh
# FINDING 21 (P2, mips, lower severity: needs a shift count >= the element width): shrsw/shruw with a count
# >= 16 and shrsl with a count >= 32 are not range-checked; the listing prints the full count
# ("shra.ph $a3, $a3, 16": rejected by the assembler), the encoder keeps count & 15 (resp. & 31):
# shra.ph $7,$7,0.  (The emulator defines shrsw/shruw by 16..31 as sign fill / zero.)
# orc/orcrules-mips.c:230,375,388; orc/orcmips.c:599-641.
out=$(/tmp/wt-hunt5/findings/mips_tools/f2_shift_range.sh 2>&1)
echo "$out" | grep -E "^MISMATCH" | cut -c1-200 | sed 's/^/  /'
if echo "$out" | grep -q "^REPRODUCED"; then r=REPRODUCED; else r="not reproduced"; fi
echo "FINDING 21: mips shift count >= element width: listing prints the full count, code encodes count mod 16/32 : $r"
