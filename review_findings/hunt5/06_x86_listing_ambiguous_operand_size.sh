#!/bin/sh
# FINDING 06 (P2, x86 targets sse/mmx/avx, 64- and 32-bit; low severity):
# two kinds of listing lines carry no operand size at all:
#   (a) "add $-1, 588(%rdi)"  - the row counter of every 2-D program
#       (orc_x86_emit_add_imm_memoffset with size 4: the 'q' suffix is only added for size 8), and
#       "add $4, 64(%ebp)" for array pointers kept in memory in 32-bit code;
#   (b) "movzx 0(%rdx), %ecx" - the single-byte load used when pinsrb (SSE4.1) is not available
#       (ORC_X86_movzx_rm_r with a memory source).
# Orc encodes 83 /0 (32-bit add) and 0f b6 (byte source).  GNU as only accepts (a) with the warning
# "no instruction mnemonic suffix given and no register operands; using default" and silently guesses
# byte for (b); clang's integrated assembler rejects both as ambiguous, so the listing is not
# assemblable there.  Fix: print addl / movzbl (orcx86insn.c, orc_x86_insn_output_asm).
W=/tmp/wt-hunt5/findings/work/f06; rm -rf $W; mkdir -p $W
cat > $W/t.orc <<'EOT'
.function amb2d
.flags 2d
.dest 1 d
.source 1 s
addb d, s, 1
EOT
/tmp/wt-hunt5/_b/tools/orcc --assembly --target mmx -o $W/t.s $W/t.orc || exit 2
grep -n "^  add \$-1, [0-9]*(%rdi)\|^  movzx [0-9]*(%r..), %ecx" $W/t.s | head -3 | sed 's/^/  listing line /'
as --64 -o $W/gas.o $W/t.s 2> $W/gas.err; grep -m1 Warning $W/gas.err | sed 's/^/  GNU as: /'
clang-14 -c -x assembler $W/t.s -o $W/clang.o 2> $W/clang.err
grep -m2 "error:" $W/clang.err | sed 's/^/  clang: /'
if grep -q "ambiguous instructions require an explicit suffix" $W/clang.err && grep -q "add \$-1" $W/t.s && grep -q "movzx [0-9]*(%r" $W/t.s
then r=REPRODUCED; else r="not reproduced"; fi
echo "FINDING 06: x86 listing lines 'add \$imm, mem' and 'movzx mem, %ecx' carry no operand size (clang rejects them, GNU as guesses) : $r"
