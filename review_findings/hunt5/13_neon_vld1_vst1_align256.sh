#!/bin/sh
# FINDING 13 (P2, neon 32-bit): aligned four-register vld1.64 / vst1.64 (32-byte accesses, reached with explicit
# x2/x4 loadX/storeX): the listing says "[r2,:256]", the machine code (0xf42002dd / 0xf40002dd) carries
# align=01 = ":64".  orcrules-neon.c:1204-1210, 1542-1549, 1722-1729.
if /tmp/wt-hunt5/findings/neon_tools/run_repro.sh f4_vld1_vst1_align256 'v(ld|st)1\.64 \{ d[0-9]+, d[0-9]+, d[0-9]+, d[0-9]+ \}, \[r[0-9]+,:256\] .*asm [0-9a-f]{8} v(ld|st)1\.64 .*:256\] \| orc [0-9a-f]{8} v(ld|st)1\.64 .*:64\]'
then r=REPRODUCED; else r="not reproduced"; fi
echo "FINDING 13: neon aligned 4-register vld1/vst1: listing ':256', machine code ':64' : $r"
