#!/bin/sh
# FINDING 14 (P2, neon/arm, orcc --assembly --target neon): the ARM back end prints its labels as ".L<number>"
# (orc/orcarm.c:294 ".L%d:", 414-424 "b .L%d"), the numbers being the per-function label indices.
# The listing of a single function assembles, but "orcc --assembly --target neon" concatenates the
# listings of all functions of the .orc file: with two or more functions every label (.L1, .L2, ...) is
# defined once per function and the file cannot be assembled ("symbol '.L3' is already defined"); an
# assembler that accepted redefinition would bind the branches of the first function to the wrong place.
# Orc's own machine code resolves each branch inside its function.  (x86 uses numeric local labels "1:",
# mips prefixes the function name.)
W=/tmp/wt-hunt5/findings/work/neon_labels; rm -rf $W; mkdir -p $W
cat > $W/two.orc <<'EOT'
.function first
.dest 1 d1
.source 1 s1
.source 1 s2
addb d1, s1, s2

.function second
.dest 1 d1
.source 1 s1
copyb d1, s1
EOT
/tmp/wt-hunt5/_b/tools/orcc --assembly --target neon -o $W/two.s $W/two.orc || exit 2
dups=$(grep "^\.L[0-9]*:" $W/two.s | sort | uniq -d | wc -l)
echo "  labels defined more than once in the orcc output: $dups (e.g. $(grep '^\.L[0-9]*:' $W/two.s | sort | uniq -d | head -3 | tr '\n' ' '))"
llvm-mc-14 -triple=armv7 -mattr=+neon,+vfp3,+dsp -filetype=obj -o $W/two.o $W/two.s > $W/mc.txt 2>&1
grep -m2 "error:" $W/mc.txt | sed 's/^/  llvm-mc: /'
if [ "$dups" -gt 0 ] && grep -q "is already defined" $W/mc.txt; then r=REPRODUCED; else r="not reproduced"; fi
echo "FINDING 14: neon/arm listing labels are plain '.L<n>': orcc --assembly output with two functions defines them twice and does not assemble : $r"
