/* FINDING 05 (P1 "same results as emulation", target mmx, all flag subsets):
 * on the mmx target a program that contains an 8-byte variable runs its main loop
 * one element at a time (loop_shift 0: the variable fills the MMX register).  The
 * up-sampling loads loadupdb/loadupib advance their source by *half* an element per
 * output element; orc_x86_emit_loop() computes that step as
 *     offset = (var->size * update) >> 1      with update = 1 << loop_shift = 1
 * which is 0, so the source pointer never moves and every output element is produced
 * from source element 0.  (sse/avx cannot reach loop_shift 0 in the main loop.)   */
#include <stdio.h>
#include <string.h>
#include <orc/orc.h>

static int run (const char *opname)
{
  OrcProgram *p = orc_program_new ();
  orc_program_set_name (p, "up");
  orc_program_add_destination (p, 1, "d");
  orc_program_add_source (p, 1, "s");
  orc_program_add_destination (p, 8, "w2");
  orc_program_add_source (p, 8, "w1");
  orc_program_append_ds_str (p, opname, "d", "s");
  orc_program_append_ds_str (p, "copyq", "w2", "w1");
  unsigned flags = ORC_TARGET_MMX_MMX | ORC_TARGET_MMX_MMXEXT | ORC_TARGET_MMX_64BIT;
  OrcCompileResult r = orc_program_compile_full (p, orc_target_get_by_name ("mmx"), flags);
  if (!ORC_COMPILE_RESULT_IS_SUCCESSFUL (r)) { printf ("  compile failed\n"); return -1; }
  enum { N = 8 };
  unsigned char s[N + 8], dn[N], de[N]; orc_int64 w1[N], w2[N];
  int i, bad = 0;
  for (i = 0; i < N + 8; i++) s[i] = 10 * (i + 1);
  memset (w1, 0, sizeof w1); memset (dn, 0xee, N); memset (de, 0xee, N);
  OrcExecutor *ex = orc_executor_new (p);
  orc_executor_set_n (ex, N);
  orc_executor_set_array_str (ex, "s", s);
  orc_executor_set_array_str (ex, "w1", w1);
  orc_executor_set_array_str (ex, "w2", w2);
  orc_executor_set_array_str (ex, "d", de);
  orc_executor_emulate (ex);
  orc_executor_set_array_str (ex, "d", dn);
  ((void (*)(OrcExecutor *)) p->orccode->exec) (ex);
  printf ("  %s + copyq, n=%d\n    emulation:", opname, N); for (i = 0; i < N; i++) printf (" %3d", de[i]);
  printf ("\n    native   :"); for (i = 0; i < N; i++) { printf (" %3d", dn[i]); if (dn[i] != de[i]) bad++; }
  printf ("\n");
  orc_executor_free (ex);
  return bad != 0;
}

int main (void)
{
  orc_init ();
  int a = run ("loadupdb"), b = run ("loadupib");
  printf ("FINDING 05: mmx loadupdb/loadupib never advance the source when the loop handles one element per iteration (program with an 8-byte variable) : %s\n",
      (a == 1 && b == 1) ? "REPRODUCED" : "not reproduced");
  return 0;
}
