#!/bin/sh
# Builds and runs every reproducer; prints one line per finding
#   FINDING NN: <summary> : REPRODUCED / not reproduced
# Run with -v to see the details each reproducer prints.
# Needs the library built in /tmp/wt-hunt5/_b (meson/ninja as in the task description),
# gcc, GNU as, clang-14, llvm-mc-14, llvm-objcopy-14, python3.
F=/tmp/wt-hunt5/findings
B=/tmp/wt-hunt5/_b
V=0; [ "$1" = "-v" ] && V=1
mkdir -p $F/work
export LD_LIBRARY_PATH=$B/orc:$B/orc-test
show () { if [ $V = 1 ]; then cat; else grep "^FINDING"; fi; }
for c in $F/0?_*.c; do
  n=$(basename $c .c)
  if gcc -O1 -no-pie -I/tmp/wt-hunt5 -I$B $c -o $F/work/$n -L$B/orc -lorc-0.4 -Wl,-rpath,$B/orc 2> $F/work/$n.build.log; then
    timeout 600 $F/work/$n 2>&1 | show
  else
    echo "FINDING ${n%%_*}: build failed (see $F/work/$n.build.log) : not reproduced"
  fi
done
for s in $F/0?_*.sh $F/1?_*.sh $F/2?_*.sh; do
  [ -f "$s" ] || continue
  timeout 900 sh $s 2>&1 | show
done
