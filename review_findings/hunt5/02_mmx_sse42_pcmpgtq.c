/* FINDING 02 (P1 + P2, target "mmx", flag ORC_TARGET_MMX_SSE4_2):
 * orc_compiler_mmx_register_rules() registers REG(cmpgtsq) in the rule set guarded by
 * ORC_TARGET_MMX_SSE4_2.  The rule emits PCMPGTQ on MMX registers.  PCMPGTQ only exists
 * for XMM registers (66 0F 38 37); the bytes Orc emits (0F 38 37 /r, no 66 prefix) are
 * an undefined opcode and the listing line "pcmpgtq %mm1, %mm0" is rejected by GNU as
 * ("operand type mismatch") and clang.  So with that flag set:
 *   P1: the code contains an instruction that exists under no flag set at all,
 *   P2: the listing cannot be assembled,
 * and running the code raises SIGILL (shown below in a child process).            */
#include <stdio.h>
#include <stdlib.h>
#include <string.h>
#include <signal.h>
#include <unistd.h>
#include <sys/wait.h>
#include <orc/orc.h>

int main (void)
{
  orc_init ();
  OrcProgram *p = orc_program_new ();
  orc_program_set_name (p, "mmx_cmpgtsq");
  orc_program_add_destination (p, 8, "d1");
  orc_program_add_source (p, 8, "s1");
  orc_program_add_source (p, 8, "s2");
  orc_program_append_str (p, "cmpgtsq", "d1", "s1", "s2");
  unsigned flags = ORC_TARGET_MMX_MMX | ORC_TARGET_MMX_MMXEXT | ORC_TARGET_MMX_SSE4_2 | ORC_TARGET_MMX_64BIT;
  OrcCompileResult r = orc_program_compile_full (p, orc_target_get_by_name ("mmx"), flags);
  if (!ORC_COMPILE_RESULT_IS_SUCCESSFUL (r)) { printf ("FINDING 02: compile failed : not reproduced\n"); return 0; }
  const char *a = orc_program_get_asm_code (p);
  const char *l = strstr (a, "pcmpgtq %mm");
  int in_listing = l != NULL;
  if (l) { printf ("  listing line: %.*s\n", (int) strcspn (l, "\n"), l); }
  /* look for 0f 38 37 not preceded by 66 */
  const unsigned char *c = p->orccode->code; int n = p->orccode->code_size, i, found = 0;
  for (i = 1; i + 3 < n; i++) if (c[i] == 0x0f && c[i+1] == 0x38 && c[i+2] == 0x37 && c[i-1] != 0x66 && (c[i-1] & 0xf0) != 0x40) { found = 1;
    printf ("  code at +%d: %02x %02x %02x %02x (PCMPGTQ opcode without the mandatory 66 prefix)\n", i, c[i], c[i+1], c[i+2], c[i+3]); break; }
  /* assemble the listing with GNU as */
  FILE *f = fopen ("/tmp/f02.s", "w"); fputs (a, f); fclose (f);
  int asrc = system ("as --64 -o /tmp/f02.o /tmp/f02.s 2>/tmp/f02.err");
  if (asrc) { printf ("  GNU as rejects the listing: "); fflush (stdout); system ("grep -m1 Error /tmp/f02.err"); }
  /* run it */
  int sig = 0;
  pid_t pid = fork ();
  if (pid == 0) {
    static orc_int64 d[16], s1[16], s2[16];
    OrcExecutor *ex = orc_executor_new (p);
    orc_executor_set_n (ex, 4);
    orc_executor_set_array_str (ex, "d1", d);
    orc_executor_set_array_str (ex, "s1", s1);
    orc_executor_set_array_str (ex, "s2", s2);
    ((void (*)(OrcExecutor *)) p->orccode->exec) (ex);
    _exit (0);
  } else { int st; waitpid (pid, &st, 0); if (WIFSIGNALED (st)) sig = WTERMSIG (st); }
  printf ("  running the code: %s\n", sig == SIGILL ? "SIGILL" : "no SIGILL");
  printf ("FINDING 02: mmx target with the SSE4_2 flag emits PCMPGTQ on MMX registers (no such instruction; listing not assemblable; SIGILL) : %s\n",
      (in_listing && found && asrc != 0 && sig == SIGILL) ? "REPRODUCED" : "not reproduced");
  return 0;
}
