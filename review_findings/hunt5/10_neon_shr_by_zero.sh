#!/bin/sh
# FINDING 10 (P2, neon 32-bit): right shift by the constant 0 (shrsb/shrub/shrsw/shruw/shrsl/shrul d, s, 0):
# the listing says "vshr.s8 q2, q2, #0" (not a valid VSHR immediate, llvm-mc rejects it) while the machine
# code is VSHR #8 / #16 / #32, a shift by the full element size (and a miscompile: shift by 0 is the identity).
# orc/orcrules-neon.c orc_neon_emit_shift(): shift = bits - shift; code |= shift << 16 overflows imm6 for shift==0.
if /tmp/wt-hunt5/findings/neon_tools/run_repro.sh f1_shr_by_zero 'vshr\.[su](8|16|32) [dq][0-9]+, [dq][0-9]+, #0 .*orc [0-9a-f]{8} vshr\.[su](8|16|32) [dq][0-9]+, [dq][0-9]+, #(8|16|32)'
then r=REPRODUCED; else r="not reproduced"; fi
echo "FINDING 10: neon right shift by constant 0: listing 'vshr #0' (invalid), code shifts by the element size : $r"
