/* FINDING 03 (P1 "same results as emulation", targets sse / avx / mmx, every flag subset):
 * the accw / accl rules add the *whole* vector register of their operand to the
 * accumulator (paddw / paddd), also in the head and tail iterations that process fewer
 * elements than the register holds (compiler->loop_shift below the maximum).  The lanes
 * beyond the valid elements are only zero when the operand comes straight from a load;
 * as soon as it has been combined with a constant or a parameter (which are splatted
 * over all lanes) they hold garbage, and the final horizontal reduction adds it in.
 * (accl has a special case for exactly one element, accsadubl masks properly.)
 *
 *    addw t, s, 5 ; accw a, t          n = 1 -> sum is off by 7*5 (sse), 15*5 (avx), 3*5 (mmx)
 *    addl t, s, 5 ; accl a, t          n = 2 -> sum is off by 2*5 (sse)
 */
#include <stdio.h>
#include <string.h>
#include <orc/orc.h>

static int run (const char *target, unsigned flags, int size, int n)
{
  OrcProgram *p = orc_program_new ();
  orc_program_set_name (p, "acc");
  orc_program_add_source (p, size, "s");
  int acc = orc_program_add_accumulator (p, size, "a");
  orc_program_add_temporary (p, size, "t");
  orc_program_add_constant (p, size, 5, "c");
  orc_program_append_str (p, size == 2 ? "addw" : "addl", "t", "s", "c");
  orc_program_append_ds_str (p, size == 2 ? "accw" : "accl", "a", "t");
  OrcCompileResult r = orc_program_compile_full (p, orc_target_get_by_name (target), flags);
  if (!ORC_COMPILE_RESULT_IS_SUCCESSFUL (r)) { printf ("  %s: compile failed\n", target); return -1; }
  static orc_int32 buf[64] __attribute__((aligned (64)));
  int i; memset (buf, 0, sizeof buf);
  for (i = 0; i < n; i++) { if (size == 2) ((orc_int16 *) buf)[i] = 100 + i; else buf[i] = 100 + i; }
  OrcExecutor *ex = orc_executor_new (p);
  orc_executor_set_n (ex, n);
  orc_executor_set_array_str (ex, "s", buf);
  orc_executor_emulate (ex);
  int emu = orc_executor_get_accumulator (ex, acc);
  ((void (*)(OrcExecutor *)) p->orccode->exec) (ex);
  int nat = orc_executor_get_accumulator (ex, acc);
  if (size == 2) { emu &= 0xffff; nat &= 0xffff; }
  printf ("  %-3s flags 0x%03x acc%c n=%d: emulation %d, native %d%s\n", target, flags, size == 2 ? 'w' : 'l', n, emu, nat, emu != nat ? "   <-- differs" : "");
  orc_executor_free (ex);
  return emu != nat;
}

int main (void)
{
  orc_init ();
  int bad = 0, total = 0, r;
  unsigned sse_all = orc_target_get_default_flags (orc_target_get_by_name ("sse"));
  unsigned avx_all = orc_target_get_default_flags (orc_target_get_by_name ("avx"));
  unsigned mmx_all = orc_target_get_default_flags (orc_target_get_by_name ("mmx"));
  struct { const char *t; unsigned f; int size, n; } cases[] = {
    { "sse", ORC_TARGET_SSE_SSE2 | ORC_TARGET_SSE_64BIT, 2, 1 },
    { "sse", ORC_TARGET_SSE_SSE2 | ORC_TARGET_SSE_64BIT, 2, 11 },
    { "sse", ORC_TARGET_SSE_SSE2 | ORC_TARGET_SSE_64BIT, 4, 2 },
    { "sse", sse_all, 2, 1 }, { "sse", sse_all, 4, 6 },
    { "avx", avx_all, 2, 1 }, { "avx", avx_all, 4, 2 },
    { "mmx", mmx_all, 2, 1 }, { "mmx", mmx_all, 4, 1 },
  };
  for (unsigned i = 0; i < sizeof cases / sizeof cases[0]; i++) {
    if (!strcmp (cases[i].t, "avx") && !(avx_all & ORC_TARGET_AVX_AVX2)) continue;
    r = run (cases[i].t, cases[i].f, cases[i].size, cases[i].n); total++; if (r > 0) bad++;
  }
  printf ("FINDING 03: accw/accl accumulate the unused lanes of a partially filled vector (operand computed with a constant) : %s\n",
      bad == total && total > 0 ? "REPRODUCED" : (bad ? "REPRODUCED (partly)" : "not reproduced"));
  return 0;
}
