#!/bin/sh
# FINDING 23 (extra: calling convention of the mips back end with ORC_TARGET_MIPS_FRAME_POINTER; listing == code):
# orc_mips_emit_prologue() stores $fp at 4($sp), $a0 at 8($sp) and the callee-saved registers from 12($sp)
# upwards; orc_mips_emit_epilogue() reloads the callee-saved registers starting at 8($sp)
# (stack_increment = 8): every saved register is restored from its neighbour's slot ($s0 gets $a0 ...).
# orc/orcprogram-mips.c:199-233 (prologue) vs 247-249 (epilogue).
. /tmp/wt-hunt5/findings/mips_tools/common.sh
W=/tmp/wt-hunt5/findings/work/mips_fp; rm -rf $W; mkdir -p $W
cat > $W/n2.orc <<'EOT'
.function mipsfp
.dest 1 d1
.source 1 s1
.source 1 s2
.temp 1 t0
.temp 1 t1
.temp 1 t2
.temp 1 t3
.temp 1 t4
.temp 1 t5
.temp 1 t6
.temp 1 t7
.temp 1 t8
addb t0, s1, s2
addb t1, t0, t0
addb t2, t1, t1
addb t3, t2, t2
addb t4, t3, t3
addb t5, t4, t4
addb t6, t5, t5
addb t7, t6, t6
addb t8, t7, t7
addb t0, t0, t1
addb t0, t0, t2
addb t0, t0, t3
addb t0, t0, t4
addb t0, t0, t5
addb t0, t0, t6
addb t0, t0, t7
addb t0, t0, t8
copyb d1, t0
EOT
timeout 300 $H/drv orc $W/n2.orc $W 0x3 >/dev/null 2>&1
python3 - $W/mipsfp.s <<'PY'
import re,sys
sw={};lw={}
for l in open(sys.argv[1]):
    m=re.match(r'\s*(sw|lw)\s+(\$\w+), (\d+)\(\$sp\)',l)
    if m:
        (sw if m.group(1)=='sw' else lw)[m.group(2)]=int(m.group(3))
bad=[(r,sw[r],lw[r]) for r in sw if r in lw and sw[r]!=lw[r]]
print("  saved   :",' '.join('%s@%d'%(r,o) for r,o in sw.items()))
print("  restored:",' '.join('%s@%d'%(r,o) for r,o in lw.items()))
print("FINDING 23: mips frame-pointer epilogue restores callee-saved registers from the wrong stack slots (%s) : %s"%(
  ', '.join('%s saved at %d, reloaded from %d'%b for b in bad[:3]), "REPRODUCED" if bad and any(r.startswith("$s") for r,_,_ in bad) else "not reproduced"))
PY
