#!/bin/sh
# FINDING 12 (P2, neon 32-bit): byte loadupdb in a program with loop shift 1 uses "dest+3" as an unallocated
# scratch register (orcrules-neon.c:1300-1322).  With the destination in q15 (d30) that is d33: the listing
# prints "vdup.8 ERROR, r1" / "vbit.8 d30, d31, ERROR", the encoder masks to 5 bits and uses d1.
# (For other destinations the scratch d(N+3) is the upper half of the next allocated Q register.)
if /tmp/wt-hunt5/findings/neon_tools/run_repro.sh f3_loadupdb_scratch '(vdup\.8 ERROR, r1|vbit\.8 d30, d31, ERROR) .*orc [0-9a-f]{8} (vdup\.8 d1, r1|vbit d30, d31, d1)'
then r=REPRODUCED; else r="not reproduced"; fi
echo "FINDING 12: neon loadupdb scratch register dest+3: listing prints ERROR for d33, code uses d1 : $r"
