#!/bin/sh
# FINDING 22 (P2, mips, orcc --assembly): labels are printed as ".L<function name><number>" without a
# separator; in a file with the functions "k" and "k1", label 11 of k and label 1 of k1 are both ".Lk11":
# the listing does not assemble ("symbol '.Lk11' is already defined"), Orc's own code resolves the branches
# per function.  orc/orcmips.c:100, 300-309.
out=$(/tmp/wt-hunt5/findings/mips_tools/f3_label_collision.sh 2>&1)
echo "$out" | grep -E "already defined|^[0-9]+:\.Lk11:" | cut -c1-200 | sed 's/^/  /'
if echo "$out" | grep -q "^REPRODUCED"; then r=REPRODUCED; else r="not reproduced"; fi
echo "FINDING 22: mips listing labels '.L<name><n>' collide between functions (k label 11 / k1 label 1) : $r"
