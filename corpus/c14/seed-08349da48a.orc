.function orc_sum_u8
.accumulator 4 a1 orc_int32
.source 1 s1
.temp 2 t1
.temp 4 t2

convubw t1, s1
convuwl t2, t1
accl a1, t2


