.function add_int8
.dest 1 d1 gint8
.source 1 s1 gint8

addssb d1, d1, s1


