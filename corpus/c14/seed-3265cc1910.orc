.function orc_deinterleave2_s16
.dest 2 d1 orc_int16
.dest 2 d2 orc_int16
.source 4 s1 orc_int16
.temp 4 t1

copyl t1, s1
select0lw d1, t1
select1lw d2, t1


