.function orc_audio_convert_pack_double_s32
.dest 4 d1 guint8
.source 8 s1 gdouble
.param 4 p1
.temp 4 t1

convdl t1, s1
shrsl d1, t1, p1

