.function orc_addssb
.dest 1 d1
.source 1 s1
.source 1 s2

addssb d1, s1, s2


