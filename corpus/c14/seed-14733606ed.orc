.function orc_maxsb
.dest 1 d1
.source 1 s1
.source 1 s2

maxsb d1, s1, s2


