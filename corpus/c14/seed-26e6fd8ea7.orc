.function orc_copyw
.dest 2 d1
.source 2 s1

copyw d1, s1


