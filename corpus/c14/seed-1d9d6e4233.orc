.function orc_swapl
.dest 4 d1
.source 4 s1

swapl d1, s1


