.function orc_code_combine_in_u_n
.dest 4 d1
.source 4 s1
.temp 8 d_wide
.temp 8 s_wide
.temp 8 m_wide
.temp 8 t1
.temp 8 t2

x4 convubw t1, s1
# ORC_MULDIV_255((s),(m)), m is from dest
x4 convubw d_wide, d1
splatw3q t2, d_wide
x4 mullw t1, t1, t2
x4 div255w t1, t1
x4 convwb d1, t1


