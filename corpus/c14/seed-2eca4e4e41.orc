.function orc_splat_s16_2d_8xn
.n 8
.flags 2d
.dest 2 d1 int16_t
.param 2 p1

copyw d1, p1


