.function orc_select0wb
.dest 1 d1
.source 2 s1

select0wb d1, s1


