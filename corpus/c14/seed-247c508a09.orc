.function cogorc_getline_I420
.dest 4 d guint8
.source 1 y guint8
.source 1 u guint8
.source 1 v guint8
.const 1 c255 255
.temp 2 uv
.temp 2 ay
.temp 1 tu
.temp 1 tv

loadupdb tu, u
loadupdb tv, v
mergebw uv, tu, tv
mergebw ay, c255, y
mergewl d, ay, uv


