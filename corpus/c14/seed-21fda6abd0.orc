.function video_orc_convert_AYUV_RGBA
.flags 2d
.dest 4 argb orc_uint8
.source 4 ayuv orc_uint8
.param 2 p1
.param 2 p2
.param 2 p3
.param 2 p4
.param 2 p5
.temp 1 a
.temp 1 y
.temp 1 u
.temp 1 v
.temp 2 wy
.temp 2 wu
.temp 2 wv
.temp 2 wr
.temp 2 wg
.temp 2 wb
.temp 1 r
.temp 1 g
.temp 1 b
.temp 4 x
.const 1 c128 128

x4 subb x, ayuv, c128
splitlw wv, wy, x
splitwb y, a, wy
splitwb v, u, wv

splatbw wy, y
splatbw wu, u
splatbw wv, v

mullw wy, wy, p1

mullw wr, wv, p2
addw wr, wy, wr
convssswb r, wr

mullw wb, wu, p3
addw wb, wy, wb
convssswb b, wb
mergebw wb, b, a

mullw wg, wu, p4
addw wg, wy, wg
mullw wy, wv, p5
addw wg, wg, wy

convssswb g, wg

mergebw wr, r, g
mergewl x, wr, wb
x4 addb argb, x, c128

