.function canny_calc_delta_x
.dest 4 d1 orc_int32
.source 4 s1 orc_uint8
.source 4 s2 orc_uint8
.temp 2 t1
.temp 2 t2
.temp 1 t3
.temp 2 t4
.temp 1 t5
.temp 2 t6
.temp 4 t7
.temp 4 td1

select0lw t2, s1
select1wb t3, t2
select0lw t4, s2
select1wb t5, t4
convubw t4, t3
convubw t6, t5
subw t1, t4, t6
convswl t7, t1
mulll td1, t7, t7

select1lw t2, s1
select0wb t3, t2
select1lw t4, s2
select0wb t5, t4
convubw t4, t3
convubw t6, t5
subw t1, t4, t6
convswl t7, t1
mulll t7, t7, t7
addl td1, td1, t7

select1lw t2, s1
select1wb t3, t2
select1lw t4, s2
select1wb t5, t4
convubw t4, t3
convubw t6, t5
subw t1, t4, t6
convswl t7, t1
mulll t7, t7, t7
addl d1, td1, t7


