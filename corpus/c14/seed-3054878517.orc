.function orc_convuuswb
.dest 1 d1
.source 2 s1

convuuswb d1, s1


