.function video_convert_orc_convert_I420_BGRA
.dest 4 argb
.source 1 y
.source 1 u
.source 1 v
.param 2 p1
.param 2 p2
.param 2 p3
.param 2 p4
.param 2 p5
.temp 2 wy
.temp 2 wu
.temp 2 wv
.temp 2 wr
.temp 2 wg
.temp 2 wb
.temp 1 r
.temp 1 g
.temp 1 b
.temp 4 x
.const 1 c128 128

subb r, y, c128
splatbw wy, r
loadupdb r, u
subb r, r, c128
splatbw wu, r
loadupdb r, v
subb r, r, c128
splatbw wv, r

mulhsw wy, wy, p1

mulhsw wr, wv, p2
addssw wr, wy, wr

mulhsw wb, wu, p3
addssw wb, wy, wb

mulhsw wg, wu, p4
addssw wg, wy, wg
mulhsw wy, wv, p5
addssw wg, wg, wy

convssswb r, wr
convssswb g, wg
convssswb b, wb

mergebw wb, b, g
mergebw wr, r, 127
mergewl x, wb, wr
x4 addb argb, x, c128

