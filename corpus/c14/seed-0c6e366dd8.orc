.function orc_signb
.dest 1 d1
.source 1 s1

signb d1, s1


