.function orc_stats_above_s16
.source 2 s1 int16_t
.accumulator 4 a1 int32_t
.temp 2 t1
.temp 4 t2

absw t1, s1
subw t1, t1, 1
maxsw t1, t1, 0
minsw t1, t1, 1
convuwl t2, t1
accl a1, t2


