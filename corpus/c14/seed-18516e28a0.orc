.function orc_mulhuw
.dest 2 d1
.source 2 s1
.source 2 s2

mulhuw d1, s1, s2


