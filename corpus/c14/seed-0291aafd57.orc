.function orc_minuw
.dest 2 d1
.source 2 s1
.source 2 s2

minuw d1, s1, s2


