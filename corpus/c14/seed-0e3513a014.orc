.function cogorc_convert_Y42B_AYUV
.flags 2d
.dest 8 ayuv guint8
.source 2 yy guint8
.source 1 u guint8
.source 1 v guint8
.const 1 c255 255
.temp 2 uv
.temp 2 ay
.temp 4 uvuv
.temp 4 ayay

mergebw uv, u, v
x2 mergebw ayay, c255, yy
mergewl uvuv, uv, uv
x2 mergewl ayuv, ayay, uvuv


