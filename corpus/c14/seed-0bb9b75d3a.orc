.function cogorc_convert_Y444_AYUV
.flags 2d
.dest 4 ayuv guint8
.source 1 yy guint8
.source 1 u guint8
.source 1 v guint8
.const 1 c255 255
.temp 2 uv
.temp 2 ay

mergebw uv, u, v
mergebw ay, c255, yy
mergewl ayuv, ay, uv



