.function orc_add_s16_u8
.dest 2 d1 orc_int16
.source 2 s1 orc_int16
.source 1 s2
.temp 2 t1

convubw t1, s2
addw d1, t1, s1


