.function orc_subf
.dest 4 d1
.source 4 s1
.source 4 s2

subf d1, s1, s2


