.function orc_audio_convert_unpack_s16_double
.dest 8 d1 gdouble
.source 2 s1 guint8
.param 4 p1
.temp 4 t2

convuwl t2, s1
shll t2, t2, p1
convld d1, t2

