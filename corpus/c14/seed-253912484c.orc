.function orc_subusb
.dest 1 d1
.source 1 s1
.source 1 s2

subusb d1, s1, s2


