.function orc_lshift2_s16
.dest 2 d1 orc_int16
.source 2 s1 orc_int16

shlw d1, s1, 2


