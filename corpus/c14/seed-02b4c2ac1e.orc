.function orc_sad_16xn_u8
.flags 2d
.n 16
.accumulator 4 a1 uint32_t
.source 1 s1 uint8_t
.source 1 s2 uint8_t

accsadubl a1, s1, s2



