.function orc_cmpeql
.dest 4 d1
.source 4 s1
.source 4 s2

cmpeql d1, s1, s2


