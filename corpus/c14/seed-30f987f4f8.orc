.function audio_orc_pack_f64_swap
.dest 8 d1 double
.source 8 s1 double

swapq d1, s1

