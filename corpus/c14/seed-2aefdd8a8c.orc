.function gst_orc_splat_s16
.dest 2 d1 gint8
.param 2 p1

copyw d1, p1


