.function cogorc_downsample_420_jpeg
.dest 1 d1 guint8
.source 2 s1 guint8
.source 2 s2 guint8
.temp 2 t1
.temp 1 t2
.temp 1 t3
.temp 1 t4
.temp 1 t5

copyw t1, s1
select0wb t2, t1
select1wb t3, t1
avgub t2, t2, t3
copyw t1, s2
select0wb t4, t1
select1wb t5, t1
avgub t4, t4, t5
avgub d1, t2, t4


