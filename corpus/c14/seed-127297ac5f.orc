.function orc_code_combine_xor_u
.dest 4 d1
.source 4 s1
.source 4 s2
.temp 8 d_wide
.temp 8 s_wide
.temp 8 m_wide
.temp 8 t1
.temp 8 t2
.temp 8 t3
.temp 4 t4
.temp 4 t5

x4 convubw t1, s1
x4 convubw t2, s2
splatw3q t2, t2
x4 mullw t1, t1, t2
x4 div255w t1, t1

x4 convubw d_wide, d1
splatw3q t2, d_wide
x4 xorw t2, t2, 0x00ff
x4 mullw t3, t1, t2
x4 div255w t3, t3
x4 convwb t4, t3

x4 convubw d_wide, d1
splatw3q t2, t1
x4 xorw t2, t2, 0x00ff
x4 mullw t1, d_wide, t2
x4 div255w t1, t1
x4 convwb t5, t1

x4 addusb d1, t4, t5


