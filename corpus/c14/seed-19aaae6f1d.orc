.function orc_convwb
.dest 1 d1
.source 2 s1

convwb d1, s1


