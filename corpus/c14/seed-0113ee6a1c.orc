.function orc_maxsl
.dest 4 d1
.source 4 s1
.source 4 s2

maxsl d1, s1, s2


