.function orc_scalarmultiply_f32_ns
.dest 4 d1 float
.floatparam 4 p1

mulf d1, d1, p1


