.function cogorc_convert_Y444_UYVY
.flags 2d
.dest 4 uyvy guint8
.source 2 y guint8
.source 2 u guint8
.source 2 v guint8
.temp 2 uv
.temp 4 uvuv
.temp 2 uv1
.temp 2 uv2

x2 mergebw uvuv, u, v
splitlw uv1, uv2, uvuv
x2 avgub uv, uv1, uv2
x2 mergebw uyvy, uv, y


