.function gst_videoscale_orc_resample_nearest_u8
.dest 1 d1 guint8
.source 1 s1 guint8
.param 4 p1
.param 4 p2

ldresnearb d1, s1, p1, p2


