.function mt19937ar_temper
.dest 4 d
.source 4 s
.temp 4 y
.temp 4 t

loadl y, s
shrul t, y, 11
xorl y, y, t
shll t, y, 7
andl t, t, 0x9d2c5680
xorl y, y, t
shll t, y, 15 
andl t, t, 0xefc60000
xorl y, y, t
shrul t, y, 18
xorl d, y, t


#.function mt19937ar_mix_temper
#.dest 4 d
#.dest 4 mt
#.source 4 mt1
#.source 4 mt2
#.temp 4 y
#.temp 4 t1
#.temp 4 t2
#.const 4 c1 1
#.const 4 UPPER_MASK 0x80000000
#.const 4 LOWER_MASK 0x7fffffff
#.const 4 MATRIX_A 0x9908b0df
#
#
#loadl t1, mt
#andl t1, t1, UPPER_MASK
#loadl t2, mt1
#andl t2, t2, LOWER_MASK
#orl y, t1, t2
#andl t1, y, c1
#cmpeql t1, t1, c1
#andl t1, t1, MATRIX_A
#shrul y, y, c1
#xorl y, y, t1
#xorl y, mt2, y
#storel mt, y
#shrul t1, y, 11
#xorl y, y, t1
#shll t1, y, 7
#andl t1, t1, 0x9d2c5680
#xorl y, y, t1
#shll t1, y, 15 
#andl t1, t1, 0xefc60000
#xorl y, y, t1
#shrul t1, y, 18
#xorl d, y, t1



