.function orc_haar_split_s16
.dest 2 d1 orc_int16
.dest 2 d2 orc_int16
.temp 2 t1
.temp 2 t2

copyw t1, d1
copyw t2, d2
subw t2, t2, t1
copyw d2, t2
avgsw t2, t2, 0
addw d1, t1, t2


