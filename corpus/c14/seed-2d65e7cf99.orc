.function orc_minsw
.dest 2 d1
.source 2 s1
.source 2 s2

minsw d1, s1, s2


