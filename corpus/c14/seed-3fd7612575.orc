.function orc_convssswb
.dest 1 d1
.source 2 s1

convssswb d1, s1


