.function orc_add2_rshift_sub_s16_11
.dest 2 d1 int16_t
.source 2 s1 int16_t
.source 2 s2 int16_t
.temp 2 t1

avgsw t1, s1, s2
subw d1, d1, t1


