.function orc_combine2_12xn_u8
.flags 2d
.n 12
.dest 1 d1 orc_uint8
.source 1 s1 orc_uint8
.source 1 s2 orc_uint8
.param 2 p1
.param 2 p2
.param 2 p3
.param 2 p4
.temp 2 t1
.temp 2 t2

convubw t1, s1
convubw t2, s2
mullw t1, t1, p1
mullw t2, t2, p2
addw t1, t1, t2
addw t1, t1, p3
shrsw t1, t1, p4
convsuswb d1, t1



