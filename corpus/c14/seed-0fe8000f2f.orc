.function orc_haar_deint_split_s16
.dest 2 d1 orc_int16
.dest 2 d2 orc_int16
.source 4 s1 orc_int16
.temp 2 t1
.temp 2 t2
.temp 4 t3

copyl t3, s1
select0lw t1, t3
select1lw t2, t3
subw t2, t2, t1
copyw d2, t2
avgsw t2, t2, 0
addw d1, t1, t2


