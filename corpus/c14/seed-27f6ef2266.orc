.function gst_videoscale_orc_resample_bilinear_u32
.dest 4 d1 guint8
.source 4 s1 guint8
.param 4 p1
.param 4 p2

ldreslinl d1, s1, p1, p2


