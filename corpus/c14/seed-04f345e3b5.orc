.function orc_shruw
.dest 2 d1
.source 2 s1
.param 2 s2

shruw d1, s1, s2


