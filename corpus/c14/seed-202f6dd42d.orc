.function orc_quantise2_s16
.dest 2 d1 int16_t
.source 2 s1 int16_t
.param 2 p1
.param 2 p2
.temp 2 t1
.temp 2 t2

copyw t1, s1
signw t2, t1
absw t1, t1
shlw t1, t1, 2
subw t1, t1, p2
shruw t1, t1, p1
mullw d1, t1, t2


# only works for values between -16384 and 16384
