.function orc_audio_convert_pack_u32_swap
.dest 4 d1 guint8
.source 4 s1 gint32
.param 4 p1
.const 4 c1 0x80000000
.temp 4 t1

xorl t1, s1, c1
shrul t1, t1, p1
swapl d1, t1


