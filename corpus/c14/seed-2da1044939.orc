.function orc_downsample_vert_u8
.dest 1 d1
.source 1 s1
.source 1 s2
.source 1 s3
.source 1 s4
.temp 2 t1
.temp 2 t2
.temp 2 t3

convubw t1, s1
convubw t2, s4
addw t1, t1, t2
mullw t1, t1, 6
convubw t2, s2
convubw t3, s3
addw t2, t2, t3
mullw t2, t2, 26
addw t2, t2, t1
addw t2, t2, 32
shruw t2, t2, 6
convwb d1, t2


