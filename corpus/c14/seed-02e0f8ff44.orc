.function orc_addb
.dest 1 d1
.source 1 s1
.source 1 s2

addb d1, s1, s2


