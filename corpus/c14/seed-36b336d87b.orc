.function orc_lshift_s16_ip
.dest 2 d1 orc_int16
.param 2 p1

shlw d1, d1, p1


