.function gst_videoscale_orc_downsample_yuyv
.dest 4 d1 guint8
.source 8 s1 guint8
.temp 4 yyyy
.temp 4 uvuv
.temp 2 t1
.temp 2 t2
.temp 2 yy
.temp 2 uv

x4 splitwb yyyy, uvuv, s1
x2 splitwb t1, t2, yyyy
x2 avgub yy, t1, t2
splitlw t1, t2, uvuv
x2 avgub uv, t1, t2
x2 mergebw d1, yy, uv



