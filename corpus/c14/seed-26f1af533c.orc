.function orc_audio_convert_unpack_u8_double
.dest 8 d1 gdouble
.source 1 s1 guint8
.param 4 p1
.const 4 c1 0x80000000
.temp 2 t2
.temp 4 t3

convubw t2, s1
convuwl t3, t2
shll t3, t3, p1
xorl t3, t3, c1
convld d1, t3

