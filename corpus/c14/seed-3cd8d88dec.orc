.function orc_avgul
.dest 4 d1
.source 4 s1
.source 4 s2

avgul d1, s1, s2


