.function orc_audio_convert_unpack_float_s32
.source 4 s1 gfloat
.dest 4 d1 guint32
.temp 4 t1

loadl t1, s1
# multiply with 2147483647.0
mulf t1, t1, 0x4F000000
# add 0.5 for rounding
addf t1, t1, 0x3F000000
convfl d1, t1

