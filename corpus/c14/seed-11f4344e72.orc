.function orc_mas2_add_s16_ip
.dest 2 d1 orc_int16
.source 2 s1 orc_int16
.source 2 s2 orc_int16
.temp 2 t1
.temp 4 t2
.param 2 p1
.param 4 p2
.param 4 p3

addw t1, s1, s2
mulswl t2, t1, p1
addl t2, t2, p2
shrsl t2, t2, p3
convlw t1, t2
addw d1, d1, t1


