.function orc_matrix3_u8
.dest 1 d1 guint8
.source 1 s1 guint8
.source 1 s2 guint8
.source 1 s3 guint8
.param 2 p1
.param 2 p2
.param 2 p3
.param 2 p4
.temp 2 t1
.temp 2 t2

convubw t1, s1
mullw t1, t1, p1
convubw t2, s2
mullw t2, t2, p2
addw t1, t1, t2
convubw t2, s3
mullw t2, t2, p3
addw t1, t1, t2
addw t1, t1, p4
shrsw t1, t1, 6
convsuswb d1, t1


