.function orc_audio_convert_unpack_double_double_swap
.dest 8 d1 gdouble
.source 8 s1 gdouble

swapq d1, s1

