.function orc_avg2_12xn_u8
.flags 2d
.n 12
.dest 1 d1 orc_uint8
.source 1 s1 orc_uint8
.source 1 s2 orc_uint8

avgub d1, s1, s2


