.function orc_mulsbw
.dest 2 d1
.source 1 s1
.source 1 s2

mulsbw d1, s1, s2


