.function orc_audio_convert_unpack_s16
.dest 4 d1 gint32
.source 2 s1 guint8
.param 4 p1
.temp 4 t2

convuwl t2, s1
shll d1, t2, p1


