.function orc_addusb
.dest 1 d1
.source 1 s1
.source 1 s2

addusb d1, s1, s2


