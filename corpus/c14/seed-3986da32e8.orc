.function orc_combine4_8xn_u8
.flags 2d
.n 8
.dest 1 d1 orc_uint8
.source 1 s1 orc_uint8
.source 1 s2 orc_uint8
.source 1 s3 orc_uint8
.source 1 s4 orc_uint8
.param 2 p1
.param 2 p2
.param 2 p3
.param 2 p4
.temp 2 t1
.temp 2 t2

convubw t1, s1
mullw t2, t1, p1
convubw t1, s2
mullw t1, t1, p2
addw t2, t2, t1
convubw t1, s3
mullw t1, t1, p3
addw t2, t2, t1
convubw t1, s4
mullw t1, t1, p4
addw t2, t2, t1
addw t2, t2, 8
convsuswb d1, t2


