.function orc_mergewl
.dest 4 d1
.source 2 s1
.source 2 s2

mergewl d1, s1, s2


