.function orc_audio_convert_unpack_u16_swap
.dest 4 d1 gint32
.source 2 s1 guint8
.param 4 p1
.const 4 c1 0x80000000
.temp 2 t1
.temp 4 t2

swapw t1, s1
convuwl t2, t1
shll t2, t2, p1
xorl d1, t2, c1


