.function orc_mas2_sub_s16_op
.dest 2 d1 int16_t
.source 2 s0 int16_t
.source 2 s1 int16_t
.source 2 s2 int16_t
.temp 2 t1
.temp 4 t2
.param 2 p1
.param 4 p2
.param 4 p3

addw t1, s1, s2
mulswl t2, t1, p1
addl t2, t2, p2
shrsl t2, t2, p3
convlw t1, t2
subw d1, s0, t1


