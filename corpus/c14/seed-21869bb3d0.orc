.function orc_convert_s16_u8
.dest 2 d1
.source 1 s1

convubw d1, s1


