.function orc_add_s16
.dest 2 d1 int16_t
.source 2 s1 int16_t
.source 2 s2 int16_t

addw d1, s1, s2


