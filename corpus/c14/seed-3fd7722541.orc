.function orc_add2_rshift_sub_s16_11_op
.dest 2 d1 orc_int16
.source 2 s1 orc_int16
.source 2 s2 orc_int16
.source 2 s3 orc_int16
.temp 2 t1

avgsw t1, s2, s3
subw d1, s1, t1


