.function orc_avg2_16xn_u8
.flags 2d
.n 16
.dest 1 d1 uint8_t
.source 1 s1 uint8_t
.source 1 s2 uint8_t

avgub d1, s1, s2


