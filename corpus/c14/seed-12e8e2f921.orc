.function orc_sqrtf
.dest 4 d1
.source 4 s1

sqrtf d1, s1


