.function orc_haar_synth_s16_hi
.dest 2 d1 int16_t
.source 2 s1 int16_t
.source 2 s2 int16_t
.temp 2 t1
.temp 2 t2
.temp 2 t3

copyw t2, s2
avgsw t3, t2, 0
subw t1, s1, t3
addw d1, t2, t1


