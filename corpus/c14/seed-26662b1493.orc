.function orc_add2_rshift_sub_s16_22
.dest 2 d1 int16_t
.source 2 s1 int16_t
.source 2 s2 int16_t
.temp 2 t1

addw t1, s1, s2
addw t1, t1, 2
shrsw t1, t1, 2
subw d1, d1, t1


