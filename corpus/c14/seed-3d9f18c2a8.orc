.function const64
.dest 8 d
.const 8 s 0x0123456789abcdef

copyq d, s


