.function cogorc_convert_AYUV_I420
.flags 2d
.dest 2 y1
.dest 2 y2
.dest 1 u
.dest 1 v
.source 8 ayuv1
.source 8 ayuv2
.temp 4 ay
.temp 4 uv1
.temp 4 uv2
.temp 4 uv
.temp 2 uu
.temp 2 vv
.temp 1 t1
.temp 1 t2

x2 splitlw uv1, ay, ayuv1
x2 select1wb y1, ay
x2 splitlw uv2, ay, ayuv2
x2 select1wb y2, ay
x4 avgub uv, uv1, uv2
x2 splitwb vv, uu, uv
splitwb t1, t2, uu
avgub u, t1, t2
splitwb t1, t2, vv
avgub v, t1, t2


