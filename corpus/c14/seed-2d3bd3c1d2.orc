.function deinterlace_line_linear_blend
.dest 1 d1 guint8
.source 1 s1 guint8
.source 1 s2 guint8
.source 1 s3 guint8
.temp 2 t1
.temp 2 t2
.temp 2 t3

convubw t1, s1
convubw t2, s2
convubw t3, s3
addw t1, t1, t2
addw t3, t3, t3
addw t1, t1, t3
addw t1, t1, 2
shrsw t1, t1, 2
convsuswb d1, t1


