.function orc_multiply_and_add_s16_u8
.dest 2 d1 int16_t
.source 2 s1 int16_t
.source 1 s2
.temp 2 t1

convubw t1, s2
mullw t1, t1, s1
addw d1, d1, t1


