.function gst_videoscale_orc_resample_merge_bilinear_u32
.dest 4 d1 guint8
.dest 4 d2 guint8
.source 4 s1 guint8
.source 4 s2 guint8
.temp 4 a
.temp 4 b
.temp 4 t
.temp 8 t1
.temp 8 t2
.param 4 p1
.param 4 p2
.param 4 p3

ldreslinl b, s2, p2, p3
storel d2, b
loadl a, s1
x4 convubw t1, a
x4 convubw t2, b
x4 subw t2, t2, t1
x4 mullw t2, t2, p1
x4 convhwb t, t2
x4 addb d1, t, a



