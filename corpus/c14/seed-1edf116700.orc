.function orc_add2_rshift_add_s16_22_op
.dest 2 d1 int16_t
.source 2 s1 int16_t
.source 2 s2 int16_t
.source 2 s3 int16_t
.temp 2 t1

addw t1, s2, s3
addw t1, t1, 2
shrsw t1, t1, 2
addw d1, s1, t1


