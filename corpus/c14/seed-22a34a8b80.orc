.function orc_audio_convert_pack_double_float_swap
.dest 4 d1 gfloat
.source 8 s1 gdouble
.temp 4 t1

convdf t1, s1
swapl d1, t1

