.function orc_add2_rshift_add_s16_11_op
.dest 2 d1 int16_t
.source 2 s1 int16_t
.source 2 s2 int16_t
.source 2 s3 int16_t
.temp 2 t1

avgsw t1, s2, s3
addw d1, s1, t1


