.function cogorc_planar_chroma_422_444
.flags 2d
.dest 2 d1 guint8
.source 1 s guint8
.temp 2 t

splatbw t, s
storew d1, t


