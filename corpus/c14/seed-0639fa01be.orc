.function gst_videoscale_orc_merge_bicubic_u8
.dest 1 d1 guint8
.source 1 s1 guint8
.source 1 s2 guint8
.source 1 s3 guint8
.source 1 s4 guint8
.param 4 p1
.param 4 p2
.param 4 p3
.param 4 p4
.temp 2 t1
.temp 2 t2

mulubw t1, s2, p2
mulubw t2, s3, p3
addw t1, t1, t2
mulubw t2, s1, p1
subw t1, t1, t2
mulubw t2, s4, p4
subw t1, t1, t2
addw t1, t1, 32
shrsw t1, t1, 6
convsuswb d1, t1



#.init gst_adder_orc_init

