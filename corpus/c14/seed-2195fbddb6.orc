.function cogorc_convert_YUY2_Y42B
.flags 2d
.dest 2 y guint8
.dest 1 u guint8
.dest 1 v guint8
.source 4 yuy2 guint8
.temp 2 uv

x2 splitwb uv, y, yuy2
splitwb v, u, uv


