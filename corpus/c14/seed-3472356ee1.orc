.function cogorc_getline_YVYU
.dest 8 ayuv guint8
.source 4 uyvy guint8
.const 2 c255 0xff
.temp 2 yy
.temp 2 uv
.temp 4 ayay
.temp 4 uvuv

x2 splitwb yy, uv, uyvy
x2 mergebw ayay, c255, yy
mergewl uvuv, uv, uv
x2 mergewl ayuv, ayay, uvuv


