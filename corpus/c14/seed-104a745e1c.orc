.function orc_convuwl
.dest 4 d1
.source 2 s1

convuwl d1, s1


