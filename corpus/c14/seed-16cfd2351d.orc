.function cogorc_convert_AYUV_UYVY
.flags 2d
.dest 4 yuy2 guint8
.source 8 ayuv guint8
.temp 2 yy
.temp 2 uv1
.temp 2 uv2
.temp 4 ayay
.temp 4 uvuv

x2 splitlw uvuv, ayay, ayuv
splitlw uv1, uv2, uvuv
x2 avgub uv1, uv1, uv2
x2 select1wb yy, ayay
x2 mergebw yuy2, uv1, yy



