.function cogorc_putline_NV21
.dest 2 y guint8
.dest 2 vu guint8
.source 8 ayuv guint8
.temp 4 ay
.temp 4 uvuv
.temp 2 uv1
.temp 2 uv2
.temp 2 uv

x2 splitlw uvuv, ay, ayuv
x2 select1wb y, ay
splitlw uv1, uv2, uvuv
x2 avgub uv, uv1, uv2
swapw vu, uv



#.init schro_orc_init

