.function cogorc_memcpy_2d
.flags 2d
.dest 1 d1 guint8
.source 1 s1 guint8

copyb d1, s1


