.function orc_memcpy_u32
.dest 4 d1 guint32
.source 4 s1 guint32

copyl d1, s1

