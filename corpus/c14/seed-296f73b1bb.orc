.function orc_mulhsb
.dest 1 d1
.source 1 s1
.source 1 s2

mulhsb d1, s1, s2


