.function orc_muluwl
.dest 4 d1
.source 2 s1
.source 2 s2

muluwl d1, s1, s2


