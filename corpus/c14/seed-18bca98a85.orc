.function orc_add2_rshift_add_s16_22
.dest 2 d1 orc_int16
.source 2 s1 orc_int16
.source 2 s2 orc_int16
.temp 2 t1

addw t1, s1, s2
addw t1, t1, 2
shrsw t1, t1, 2
addw d1, d1, t1


