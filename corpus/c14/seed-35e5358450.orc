.function cogorc_downsample_vert_halfsite_4tap
.dest 1 d1 guint8
.source 1 s1 guint8
.source 1 s2 guint8
.source 1 s3 guint8
.source 1 s4 guint8
.temp 2 t1
.temp 2 t2
.temp 2 t3
.temp 2 t4

convubw t1, s1
convubw t2, s2
convubw t3, s3
convubw t4, s4
addw t2, t2, t3
mullw t2, t2, 26
addw t1, t1, t4
mullw t1, t1, 6
addw t2, t2, t1
addw t2, t2, 32
shrsw t2, t2, 6
convsuswb d1, t2


