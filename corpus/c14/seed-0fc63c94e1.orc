.function orc_avgsw
.dest 2 d1
.source 2 s1
.source 2 s2

avgsw d1, s1, s2


