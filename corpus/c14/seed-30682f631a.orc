.function orc_convlf
.dest 4 d1
.source 4 s1

convlf d1, s1


