.function orc_deinterleave2_lshift1_s16
.dest 2 d1 orc_int16
.dest 2 d2 orc_int16
.source 4 s1 orc_int16
.temp 4 t1
.temp 2 t2
.temp 2 t3

copyl t1, s1
select0lw t2, t1
shlw d1, t2, 1
select1lw t3, t1
shlw d2, t3, 1


