.function orc_subssl
.dest 4 d1
.source 4 s1
.source 4 s2

subssl d1, s1, s2


