.function orc_shll
.dest 4 d1
.source 4 s1
.param 4 s2

shll d1, s1, s2


