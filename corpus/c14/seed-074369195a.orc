.function orc_audio_convert_pack_double_float
.dest 4 d1 gfloat
.source 8 s1 gdouble

convdf d1, s1

