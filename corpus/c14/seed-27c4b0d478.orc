.function orc_mulll
.dest 4 d1
.source 4 s1
.source 4 s2

mulll d1, s1, s2


