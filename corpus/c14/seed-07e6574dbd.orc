.function cogorc_convert_UYVY_Y42B
.flags 2d
.dest 2 y guint8
.dest 1 u guint8
.dest 1 v guint8
.source 4 uyvy guint8
.temp 2 uv

x2 splitwb y, uv, uyvy
splitwb v, u, uv


