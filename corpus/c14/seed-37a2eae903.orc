.function orc_shrsb
.dest 1 d1
.source 1 s1
.param 1 s2

shrsb d1, s1, s2


