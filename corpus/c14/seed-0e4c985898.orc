.function orc_splat_s16_ns
.dest 2 d1 orc_int16
.param 2 p1

copyw d1, p1


