.function orc_unpack_uyvy_y
.dest 1 d1 guint8
.source 2 s1 guint8

select1wb d1, s1


