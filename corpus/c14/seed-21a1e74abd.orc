.function add_int32
.dest 4 d1 gint32
.source 4 s1 gint32

addssl d1, d1, s1


