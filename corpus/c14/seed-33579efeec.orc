.function orc_andnw
.dest 2 d1
.source 2 s1
.source 2 s2

andnw d1, s1, s2


