.function orc_code_combine_over_u
.dest 4 d1
.source 4 s1
.source 4 s2
.temp 8 t1
.temp 8 t2
.temp 4 t3
.temp 4 d
.temp 8 d_wide

#compin t1, s1, s2
#compover d1, d1, t1
x4 convubw t1, s1
x4 convubw t2, s2
splatw3q t2, t2
x4 mullw t1, t1, t2
x4 div255w t1, t1
x4 convwb t3, t1
# ((d) + (s) - ORC_MULDIV_255((d),(m)))
loadl d, d1
x4 convubw d_wide, d
x4 xorw t1, t1, 0x00ff
splatw3q t2, t1
x4 mullw t1, d_wide, t2
x4 div255w t1, t1
x4 convwb d, t1
x4 addusb d1, d, t3


