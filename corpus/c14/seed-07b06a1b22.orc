.function orc_add_const_rshift_s16_11
.dest 2 d1 int16_t
.source 2 s1 int16_t
.temp 2 t1

addw t1, s1, 1
shrsw d1, t1, 1


