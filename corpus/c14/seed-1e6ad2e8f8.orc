.function orc_dequantise_s16_2d_4xn
.n 4
.flags 2d
.dest 2 d1 int16_t
.source 2 s1 int16_t
.param 2 p1
.param 2 p2
.temp 2 t1
.temp 2 t2

copyw t1, s1
signw t2, t1
absw t1, t1
mullw t1, t1, p1
addw t1, t1, p2
shrsw t1, t1, 2
mullw d1, t1, t2


