.function orc_haar_synth_s16_lo
.dest 2 d1 int16_t
.source 2 s1 int16_t
.source 2 s2 int16_t
.temp 2 t1

avgsw t1, s2, 0
subw d1, s1, t1


