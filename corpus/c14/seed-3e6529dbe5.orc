.function orc_lshift_s16_ip
.dest 2 d1 int16_t
.param 2 p1

shlw d1, d1, p1


