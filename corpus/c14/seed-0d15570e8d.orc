.function orc_audio_convert_unpack_double_double
.dest 8 d1 gdouble
.source 8 s1 gdouble

copyq d1, s1

