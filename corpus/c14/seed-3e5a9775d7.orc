.function orc_andb
.dest 1 d1
.source 1 s1
.source 1 s2

andb d1, s1, s2


