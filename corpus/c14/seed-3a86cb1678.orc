.function orc_cmpeqb
.dest 1 d1
.source 1 s1
.source 1 s2

cmpeqb d1, s1, s2


