.function orc_mas4_across_add_s16_1991_ip
.dest 2 d1 orc_int16
.source 2 s1 orc_int16
.source 2 s2 orc_int16
.source 2 s3 orc_int16
.source 2 s4 orc_int16
.param 4 p1
.param 4 p2
.temp 2 t1
.temp 2 t2
.temp 4 t3
.temp 4 t4

addw t1, s2, s3
mulswl t3, t1, 9
addw t2, s1, s4
convswl t4, t2
subl t3, t3, t4
addl t3, t3, p1
shrsl t3, t3, p2
convlw t1, t3
addw d1, d1, t1


