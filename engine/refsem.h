/* refsem.h - independent reference semantics of the Orc "sys" integer opcodes.
 *
 * Written from the Orc DOCUMENTATION only (doc/opcode_table.xml, doc/opcodes.xml,
 * doc/tutorial.xml), not from Orc's implementation.  It is the oracle of the
 * property based tests that check Orc's own emulator and back ends.
 *
 * Conventions
 *   - element values travel in uint64_t, zero-extended; only the low
 *     `operand size` bytes are meaningful on input, and results are truncated
 *     to the destination size;
 *   - "first in memory" always refers to a little-endian machine, i.e. the
 *     first-in-memory half of a value is its LOW half.
 */
#ifndef VERIF_REFSEM_H
#define VERIF_REFSEM_H

#include <stdint.h>

#ifdef __cplusplus
extern "C" {
#endif

/* Element-wise opcodes (everything except loads, stores, accumulators and float/double opcodes).
 * src[k]: value of source operand k of ONE element, zero-extended to 64 bits (only the low src_size bytes are meaningful).
 * dst[k]: result(s), truncated to the destination size (zero-extended in the uint64_t).
 *         dst[1] is only written by the split* opcodes.
 * Returns 0 if the opcode is handled, -1 if `name` is not an element-wise integer opcode. */
int ref_eval (const char *name, const uint64_t src[3], uint64_t dst[2]);

/* Accumulating opcodes accw, accl, accsadubl: returns the new accumulator value given the old one and the
 * element's source values; result truncated to the accumulator size (2 for accw, 4 for accl/accsadubl).
 * Returns 0 if handled, -1 otherwise. */
int ref_accumulate (const char *name, uint64_t acc, const uint64_t src[3], uint64_t *acc_out);

/* Load opcodes: loadb/w/l/q, loadoffb/w/l, loadupdb, loadupib, ldresnearb, ldresnearl, ldreslinb, ldreslinl.
 * `base` points to element 0 of the source array (row start), element size is implied by the opcode,
 * i is the element index being produced (0..n-1), p1/p2 are the scalar operands (offset for loadoff*; b and c for ldres*),
 * as signed 32-bit values.  Returns the loaded/resampled element (zero-extended).
 * *ok is set to 1 if `name` is a load opcode, to 0 (and 0 is returned, nothing is read) otherwise.
 * Elements are read in host byte order.  The function reads exactly the elements reported by ref_load_range(). */
uint64_t ref_load (const char *name, const unsigned char *base, long i, int32_t p1, int32_t p2, int *ok);

/* lowest and highest element index of the source array that ref_load reads for element i (for bounds bookkeeping).
 * For a name that is not a load opcode the empty range lo=0, hi=-1 is returned. */
void ref_load_range (const char *name, long i, int32_t p1, int32_t p2, long *lo, long *hi);

/* table of the documented operand sizes transcribed from doc/opcode_table.xml, for cross-checking:
 * returns 0 and fills sizes if the opcode is documented, -1 otherwise.  A size of 0 means the
 * documentation leaves the column empty (operand absent).  *src2_scalar=1 if the doc marks source 2
 * with 'S' (source 1 is never marked). Any of the output pointers may be NULL. */
int ref_doc_sizes (const char *name, int *dest_size, int *src1_size, int *src2_size, int *src2_scalar);
/* number of documented opcodes and the i-th name (for iteration); NULL if i is out of range */
int ref_doc_count (void);
const char *ref_doc_name (int i);

#ifdef __cplusplus
}
#endif

#endif /* VERIF_REFSEM_H */
