#include "cgen.h"
#include <dlfcn.h>
#include <stdlib.h>
#include <unistd.h>
#include <sys/wait.h>

/* the C target names NOEXEC operands by position (orc/orcprogram-c.c:varnames, same table in tools/orcc.c) */
static const char *cg_varnames[48] = {
  "d1", "d2", "d3", "d4", "s1", "s2", "s3", "s4", "s5", "s6", "s7", "s8", "a1", "a2", "a3", "a4",
  "c1", "c2", "c3", "c4", "c5", "c6", "c7", "c8", "p1", "p2", "p3", "p4", "p5", "p6", "p7", "p8",
  "t1", "t2", "t3", "t4", "t5", "t6", "t7", "t8", "t9", "t10", "t11", "t12", "t13", "t14", "t15", "t16"
};

const char *cg_variant_name (int v) { return v == CG_FULL ? "full-function" : v == CG_BARE ? "bare-executor-body" : "bare-noexec-body"; }

typedef struct { char *s; size_t n, cap; } Buf;
static void bput (Buf *b, const char *fmt, ...)
{
  va_list ap;
  char tmp[4096];
  int k;
  va_start (ap, fmt);
  k = vsnprintf (tmp, sizeof tmp, fmt, ap);
  va_end (ap);
  if (k < 0) return;
  if ((size_t) k >= sizeof tmp) k = sizeof tmp - 1;
  if (b->n + (size_t) k + 1 > b->cap) { b->cap = (b->cap + (size_t) k + 1) * 2; b->s = (char *) realloc (b->s, b->cap); }
  memcpy (b->s + b->n, tmp, (size_t) k + 1);
  b->n += (size_t) k;
}
static void bputs (Buf *b, const char *s)
{
  size_t k = strlen (s);
  if (b->n + k + 1 > b->cap) { b->cap = (b->cap + k + 1) * 2; b->s = (char *) realloc (b->s, b->cap); }
  memcpy (b->s + b->n, s, k + 1);
  b->n += k;
}

static int run_cc (const char *cc_opt, const char *src, const char *so, char *err, size_t max)
{
  char cmd[1600], errfile[600];
  const char *inc = v_arg ("cg_inc", "");
  FILE *f;
  int st;
  snprintf (errfile, sizeof errfile, "%s.err", so);
  /* gcc's own temporary files go to the scratch directory too (it is emptied when a check starts) */
  {
    char dir[500];
    char *slash;
    snprintf (dir, sizeof dir, "%s", so);
    slash = strrchr (dir, '/');
    if (slash) *slash = 0;
    /* cc_opt "clang:<options>" selects the second compiler (used to tell a miscompilation by one compiler from a defect of the source) */
    const char *cc = "gcc";
    if (!strncmp (cc_opt, "clang:", 6)) { cc = "clang-14"; cc_opt += 6; }
    snprintf (cmd, sizeof cmd, "TMPDIR=%s %s -std=gnu11 %s -fPIC -shared -w -fno-fast-math -ffp-contract=off %s -o %s %s 2> %s",
        dir, cc, cc_opt, inc, so, src, errfile);
  }
  st = system (cmd);
  err[0] = 0;
  f = fopen (errfile, "r");
  if (f) { size_t k = fread (err, 1, max - 1, f); err[k] = 0; fclose (f); }
  unlink (errfile);
  return (st == -1 || !WIFEXITED (st) || WEXITSTATUS (st) != 0) ? 1 : 0;
}

int cg_make (OrcProgram *p, const ProgSpec *ps, int variant, const char *cc_opt, const char *scratch_dir, CgUnit *u)
{
  Buf b = { NULL, 0, 0 };
  OrcCompileResult res;
  unsigned flags = variant == CG_FULL ? 0 : variant == CG_BARE ? ORC_TARGET_C_BARE : (ORC_TARGET_C_BARE | ORC_TARGET_C_NOEXEC);
  char src[500], so[500];
  const char *fname = variant == CG_FULL ? p->name : "vfn_wrapped";
  int i;
  FILE *f;
  memset (u, 0, sizeof *u);
  res = orc_program_compile_full (p, orc_target_get_by_name ("c"), flags);
  if (!ORC_COMPILE_RESULT_IS_SUCCESSFUL (res) || !p->asm_code) { snprintf (u->err, sizeof u->err, "%s", v_result_name (res)); return 1; }

  /* the file layout orcc uses for an --implementation file */
  bputs (&b, orc_target_c_get_typedefs ());
  bputs (&b, "#include <orc/orc.h>\n");
  bputs (&b, orc_target_get_asm_preamble ("c"));
  if (variant == CG_FULL) {
    bputs (&b, p->asm_code);
  } else if (variant == CG_BARE) {
    bput (&b, "void\n%s (OrcExecutor * ORC_RESTRICT ex)\n{\n", fname);
    bputs (&b, p->asm_code);
    bputs (&b, "\n}\n");
  } else {
    bput (&b, "void\n%s (OrcExecutor * ORC_RESTRICT ex)\n{\n", fname);
    if (!ps->const_n) bputs (&b, "  int n = ex->n;\n");
    if (ps->is2d && !ps->const_m) bputs (&b, "  int m = ex->params[ORC_VAR_A1];\n");
    for (i = 0; i < ps->nvars; i++) {
      const PVar *v = &ps->vars[i];
      const char *nm = v->orcvar >= 0 && v->orcvar < 48 ? cg_varnames[v->orcvar] : "bad";
      if (v->kind == VK_SRC || v->kind == VK_DEST) {
        bput (&b, "  %sorc_uint%d * ORC_RESTRICT %s = ex->arrays[%d];\n", v->kind == VK_SRC ? "const " : "", v->size * 8, nm, v->orcvar);
        if (ps->is2d) bput (&b, "  int %s_stride = ex->params[%d];\n", nm, v->orcvar);
      } else if (v->kind == VK_ACC) {
        bput (&b, "  orc_uint%d %s_store = 0; orc_uint%d * ORC_RESTRICT %s = &%s_store;\n", v->size * 8, nm, v->size * 8, nm, nm);
      } else if (v->kind == VK_PARAM) {
        switch (v->ptype) {
          case PT_INT: bput (&b, "  int %s = ex->params[%d];\n", nm, v->orcvar); break;
          case PT_FLOAT: bput (&b, "  float %s = ((orc_union32 *)(ex->params+%d))->f;\n", nm, v->orcvar); break;
          case PT_INT64: bput (&b, "  orc_int64 %s = (orc_int64)(((orc_uint64)(orc_uint32)ex->params[%d]) | ((orc_uint64)(orc_uint32)ex->params[%d + (ORC_N_PARAMS)] << 32));\n", nm, v->orcvar, v->orcvar); break;
          default:
            bput (&b, "  orc_union64 %s_u; double %s;\n", nm, nm);
            bput (&b, "  %s_u.i = (orc_int64)(((orc_uint64)(orc_uint32)ex->params[%d]) | ((orc_uint64)(orc_uint32)ex->params[%d + (ORC_N_PARAMS)] << 32)); %s = %s_u.f;\n",
                nm, v->orcvar, v->orcvar, nm, nm);
            break;
        }
      }
    }
    bputs (&b, "  {\n");
    bputs (&b, p->asm_code);
    bputs (&b, "\n  }\n");
    for (i = 0; i < ps->nvars; i++) {
      const PVar *v = &ps->vars[i];
      if (v->kind == VK_ACC) bput (&b, "  ex->accumulators[%d] = %s_store;\n", v->orcvar - ORC_VAR_A1, cg_varnames[v->orcvar]);
    }
    bputs (&b, "}\n");
  }
  u->source = b.s;

  /* a name of its own per unit: the dynamic loader recognises an object that is already loaded by device and inode, and an
     unlinked file's inode number is handed out again */
  {
    static int serial;
    serial++;
    snprintf (src, sizeof src, "%s/cg-%d-%d.c", scratch_dir, (int) getpid (), serial);
    snprintf (so, sizeof so, "%s/cg-%d-%d.so", scratch_dir, (int) getpid (), serial);
  }
  f = fopen (src, "w");
  if (!f) { snprintf (u->err, sizeof u->err, "cannot write %s", src); return 3; }
  fputs (b.s, f);
  fclose (f);
  if (run_cc (cc_opt, src, so, u->err, sizeof u->err)) { if (!v_arg ("cg_keep", NULL)) unlink (src); unlink (so); return 2; }
  u->handle = dlopen (so, RTLD_NOW | RTLD_LOCAL);
  if (!v_arg ("cg_keep", NULL)) unlink (src);
  unlink (so);
  if (!u->handle) { snprintf (u->err, sizeof u->err, "dlopen: %s", dlerror ()); return 3; }
  u->fn = (CgFn) dlsym (u->handle, fname);
  if (!u->fn) { snprintf (u->err, sizeof u->err, "symbol %s not found", fname); return 2; }
  return 0;
}

void cg_close (CgUnit *u)
{
  if (u->handle) dlclose (u->handle);
  free (u->source);
  memset (u, 0, sizeof *u);
}
