#ifndef VERIF_RUN32_H
#define VERIF_RUN32_H
#include <stdint.h>
#include <stddef.h>
/* Running 32-bit x86 code Orc generated (flags without ORC_TARGET_*_64BIT) inside this 64-bit process: everything the code touches
 * (code, stack, executor, arrays) is mapped below 4 GiB; OrcExecutor keeps its 64-bit layout, the 32-bit code reads the low halves
 * of the pointers, which is what the offsets the library computed (ORC_STRUCT_OFFSET in a 64-bit build) make it do. */
typedef struct {
  uint32_t seed[4];             /* ebx esi edi ebp on entry */
  uint32_t out[4];              /* ... on return */
  uint32_t esp_before, esp_after;
  uint32_t mxcsr_in, mxcsr_out;
  uint16_t fputag_out;
  int df_out;
} Run32State;
int run32_probe (void);                       /* 1 if a far call into the 32-bit code segment works here (tested in a child) */
int run32_init (void);                        /* maps the low region; 0 = ok */
void *run32_executor_mem (void);              /* room for an OrcExecutor below 4 GiB */
int run32_call (const void *code, int code_size, void *executor_low, Run32State *st);
extern int arena_map_32bit;                   /* engine/prog.c: arena_build maps its arrays below 4 GiB when set */
#endif
