#include "vcase.h"
#include <stdlib.h>

void v_desc (VResult *r, const char *fmt, ...)
{
  va_list ap;
  int k;
  if (r->desc_len >= V_DESC_MAX - 1) return;
  va_start (ap, fmt);
  k = vsnprintf (r->desc + r->desc_len, V_DESC_MAX - r->desc_len, fmt, ap);
  va_end (ap);
  if (k > 0) {
    r->desc_len += (size_t) k;
    if (r->desc_len > V_DESC_MAX - 1) r->desc_len = V_DESC_MAX - 1;
  }
}

void v_fail (VResult *r, const char *sig, const char *fmt, ...)
{
  va_list ap;
  if (r->verdict == V_FAIL) return;     /* keep the first failure */
  r->verdict = V_FAIL;
  snprintf (r->sig, V_SIG_MAX, "%s", sig);
  va_start (ap, fmt);
  vsnprintf (r->msg, V_MSG_MAX, fmt, ap);
  va_end (ap);
}

void v_stage (VResult *r, const char *fmt, ...)
{
  va_list ap;
  va_start (ap, fmt);
  vsnprintf (r->stage, V_STAGE_MAX, fmt, ap);
  va_end (ap);
}

uint64_t v_mix64 (uint64_t x)
{
  x += 0x9e3779b97f4a7c15ULL;
  x = (x ^ (x >> 30)) * 0xbf58476d1ce4e5b9ULL;
  x = (x ^ (x >> 27)) * 0x94d049bb133111ebULL;
  return x ^ (x >> 31);
}

uint64_t v_hash_bytes (uint64_t h, const void *p, size_t n)
{
  const unsigned char *b = (const unsigned char *) p;
  size_t i;
  for (i = 0; i < n; i++) {
    h ^= b[i];
    h *= 0x100000001b3ULL;
  }
  return v_mix64 (h);
}

#define MAXK 64
static struct { char id[64]; char sig[V_SIG_MAX]; } known[MAXK];
static int n_known;
static char excl[MAXK][128];
static int n_excl;
static char args[MAXK][256];
static int n_args;

void v_known_add (const char *id, const char *sigprefix)
{
  if (n_known >= MAXK) return;
  snprintf (known[n_known].id, sizeof known[n_known].id, "%s", id);
  snprintf (known[n_known].sig, sizeof known[n_known].sig, "%s", sigprefix);
  n_known++;
}

const char *v_known_match (const char *sig)
{
  int i;
  for (i = 0; i < n_known; i++) {
    size_t l = strlen (known[i].sig);
    if (l && strncmp (sig, known[i].sig, l) == 0 && (sig[l] == 0 || sig[l] == ' ' || sig[l] == ':'))
      return known[i].id;
  }
  return NULL;
}

void v_exclude_add (const char *key)
{
  if (n_excl >= MAXK) return;
  snprintf (excl[n_excl++], 128, "%s", key);
}

int v_excluded (const char *key)
{
  int i;
  for (i = 0; i < n_excl; i++)
    if (strcmp (excl[i], key) == 0) return 1;
  return 0;
}

void v_arg_add (const char *kv)
{
  if (n_args >= MAXK) return;
  snprintf (args[n_args++], 256, "%s", kv);
}

const char *v_arg (const char *name, const char *dflt)
{
  int i;
  size_t l = strlen (name);
  for (i = 0; i < n_args; i++)
    if (strncmp (args[i], name, l) == 0 && args[i][l] == '=') return args[i] + l + 1;
  return dflt;
}
