/* refsem_selftest.c - hand-computed spot checks for refsem.c
 *
 * build: gcc -std=gnu11 -Wall -O2 refsem.c refsem_selftest.c -o /tmp/refsem_selftest
 * Every expected value below was computed by hand from the documented
 * semantics, not by running refsem.c.
 */
#include "refsem.h"

#include <inttypes.h>
#include <stdio.h>
#include <string.h>

static int n_checks;
static int n_failures;

static void
fail (const char *what, uint64_t got, uint64_t expected)
{
  n_failures++;
  printf ("FAIL: %s: got 0x%" PRIx64 ", expected 0x%" PRIx64 "\n", what, got, expected);
}

/* element-wise opcode with one destination */
static void
check_eval (const char *name, uint64_t a, uint64_t b, uint64_t expected)
{
  uint64_t src[3] = { a, b, 0 };
  uint64_t dst[2] = { 0xdeadbeefdeadbeefULL, 0xdeadbeefdeadbeefULL };
  char what[128];

  n_checks++;
  snprintf (what, sizeof what, "%s(0x%" PRIx64 ", 0x%" PRIx64 ")", name, a, b);
  if (ref_eval (name, src, dst) != 0)
    fail (what, (uint64_t) -1, 0);
  else if (dst[0] != expected)
    fail (what, dst[0], expected);
}

/* split*: two destinations */
static void
check_split (const char *name, uint64_t a, uint64_t expected0, uint64_t expected1)
{
  uint64_t src[3] = { a, 0, 0 };
  uint64_t dst[2] = { 0xdeadbeefdeadbeefULL, 0xdeadbeefdeadbeefULL };
  char what[128];

  n_checks++;
  snprintf (what, sizeof what, "%s(0x%" PRIx64 ") dst[0]", name, a);
  if (ref_eval (name, src, dst) != 0) {
    fail (what, (uint64_t) -1, 0);
    return;
  }
  if (dst[0] != expected0)
    fail (what, dst[0], expected0);
  snprintf (what, sizeof what, "%s(0x%" PRIx64 ") dst[1]", name, a);
  if (dst[1] != expected1)
    fail (what, dst[1], expected1);
}

static void
check_not_eval (const char *name)
{
  uint64_t src[3] = { 1, 2, 3 };
  uint64_t dst[2] = { 0, 0 };
  char what[128];

  n_checks++;
  snprintf (what, sizeof what, "ref_eval(\"%s\") must be rejected", name);
  if (ref_eval (name, src, dst) != -1)
    fail (what, 0, (uint64_t) -1);
}

static void
check_acc (const char *name, uint64_t acc, uint64_t a, uint64_t b, uint64_t expected)
{
  uint64_t src[3] = { a, b, 0 };
  uint64_t out = 0xdeadbeefdeadbeefULL;
  char what[128];

  n_checks++;
  snprintf (what, sizeof what, "%s(acc=0x%" PRIx64 ", 0x%" PRIx64 ", 0x%" PRIx64 ")", name, acc, a, b);
  if (ref_accumulate (name, acc, src, &out) != 0)
    fail (what, (uint64_t) -1, 0);
  else if (out != expected)
    fail (what, out, expected);
}

static void
check_load (const char *name, const void *base, long i, int32_t p1, int32_t p2,
    uint64_t expected, long expected_lo, long expected_hi)
{
  int ok = -1;
  long lo = 12345, hi = 12345;
  uint64_t got;
  char what[128];

  n_checks++;
  snprintf (what, sizeof what, "%s(i=%ld, p1=%d, p2=%d)", name, i, (int) p1, (int) p2);
  got = ref_load (name, (const unsigned char *) base, i, p1, p2, &ok);
  if (ok != 1)
    fail (what, (uint64_t) ok, 1);
  else if (got != expected)
    fail (what, got, expected);
  ref_load_range (name, i, p1, p2, &lo, &hi);
  if (lo != expected_lo || hi != expected_hi) {
    snprintf (what, sizeof what, "%s(i=%ld, p1=%d, p2=%d) range lo/hi", name, i, (int) p1, (int) p2);
    fail (what, (uint64_t) lo << 32 | (uint32_t) hi, (uint64_t) expected_lo << 32 | (uint32_t) expected_hi);
  }
}

static void
check_int (const char *what, long got, long expected)
{
  n_checks++;
  if (got != expected)
    fail (what, (uint64_t) got, (uint64_t) expected);
}

/* ------------------------------------------------------------------------ */

static void
test_arithmetic (void)
{
  /* wrap-around add / sub */
  check_eval ("addb", 0xff, 0x01, 0x00);
  check_eval ("addw", 0xffff, 0x0002, 0x0001);
  check_eval ("addl", 0x80000000, 0x80000000, 0x00000000);
  check_eval ("addq", 0xffffffffffffffffULL, 1, 0);
  check_eval ("subb", 0x00, 0x01, 0xff);
  check_eval ("subw", 0x0001, 0x0002, 0xffff);
  check_eval ("subl", 0, 1, 0xffffffff);
  check_eval ("subq", 0, 1, 0xffffffffffffffffULL);

  /* signed saturation */
  check_eval ("addssb", 0x7f, 0x01, 0x7f);              /* 127 + 1 */
  check_eval ("addssb", 0x80, 0xff, 0x80);              /* -128 + -1 */
  check_eval ("addssb", 0x7f, 0x80, 0xff);              /* 127 + -128 = -1 */
  check_eval ("addssw", 0x7fff, 0x7fff, 0x7fff);
  check_eval ("addssl", 0x80000000, 0x80000000, 0x80000000);
  check_eval ("subssb", 0x80, 0x01, 0x80);              /* -128 - 1 */
  check_eval ("subssb", 0x7f, 0xff, 0x7f);              /* 127 - -1 */
  check_eval ("subssw", 0x8000, 0x7fff, 0x8000);
  check_eval ("subssl", 0x7fffffff, 0x80000000, 0x7fffffff);

  /* unsigned saturation, operands unsigned */
  check_eval ("addusb", 200, 100, 255);
  check_eval ("addusb", 0x80, 0x7f, 0xff);              /* 128 + 127 = 255, no clamp */
  check_eval ("addusw", 0xffff, 0x0001, 0xffff);
  check_eval ("addusl", 0xffffffff, 0xffffffff, 0xffffffff);
  check_eval ("subusb", 0x00, 0x01, 0x00);              /* 0 - 1 */
  check_eval ("subusb", 0x80, 0x7f, 0x01);              /* 128 - 127; signed reading would clamp to 0 */
  check_eval ("subusw", 0x0005, 0x0003, 0x0002);
  check_eval ("subusl", 0x00000001, 0xffffffff, 0x00000000);

  /* averages */
  check_eval ("avgsb", 0x80, 0x80, 0x80);               /* (-256 + 1) >> 1 = -128 */
  check_eval ("avgsb", 0x7f, 0x7f, 0x7f);               /* 255 >> 1 = 127 */
  check_eval ("avgsb", 0xff, 0x00, 0x00);               /* (-1 + 0 + 1) >> 1 */
  check_eval ("avgsb", 0xff, 0xfe, 0xff);               /* (-3 + 1) >> 1 = -1 */
  check_eval ("avgsw", 0x8000, 0x7fff, 0x0000);         /* (-1 + 1) >> 1 */
  check_eval ("avgsl", 0x7fffffff, 0x7fffffff, 0x7fffffff);
  check_eval ("avgub", 0xff, 0xff, 0xff);
  check_eval ("avgub", 0xff, 0x00, 0x80);
  check_eval ("avguw", 0x0001, 0x0002, 0x0002);
  check_eval ("avgul", 0xffffffff, 0xffffffff, 0xffffffff);

  /* abs / sign */
  check_eval ("absb", 0x80, 0, 0x80);                   /* abs(-128) wraps */
  check_eval ("absb", 0xff, 0, 0x01);
  check_eval ("absw", 0x8000, 0, 0x8000);
  check_eval ("absl", 0xfffffffe, 0, 0x00000002);
  check_eval ("signb", 0x80, 0, 0xff);
  check_eval ("signb", 0x00, 0, 0x00);
  check_eval ("signb", 0x7f, 0, 0x01);
  check_eval ("signw", 0x8000, 0, 0xffff);
  check_eval ("signl", 0x00000005, 0, 0x00000001);

  /* min / max */
  check_eval ("maxsb", 0x80, 0x7f, 0x7f);
  check_eval ("maxub", 0x80, 0x7f, 0x80);
  check_eval ("minsb", 0x80, 0x7f, 0x80);
  check_eval ("minub", 0x80, 0x7f, 0x7f);
  check_eval ("maxsw", 0xffff, 0x0001, 0x0001);
  check_eval ("minuw", 0xffff, 0x0001, 0x0001);
  check_eval ("minsl", 0xffffffff, 0x00000000, 0xffffffff);
  check_eval ("minul", 0xffffffff, 0x00000000, 0x00000000);
  check_eval ("maxul", 0xffffffff, 0x00000000, 0xffffffff);
}

static void
test_logic_compare_shift (void)
{
  check_eval ("andb", 0xf0, 0x3c, 0x30);
  check_eval ("orw", 0xf000, 0x000f, 0xf00f);
  check_eval ("xorl", 0xffff0000, 0xff00ff00, 0x00ffff00);
  check_eval ("xorq", 0xffffffffffffffffULL, 0x0123456789abcdefULL, 0xfedcba9876543210ULL);
  /* andn complements the FIRST operand */
  check_eval ("andnb", 0xf0, 0xff, 0x0f);
  check_eval ("andnb", 0xff, 0x0f, 0x00);
  check_eval ("andnw", 0x00ff, 0x1234, 0x1200);
  check_eval ("andnl", 0xffff0000, 0x12345678, 0x00005678);
  check_eval ("andnq", 0x00000000ffffffffULL, 0xffffffffffffffffULL, 0xffffffff00000000ULL);

  check_eval ("cmpeqb", 0x05, 0x05, 0xff);
  check_eval ("cmpeqw", 0x0005, 0x0105, 0x0000);
  check_eval ("cmpeql", 0xdeadbeef, 0xdeadbeef, 0xffffffff);
  check_eval ("cmpeqq", 0x8000000000000001ULL, 0x0000000000000001ULL, 0);
  check_eval ("cmpgtsb", 0x01, 0xff, 0xff);             /* 1 > -1 */
  check_eval ("cmpgtsb", 0xff, 0x01, 0x00);
  check_eval ("cmpgtsb", 0x05, 0x05, 0x00);
  check_eval ("cmpgtsw", 0x8000, 0x7fff, 0x0000);
  check_eval ("cmpgtsl", 0x7fffffff, 0x80000000, 0xffffffff);
  check_eval ("cmpgtsq", 0, 0x8000000000000000ULL, 0xffffffffffffffffULL);

  check_eval ("shlb", 0x81, 1, 0x02);
  check_eval ("shlw", 0x0001, 15, 0x8000);
  check_eval ("shll", 0x00000001, 31, 0x80000000);
  check_eval ("shlq", 1, 63, 0x8000000000000000ULL);
  check_eval ("shrsb", 0x80, 7, 0xff);
  check_eval ("shrsb", 0x40, 6, 0x01);
  check_eval ("shrsw", 0x8000, 1, 0xc000);
  check_eval ("shrsl", 0x80000000, 31, 0xffffffff);
  check_eval ("shrsq", 0x8000000000000000ULL, 63, 0xffffffffffffffffULL);
  check_eval ("shrub", 0x80, 7, 0x01);
  check_eval ("shruw", 0x8000, 15, 0x0001);
  check_eval ("shrul", 0x80000000, 4, 0x08000000);
  check_eval ("shruq", 0x8000000000000000ULL, 63, 1);
  check_eval ("shruq", 0x0123456789abcdefULL, 0, 0x0123456789abcdefULL);
}

static void
test_multiply_divide (void)
{
  check_eval ("mullb", 0x10, 0x10, 0x00);               /* 0x100 */
  check_eval ("mullb", 0xff, 0xff, 0x01);               /* 0xfe01 */
  check_eval ("mullw", 0x1234, 0x0100, 0x3400);
  check_eval ("mulll", 0x00010000, 0x00010000, 0x00000000);
  check_eval ("mulll", 0xffffffff, 0x00000002, 0xfffffffe);

  check_eval ("mulhsb", 0xff, 0x01, 0xff);              /* -1 >> 8 = -1 */
  check_eval ("mulhsb", 0x80, 0x80, 0x40);              /* 16384 >> 8 */
  check_eval ("mulhub", 0xff, 0xff, 0xfe);              /* 0xfe01 >> 8 */
  check_eval ("mulhsw", 0x8000, 0x8000, 0x4000);        /* 2^30 >> 16 */
  check_eval ("mulhsw", 0x8000, 0x7fff, 0xc000);        /* 0xc0008000 >> 16 */
  check_eval ("mulhuw", 0xffff, 0xffff, 0xfffe);        /* 0xfffe0001 >> 16 */
  check_eval ("mulhsl", 0x80000000, 0x80000000, 0x40000000);    /* 2^62 >> 32 */
  check_eval ("mulhsl", 0x00010000, 0x00010000, 0x00000001);    /* 2^32 >> 32, not >> 16 */
  check_eval ("mulhsl", 0xffffffff, 0x00000001, 0xffffffff);
  check_eval ("mulhul", 0xffffffff, 0xffffffff, 0xfffffffe);    /* 0xfffffffe00000001 >> 32 */

  check_eval ("mulsbw", 0x80, 0x80, 0x4000);            /* -128 * -128 */
  check_eval ("mulsbw", 0xff, 0x02, 0xfffe);            /* -1 * 2 */
  check_eval ("mulubw", 0xff, 0xff, 0xfe01);
  check_eval ("mulswl", 0x8000, 0x7fff, 0xc0008000);    /* -32768 * 32767 = -0x3fff8000 */
  check_eval ("muluwl", 0xffff, 0xffff, 0xfffe0001);
  check_eval ("mulslq", 0xffffffff, 0xffffffff, 0x0000000000000001ULL);
  check_eval ("mulslq", 0x80000000, 0x00000002, 0xffffffff00000000ULL);
  check_eval ("mululq", 0xffffffff, 0xffffffff, 0xfffffffe00000001ULL);

  check_eval ("div255w", 0xffff, 0, 257);               /* 65535 / 255 */
  check_eval ("div255w", 0xfe01, 0, 255);               /* 255 * 255 */
  check_eval ("div255w", 255, 0, 1);
  check_eval ("div255w", 254, 0, 0);
  check_eval ("divluw", 1000, 10, 100);
  check_eval ("divluw", 0xffff, 1, 255);                /* clamped */
  check_eval ("divluw", 100, 0x0105, 20);               /* only the low byte of b divides */
  check_eval ("divluw", 510, 2, 255);
  check_eval ("divluw", 509, 2, 254);
  check_eval ("divluw", 100, 0, 255);                   /* division by zero */
  check_eval ("divluw", 0, 0x0100, 255);                /* low byte zero */
}

static void
test_conversions (void)
{
  check_eval ("convsbw", 0x80, 0, 0xff80);
  check_eval ("convsbw", 0x7f, 0, 0x007f);
  check_eval ("convubw", 0x80, 0, 0x0080);
  check_eval ("convswl", 0x8000, 0, 0xffff8000);
  check_eval ("convuwl", 0x8000, 0, 0x00008000);
  check_eval ("convslq", 0x80000000, 0, 0xffffffff80000000ULL);
  check_eval ("convulq", 0x80000000, 0, 0x0000000080000000ULL);

  check_eval ("convwb", 0x1234, 0, 0x34);
  check_eval ("convhwb", 0x1234, 0, 0x12);
  check_eval ("convlw", 0x12345678, 0, 0x5678);
  check_eval ("convhlw", 0x12345678, 0, 0x1234);
  check_eval ("convql", 0x1122334455667788ULL, 0, 0x55667788);

  check_eval ("convssswb", 0x0080, 0, 0x7f);            /* 128 -> 127 */
  check_eval ("convssswb", 0xff7f, 0, 0x80);            /* -129 -> -128 */
  check_eval ("convssswb", 0xffff, 0, 0xff);            /* -1 stays */
  check_eval ("convsuswb", 0xffff, 0, 0x00);            /* -1 -> 0 */
  check_eval ("convsuswb", 0x0100, 0, 0xff);            /* 256 -> 255 */
  check_eval ("convsuswb", 0x00c8, 0, 0xc8);            /* 200 stays */
  check_eval ("convusswb", 0xffff, 0, 0x7f);            /* 65535 -> 127 */
  check_eval ("convusswb", 0x0080, 0, 0x7f);            /* 128 -> 127 */
  check_eval ("convusswb", 0x007f, 0, 0x7f);
  check_eval ("convuuswb", 0xffff, 0, 0xff);
  check_eval ("convuuswb", 0x00fe, 0, 0xfe);

  check_eval ("convssslw", 0x00008000, 0, 0x7fff);
  check_eval ("convssslw", 0xffff7fff, 0, 0x8000);      /* -32769 -> -32768 */
  check_eval ("convsuslw", 0x80000000, 0, 0x0000);
  check_eval ("convsuslw", 0x00010000, 0, 0xffff);
  check_eval ("convusslw", 0x80000000, 0, 0x7fff);
  check_eval ("convuuslw", 0x00010000, 0, 0xffff);
  check_eval ("convuuslw", 0x0000fffe, 0, 0xfffe);

  check_eval ("convsssql", 0x8000000000000000ULL, 0, 0x80000000);
  check_eval ("convsssql", 0x0000000080000000ULL, 0, 0x7fffffff);
  check_eval ("convsusql", 0xffffffffffffffffULL, 0, 0x00000000);
  check_eval ("convsusql", 0x0000000100000000ULL, 0, 0xffffffff);
  check_eval ("convussql", 0xffffffffffffffffULL, 0, 0x7fffffff);
  check_eval ("convuusql", 0xffffffffffffffffULL, 0, 0xffffffff);
  check_eval ("convuusql", 0x0000000012345678ULL, 0, 0x12345678);
}

static void
test_shuffles (void)
{
  check_eval ("copyb", 0xa5, 0, 0xa5);
  check_eval ("copyq", 0x0123456789abcdefULL, 0, 0x0123456789abcdefULL);
  check_eval ("copyw", 0xffffffffffff1234ULL, 0, 0x1234);   /* garbage above the operand is ignored */

  check_eval ("splatbw", 0xab, 0, 0xabab);
  check_eval ("splatbl", 0xab, 0, 0xabababab);
  check_eval ("splatw3q", 0x1234000000005678ULL, 0, 0x1234123412341234ULL);

  check_eval ("swapw", 0x1234, 0, 0x3412);
  check_eval ("swapl", 0x12345678, 0, 0x78563412);
  check_eval ("swapq", 0x0102030405060708ULL, 0, 0x0807060504030201ULL);
  check_eval ("swapwl", 0x12345678, 0, 0x56781234);
  check_eval ("swaplq", 0x1122334455667788ULL, 0, 0x5566778811223344ULL);

  check_eval ("select0wb", 0x1234, 0, 0x34);
  check_eval ("select1wb", 0x1234, 0, 0x12);
  check_eval ("select0lw", 0x12345678, 0, 0x5678);
  check_eval ("select1lw", 0x12345678, 0, 0x1234);
  check_eval ("select0ql", 0x1122334455667788ULL, 0, 0x55667788);
  check_eval ("select1ql", 0x1122334455667788ULL, 0, 0x11223344);

  check_eval ("mergebw", 0x12, 0x34, 0x3412);
  check_eval ("mergewl", 0x1234, 0x5678, 0x56781234);
  check_eval ("mergelq", 0x11223344, 0x55667788, 0x5566778811223344ULL);

  /* dst[0] = high half, dst[1] = low half */
  check_split ("splitwb", 0x1234, 0x12, 0x34);
  check_split ("splitlw", 0x12345678, 0x1234, 0x5678);
  check_split ("splitql", 0x1122334455667788ULL, 0x11223344, 0x55667788);
}

static void
test_accumulators (void)
{
  check_acc ("accw", 0xffff, 0x0002, 0, 0x0001);
  check_acc ("accw", 0x0010, 0xfff0, 0, 0x0000);
  check_acc ("accl", 0xffffffff, 0x00000001, 0, 0x00000000);
  check_acc ("accl", 100, 23, 0, 123);
  check_acc ("accsadubl", 10, 3, 250, 257);             /* |3 - 250| = 247 */
  check_acc ("accsadubl", 10, 250, 3, 257);
  check_acc ("accsadubl", 0xffffffff, 1, 0, 0);

  {
    uint64_t src[3] = { 1, 2, 3 }, out = 0;
    check_int ("ref_accumulate(addb) rejected", ref_accumulate ("addb", 0, src, &out), -1);
    check_int ("ref_accumulate(accq) rejected", ref_accumulate ("accq", 0, src, &out), -1);
  }
}

static void
test_loads (void)
{
  /* byte array; index:             0   1   2   3    4   5  6  7 */
  static const uint8_t bytes[8] = { 10, 20, 30, 40, 250, 0, 7, 9 };
  static const uint16_t words[3] = { 0x1111, 0x2222, 0x3333 };
  static const uint32_t longs[3] = { 0x04030201, 0x40302010, 0xdeadbeef };
  static const uint64_t quads[2] = { 0x0102030405060708ULL, 0x1112131415161718ULL };
  int ok = -1;
  long lo = 0, hi = 0;

  check_load ("loadb", bytes, 2, 0, 0, 30, 2, 2);
  check_load ("loadw", words, 1, 0, 0, 0x2222, 1, 1);
  check_load ("loadl", longs, 2, 0, 0, 0xdeadbeef, 2, 2);
  check_load ("loadq", quads, 1, 0, 0, 0x1112131415161718ULL, 1, 1);

  check_load ("loadoffb", bytes, 1, 2, 0, 40, 3, 3);
  check_load ("loadoffb", bytes, 3, -3, 0, 10, 0, 0);
  check_load ("loadoffw", words, 0, 2, 0, 0x3333, 2, 2);
  check_load ("loadoffl", longs, 2, -1, 0, 0x40302010, 1, 1);

  check_load ("loadupdb", bytes, 3, 0, 0, 20, 1, 1);
  check_load ("loadupdb", bytes, 4, 0, 0, 30, 2, 2);
  check_load ("loadupib", bytes, 2, 0, 0, 20, 1, 1);    /* even: array[1] */
  check_load ("loadupib", bytes, 3, 0, 0, 25, 1, 2);    /* (20 + 30 + 1) >> 1 */
  check_load ("loadupib", bytes, 7, 0, 0, 145, 3, 4);   /* (40 + 250 + 1) >> 1 */

  /* 16.16 fixed point positions */
  check_load ("ldresnearb", bytes, 2, 0x8000, 0x10000, 30, 2, 2);       /* x = 2.5 */
  check_load ("ldresnearb", bytes, 3, 0, 0x8000, 20, 1, 1);             /* x = 1.5 */
  check_load ("ldresnearl", longs, 1, 0xffff, 0x10000, 0x40302010, 1, 1);       /* x = 1.99998 */
  check_load ("ldresnearl", longs, 1, 0x10000, 0x10000, 0xdeadbeef, 2, 2);

  check_load ("ldreslinb", bytes, 1, 0, 0x4000, 12, 0, 1);      /* f = 64:  (10*192 + 20*64) >> 8 = 3200 >> 8 */
  check_load ("ldreslinb", bytes, 3, 0, 0x4000, 17, 0, 1);      /* f = 192: (10*64 + 20*192) >> 8 = 4480 >> 8 */
  check_load ("ldreslinb", bytes, 4, 0, 0x4000, 20, 1, 2);      /* f = 0: array[1] */
  check_load ("ldreslinb", bytes, 0, 0x38000, 0, 145, 3, 4);    /* f = 128: (40*128 + 250*128) >> 8 = 37120 >> 8 */
  check_load ("ldreslinb", bytes, 0, 0x3ff00, 0, 249, 3, 4);    /* f = 255: (40*1 + 250*255) >> 8 = 63790 >> 8 */
  /* per byte, f = 128: (1+16)*128>>8 = 8, (2+32)*128>>8 = 17, (3+48)*128>>8 = 25, (4+64)*128>>8 = 34 */
  check_load ("ldreslinl", longs, 0, 0x8000, 0, 0x22191108, 0, 1);
  check_load ("ldreslinl", longs, 1, 0, 0x10000, 0x40302010, 1, 2);     /* f = 0 */

  /* negative positions round towards minus infinity (range only, nothing is read) */
  ref_load_range ("ldresnearb", 0, -1, 0, &lo, &hi);
  check_int ("ldresnearb x=-1 lo", lo, -1);
  check_int ("ldresnearb x=-1 hi", hi, -1);
  ref_load_range ("ldreslinb", 2, -0x10000, 0x4000, &lo, &hi);  /* x = -0.5 */
  check_int ("ldreslinb x=-0.5 lo", lo, -1);
  check_int ("ldreslinb x=-0.5 hi", hi, 0);

  /* not loads */
  check_int ("ref_load(addb) value", (long) ref_load ("addb", bytes, 0, 0, 0, &ok), 0);
  check_int ("ref_load(addb) ok", ok, 0);
  ok = -1;
  (void) ref_load ("loadpb", bytes, 0, 0, 0, &ok);
  check_int ("ref_load(loadpb) ok", ok, 0);
  ref_load_range ("storeb", 5, 0, 0, &lo, &hi);
  check_int ("ref_load_range(storeb) lo", lo, 0);
  check_int ("ref_load_range(storeb) hi", hi, -1);
}

/* names ref_eval must not accept */
static void
test_rejections (void)
{
  static const char *const names[] = {
    "", "foo", "add", "b", "addf", "addd", "subf", "orf", "andf", "minf", "maxd", "cmpeqf", "cmpeqd",
    "convfl", "convlf", "convdl", "convld", "convfd", "convdf", "convwf", "sqrtf",
    "loadb", "loadpb", "loadoffw", "ldresnearl", "ldreslinb", "storeb", "storeq",
    "accw", "accl", "accsadubl",
    /* plausible but undocumented size variants */
    "absq", "addssq", "avgsq", "mullq", "mulhsq", "signq", "minsq", "div255b", "divlul",
    "convsbl", "convswb", "convhql", "splatbq", "swapb", "swapbw", "select0bw", "mergeql", "splitbw",
    "addbb", "addbw",
  };
  unsigned k;

  for (k = 0; k < sizeof names / sizeof names[0]; k++)
    check_not_eval (names[k]);
}

/* Every documented opcode is handled by exactly one of the three evaluators,
 * except loadp*, store* and the float/double opcodes; results never exceed
 * the documented destination size; nothing undocumented hides in the table. */
static void
test_documentation_table (void)
{
  static const char *const unimplemented[] = {
    "loadpb", "loadpw", "loadpl", "loadpq", "storeb", "storew", "storel", "storeq",
    "addf", "subf", "mulf", "divf", "sqrtf", "maxf", "minf", "cmpeqf", "cmpltf", "cmplef", "convfl", "convlf",
    "addd", "subd", "muld", "divd", "sqrtd", "maxd", "mind", "cmpeqd", "cmpltd", "cmpled",
    "convdl", "convld", "convfd", "convdf", "orf", "andf", "convwf",
  };
  const int n_unimplemented = (int) (sizeof unimplemented / sizeof unimplemented[0]);
  int d, s1, s2, sc, i, k;
  int n_eval = 0, n_acc = 0, n_load = 0, n_none = 0;

  check_int ("ref_doc_count", ref_doc_count (), 197);
  check_int ("ref_doc_name(0) is absb", strcmp (ref_doc_name (0), "absb"), 0);
  check_int ("ref_doc_name(196) is convwf", strcmp (ref_doc_name (196), "convwf"), 0);
  check_int ("ref_doc_name(197) is NULL", ref_doc_name (197) == NULL, 1);
  check_int ("ref_doc_name(-1) is NULL", ref_doc_name (-1) == NULL, 1);
  check_int ("ref_doc_sizes(foo)", ref_doc_sizes ("foo", &d, &s1, &s2, &sc), -1);

  check_int ("ref_doc_sizes(addb)", ref_doc_sizes ("addb", &d, &s1, &s2, &sc), 0);
  check_int ("addb sizes", d * 1000 + s1 * 100 + s2 * 10 + sc, 1110);
  check_int ("ref_doc_sizes(shlw)", ref_doc_sizes ("shlw", &d, &s1, &s2, &sc), 0);
  check_int ("shlw sizes", d * 1000 + s1 * 100 + s2 * 10 + sc, 2221);
  check_int ("ref_doc_sizes(loadoffb)", ref_doc_sizes ("loadoffb", &d, &s1, &s2, &sc), 0);
  check_int ("loadoffb sizes", d * 1000 + s1 * 100 + s2 * 10 + sc, 1141);
  check_int ("ref_doc_sizes(convsbw)", ref_doc_sizes ("convsbw", &d, &s1, &s2, &sc), 0);
  check_int ("convsbw sizes", d * 1000 + s1 * 100 + s2 * 10 + sc, 2100);
  check_int ("ref_doc_sizes(accsadubl)", ref_doc_sizes ("accsadubl", &d, &s1, &s2, &sc), 0);
  check_int ("accsadubl sizes", d * 1000 + s1 * 100 + s2 * 10 + sc, 4110);
  check_int ("ref_doc_sizes(mulslq)", ref_doc_sizes ("mulslq", &d, &s1, &s2, &sc), 0);
  check_int ("mulslq sizes", d * 1000 + s1 * 100 + s2 * 10 + sc, 8440);
  check_int ("ref_doc_sizes(shruq)", ref_doc_sizes ("shruq", &d, &s1, &s2, &sc), 0);
  check_int ("shruq sizes", d * 1000 + s1 * 100 + s2 * 10 + sc, 8881);
  check_int ("ref_doc_sizes(NULL outputs)", ref_doc_sizes ("splitql", NULL, NULL, NULL, NULL), 0);

  for (i = 0; i < ref_doc_count (); i++) {
    const char *name = ref_doc_name (i);
    const uint64_t ones[3] = { UINT64_MAX, UINT64_MAX, UINT64_MAX };
    uint64_t dst[2] = { 0, 0 }, acc = 0;
    unsigned char dummy[16] = { 0 };
    int is_eval, is_acc, is_load = 0, listed = 0;
    char what[64];

    ref_doc_sizes (name, &d, &s1, &s2, &sc);
    is_eval = ref_eval (name, ones, dst) == 0;
    is_acc = ref_accumulate (name, UINT64_MAX, ones, &acc) == 0;
    (void) ref_load (name, dummy, 0, 0, 0, &is_load);
    for (k = 0; k < n_unimplemented; k++)
      listed |= strcmp (name, unimplemented[k]) == 0;

    n_eval += is_eval;
    n_acc += is_acc;
    n_load += is_load;
    n_none += !(is_eval || is_acc || is_load);

    snprintf (what, sizeof what, "%s: handled by exactly one evaluator xor unimplemented", name);
    check_int (what, is_eval + is_acc + is_load + listed, 1);

    if (is_eval && d < 8) {
      snprintf (what, sizeof what, "%s: result truncated to %d bytes", name, d);
      check_int (what, (dst[0] >> (8 * d)) == 0 && (dst[1] >> (8 * d)) == 0, 1);
    }
    if (is_acc) {
      snprintf (what, sizeof what, "%s: accumulator truncated to %d bytes", name, d);
      check_int (what, (acc >> (8 * d)) == 0, 1);
    }
  }
  check_int ("number of accumulator opcodes", n_acc, 3);
  check_int ("number of load opcodes", n_load, 13);
  check_int ("number of unimplemented opcodes", n_none, n_unimplemented);
  check_int ("number of element-wise opcodes", n_eval, 197 - 3 - 13 - n_unimplemented);
}

int
main (void)
{
  test_arithmetic ();
  test_logic_compare_shift ();
  test_multiply_divide ();
  test_conversions ();
  test_shuffles ();
  test_accumulators ();
  test_loads ();
  test_rejections ();
  test_documentation_table ();

  if (n_failures) {
    printf ("refsem selftest FAILED: %d of %d checks\n", n_failures, n_checks);
    return 1;
  }
  printf ("%d checks passed\n", n_checks);
  printf ("refsem selftest ok\n");
  return 0;
}
