/* Program IR (ProgSpec), total decoder choice-stream -> well-typed program,
 * run configurations, array arena and the native/emulation runner shared by
 * the property harnesses. */
#ifndef VERIF_PROG_H
#define VERIF_PROG_H

#include "vcase.h"
#include <orc/orc.h>

#ifdef __cplusplus
extern "C" {
#endif

/* ---- /verif's own opcode table (transcribed; cross-checked against the library and
 * doc/opcode_table.xml by C02) ---- */
enum {
  VOP_ACC = 1, VOP_FSRC = 2, VOP_FDEST = 4, VOP_SCALAR = 8, VOP_LOAD = 16, VOP_STORE = 32,
  VOP_INVARIANT = 64, VOP_ITER = 128, VOP_COPY = 256
};
typedef struct {
  const char *name;
  unsigned flags;
  int dsz[2];
  int ssz[3];
} VOp;
extern const VOp v_optab[];
extern const int v_noptab;
const VOp *v_op_find (const char *name);

enum { VK_DEST, VK_SRC, VK_ACC, VK_CONST, VK_PARAM, VK_TEMP, VK_NKINDS };
enum { PT_INT, PT_FLOAT, PT_INT64, PT_DOUBLE };
enum { ROLE_ANY = 0, ROLE_SHIFT, ROLE_OFFSET, ROLE_RES_B, ROLE_RES_C };

#define PS_MAXVARS 80
#define PS_MAXINS 200

typedef struct {
  int kind, size, align, ptype;
  uint64_t cval;            /* constants */
  char name[16];
  char type_name[16];
  int orcvar;               /* filled by ps_build */
  /* generator bookkeeping */
  int role, role_max;       /* dedicated scalar operands: value range [role_min, role_max] */
  int role_min;
  int written;              /* dest/temp has been written */
  /* entitlement model for arrays */
  int noff, off_vars[6];    /* loadoff: scalar operands used as element offsets */
  int up;                   /* loadupdb/loadupib used on it */
  int up_interp;            /* ... loadupib (reads (i>>1)+1 for odd i) */
  int plain;                /* read by an ordinary access of elements 0..n-1 */
  int res_b, res_c;         /* ldres*: var indices of b and c operands of the LAST such access (-1 none) */
  int nres, res_bv[4], res_cv[4];   /* every ldres* access of this array (an array may be resampled twice) */
  int res_lin;
  int read, wrote_mem;
  int ro_dest;              /* a destination array that load instructions read and nothing writes */
  int use_lsize, use_mult;  /* first use of a constant/parameter: lane size and prefix multiplier */
} PVar;

typedef struct {
  const VOp *op;
  int flags;                /* ORC_INSTRUCTION_FLAG_X2 / X4 */
  int d[2];
  int s[3];
} PInsn;

typedef struct {
  char name[48];
  int is2d, const_n, n_mult, n_min, n_max, const_m;
  int nvars;
  PVar vars[PS_MAXVARS];
  int nins;
  PInsn ins[PS_MAXINS];
  int count[VK_NKINDS];
  int has_float, has_acc, has_x, has_inplace, has_special_load, has_64;
  int max_live_temps;
  int const_two_lanes;      /* a constant/parameter is used with two lane sizes of equal total size */
  int acc_nonarray;         /* an accumulating opcode reads something that is not a source array */
  int has_ro_dest;          /* a load reads an array declared as destination that is never written */
  int saturated;            /* the variable classes were filled up to the library's limits */
  int ldres_shared;         /* an array is read by ldres* and by another access */
} ProgSpec;

typedef struct {
  int max_insns;            /* 1..  */
  int allow_float;          /* 0 none, 1 mixed, 2 float-heavy */
  int allow_int;
  int allow_acc, allow_2d, allow_x, allow_special_loads, allow_explicit_ldst;
  int allow_flags;          /* constant n, n_multiple ... */
  int allow_align;          /* declared alignment > size */
  int allow_64;             /* 8-byte variables */
  int allow_params, allow_consts;
  int single_opcode;        /* >=0: build the one-instruction program for v_optab[single_opcode] */
  int single_form;          /* operand-kind form for single-opcode programs */
  const char *exclude_prefix;   /* v_excluded ("<prefix><opcode>") drops the opcode */
  int min_insns;                /* >0: aim for at least this many instructions */
  int saturate;                 /* k>0: one case in k fills every variable class up to the library's limit */
} GenOpts;
void gen_opts_default (GenOpts *o);

/* total decoder: every choice stream gives a well-typed program */
void ps_generate (VChoices *c, const GenOpts *o, ProgSpec *ps, VResult *r);
/* number of operand-kind/prefix forms of the single-opcode program */
int ps_single_forms (const VOp *op);
void ps_single (const VOp *op, int form, ProgSpec *ps);
void ps_print (const ProgSpec *ps, VResult *r);       /* .orc-like text into r->desc */
int ps_sprint_orc (const ProgSpec *ps, char *buf, size_t max);   /* valid .orc text */
uint64_t ps_hash (const ProgSpec *ps);
OrcProgram *ps_build (ProgSpec *ps);                  /* through the public API */
const char *ps_varname (const ProgSpec *ps, int v);
int ps_plain_ldst (const VOp *op);          /* loadX / storeX: may carry an x2/x4 prefix */

/* ---- run configuration ---- */
enum { FILL_RANDOM, FILL_BOUNDARY, FILL_ZERO, FILL_ONES, FILL_RAMP, FILL_MINMAX, FILL_SMALL,
       FILL_IDX_LO, FILL_IDX_HI, FILL_FLOATS, FILL_NKINDS };
enum { PLACE_FREE, PLACE_TRAIL, PLACE_LEAD };
typedef struct {
  int n, m;
  int placement;
  int gap_unmapped;         /* PLACE_*: rows on separate pages with unmapped gaps */
  struct {
    int misalign;           /* byte offset (multiple of the variable's alignment) */
    int extra_stride;       /* bytes added to the minimal stride (multiple of alignment) */
    int neg_stride;         /* 2-D: rows are laid out bottom-up, the stride handed to the program is negative */
    int fill;
    uint64_t seed;
  } a[PS_MAXVARS];
  uint64_t pval[PS_MAXVARS];
} RunCfg;

typedef struct { int n_max; int m_max; int big_n; int exhaustive_pairs; int placement_mask; int huge_n; } RunOpts;
void rc_generate (VChoices *c, const ProgSpec *ps, const RunOpts *o, RunCfg *rc);
void rc_print (const ProgSpec *ps, const RunCfg *rc, VResult *r);
uint64_t rc_hash (const RunCfg *rc, const ProgSpec *ps);
uint64_t v_boundary_value (int size, uint32_t k);
uint64_t v_value (int size, uint32_t choice);      /* boundary-biased value from one choice */

/* ---- arena: one mapping per array, guard pages, canaries ---- */
typedef struct {
  unsigned char *map; size_t map_len;
  unsigned char *base;          /* pointer handed to orc (row 0, element 0) */
  unsigned char *lo, *hi;       /* accessible canary-checked range [lo,hi) */
  int stride, size, kind;
  long ent_lo, ent_hi;          /* entitled element index range per row [ent_lo, ent_hi) */
  int rows;
} ArenaArr;
typedef struct { ArenaArr a[PS_MAXVARS]; const ProgSpec *ps; const RunCfg *rc; } Arena;
int arena_build (Arena *ar, const ProgSpec *ps, const RunCfg *rc, int protect_sources);
void arena_free (Arena *ar);
/* entitled range of array v for n elements */
void ps_entitlement (const ProgSpec *ps, const RunCfg *rc, int v, long *lo, long *hi);
int arena_find (const Arena *ar, const void *addr, char *buf, size_t max);

void exec_setup (OrcExecutor *ex, OrcProgram *p, OrcCode *code, const ProgSpec *ps, const RunCfg *rc, Arena *ar);

/* compare two arenas after running (x = path under test, e = reference path).
 * Returns 0 if equal; else writes a message. */
int arena_compare (const Arena *x, const Arena *e, const ProgSpec *ps, const RunCfg *rc,
    const OrcExecutor *exx, const OrcExecutor *exe, char *msg, size_t max);
/* check that everything outside the entitled destination elements is untouched */
int arena_check_untouched (const Arena *x, const ProgSpec *ps, const RunCfg *rc, char *msg, size_t max);

const char *v_result_name (OrcCompileResult r);

#ifdef __cplusplus
}
#endif
#endif
