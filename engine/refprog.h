/* Reference interpreter for whole generated programs, independent of Orc's emulator and back ends.
 *   integer opcodes, loads, accumulators : engine/refsem.c (written from the documentation)
 *   float / double opcodes               : host IEEE-754 arithmetic (round to nearest even) on explicitly flushed inputs,
 *                                          explicitly flushed outputs, as property C18 states them
 * Every value carries two taint masks so that a check never demands more than the properties state:
 *   must-be-NaN : the lane is the result of float arithmetic with a NaN involved; any NaN bit pattern is acceptable
 *   free        : the value is not pinned down (min/max of numerically equal operands, NaN converted to integer, integer
 *                 operations on NaN bit patterns, ...); nothing is checked
 */
#ifndef VERIF_REFPROG_H
#define VERIF_REFPROG_H
#include "prog.h"
#ifdef __cplusplus
extern "C" {
#endif

typedef struct {
  unsigned char *val[PS_MAXVARS];      /* per destination array: rows * n * size expected bytes */
  unsigned char *free_el[PS_MAXVARS];  /* per element: 1 = not checked */
  unsigned char *nan_el[PS_MAXVARS];   /* per element: lane width (4/8) whose lanes must be NaN where nan_mask says so */
  unsigned char *nan_mask[PS_MAXVARS]; /* per element: byte mask of the must-be-NaN lanes */
  unsigned char *thr_el[PS_MAXVARS];   /* per element: 1 = a result sat exactly on the smallest-normal threshold on the way */
  uint64_t acc[PS_MAXVARS];
  int acc_free[PS_MAXVARS];
  long n_elems, n_free, n_nan, n_special;  /* n_special: elements whose computation met a zero/denormal/inf/NaN/saturation/tie */
  long n_flushed, n_saturated, n_threshold;
  int unsupported;
  char why[160];
  int rows, n;
} RefOut;

/* pristine: an arena built from (ps, rc) that nothing has run on.  Returns 0, or -1 if the program uses something the
 * reference does not model (why filled). */
int refprog_run (const ProgSpec *ps, const RunCfg *rc, const Arena *pristine, RefOut *out);
void refprog_free (RefOut *out, const ProgSpec *ps);
/* compare what a path wrote (run arena + executor) with the reference.  0 equal under the rules; 1 mismatch (msg);
 * *threshold set if the mismatching element passed through a smallest-normal threshold result. */
int refprog_compare (const ProgSpec *ps, const RunCfg *rc, const RefOut *ref, const Arena *run, const OrcExecutor *ex,
    char *msg, size_t max, int *threshold);
/* compare two paths with each other wherever the reference pins the value down (used when only agreement is claimed) */
int refprog_diff (const ProgSpec *ps, const RunCfg *rc, const RefOut *ref, const Arena *x, const OrcExecutor *exx,
    const Arena *y, const OrcExecutor *exy, char *msg, size_t max, int *threshold);
int refprog_is_float_op (const VOp *op);

#ifdef __cplusplus
}
#endif
#endif
