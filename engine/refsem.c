/* refsem.c - independent reference semantics of the Orc "sys" integer opcodes.
 *
 * Source of truth: doc/opcode_table.xml (sizes, description, pseudo code),
 * doc/opcodes.xml (prose on select/merge/clamp/sign) and doc/tutorial.xml
 * (merge examples).  Nothing in here is derived from Orc's emulator, C back
 * end or test suite.  Where the pseudo code column is ambiguous or wrong the
 * comment of the family function says what was chosen and why.
 *
 * Structure: a few arithmetic helpers, ONE function per opcode family, and a
 * table that maps "stem + size suffix" to the family function.
 */
#include "refsem.h"

#include <string.h>

/* ------------------------------------------------------------------------ */
/* helpers                                                                  */
/* ------------------------------------------------------------------------ */

/* size in bytes of a size suffix letter, 0 if it is not one */
static int
suffix_size (char c)
{
  switch (c) {
    case 'b': return 1;
    case 'w': return 2;
    case 'l': return 4;
    case 'q': return 8;
    default:  return 0;
  }
}

static uint64_t
mask_of (int size)
{
  return size >= 8 ? UINT64_MAX : (((uint64_t) 1 << (8 * size)) - 1);
}

/* keep the low `size` bytes */
static uint64_t
zext (uint64_t v, int size)
{
  return v & mask_of (size);
}

/* interpret the low `size` bytes as a two's complement number */
static int64_t
sext (uint64_t v, int size)
{
  uint64_t m = mask_of (size);
  uint64_t sign = (uint64_t) 1 << (8 * size - 1);

  v &= m;
  if (v & sign)
    v |= ~m;
  return (int64_t) v;
}

static int64_t smax_of (int size) { return (int64_t) (mask_of (size) >> 1); }
static int64_t smin_of (int size) { return -smax_of (size) - 1; }

static int64_t
clamp (int64_t v, int64_t lo, int64_t hi)
{
  return v < lo ? lo : (v > hi ? hi : v);
}

/* arithmetic shift right = floor (v / 2^n), for any n >= 0, without relying
 * on the implementation-defined behaviour of >> on negative values */
static int64_t
asr (int64_t v, uint64_t n)
{
  if (n > 63)
    n = 63;
  if (v >= 0)
    return v >> n;
  return ~((~v) >> n);          /* ~v = -1 - v is non-negative */
}

/* ------------------------------------------------------------------------ */
/* element-wise families                                                    */
/* All have the same signature: `stem` is the opcode name without its size  */
/* suffix, ssize/dsize the source and destination sizes in bytes.           */
/* ------------------------------------------------------------------------ */

#define FAMILY_ARGS const char *stem, int ssize, int dsize, const uint64_t src[3], uint64_t dst[2]
#define IS(s) (strcmp (stem, (s)) == 0)

/* add*, sub*: a + b, a - b, wrap-around */
static void
eval_addsub (FAMILY_ARGS)
{
  uint64_t a = zext (src[0], ssize), b = zext (src[1], ssize);

  dst[0] = zext (IS ("add") ? a + b : a - b, dsize);
}

/* addss*, addus*, subss*, subus*: clamp(a +- b).
 * "ss" = operands and destination range signed, "us" = both unsigned. */
static void
eval_addsub_saturate (FAMILY_ARGS)
{
  int64_t sa = sext (src[0], ssize), sb = sext (src[1], ssize);
  int64_t ua = (int64_t) zext (src[0], ssize), ub = (int64_t) zext (src[1], ssize);
  int64_t smin = smin_of (dsize), smax = smax_of (dsize);
  int64_t umax = (int64_t) mask_of (dsize);       /* sizes are 1, 2, 4 only */
  int64_t r;

  if (IS ("addss"))
    r = clamp (sa + sb, smin, smax);
  else if (IS ("subss"))
    r = clamp (sa - sb, smin, smax);
  else if (IS ("addus"))
    r = clamp (ua + ub, 0, umax);
  else                          /* subus */
    r = clamp (ua - ub, 0, umax);
  dst[0] = zext ((uint64_t) r, dsize);
}

/* and*, andn*, or*, xor*.
 * andn: the pseudo code column says "a & (~b)", but the description is just
 * "bitwise AND NOT" and the C target (which doc/opcodes.xml names as the
 * precise definition) complements the FIRST operand: (~a) & b. */
static void
eval_bitwise (FAMILY_ARGS)
{
  uint64_t a = zext (src[0], ssize), b = zext (src[1], ssize);
  uint64_t r;

  if (IS ("and"))
    r = a & b;
  else if (IS ("andn"))
    r = (~a) & b;
  else if (IS ("or"))
    r = a | b;
  else                          /* xor */
    r = a ^ b;
  dst[0] = zext (r, dsize);
}

/* avgs*, avgu*: (a + b + 1) >> 1, the sum computed without overflow;
 * the signed variant rounds towards minus infinity (arithmetic shift). */
static void
eval_average (FAMILY_ARGS)
{
  uint64_t r;

  if (IS ("avgs"))
    r = (uint64_t) asr (sext (src[0], ssize) + sext (src[1], ssize) + 1, 1);
  else                          /* avgu; sizes are 1, 2, 4 so no overflow in 64 bits */
    r = (zext (src[0], ssize) + zext (src[1], ssize) + 1) >> 1;
  dst[0] = zext (r, dsize);
}

/* cmpeq*, cmpgts*: all ones if true, 0 if false; cmpgts compares signed */
static void
eval_compare (FAMILY_ARGS)
{
  int t;

  if (IS ("cmpeq"))
    t = zext (src[0], ssize) == zext (src[1], ssize);
  else                          /* cmpgts */
    t = sext (src[0], ssize) > sext (src[1], ssize);
  dst[0] = t ? mask_of (dsize) : 0;
}

/* copy*: a */
static void
eval_copy (FAMILY_ARGS)
{
  (void) stem;
  dst[0] = zext (zext (src[0], ssize), dsize);
}

/* maxs*, maxu*, mins*, minu* */
static void
eval_minmax (FAMILY_ARGS)
{
  uint64_t a = zext (src[0], ssize), b = zext (src[1], ssize);
  int is_signed = stem[3] == 's';
  int is_max = stem[1] == 'a';
  int a_greater = is_signed ? sext (a, ssize) > sext (b, ssize) : a > b;

  dst[0] = zext ((is_max == a_greater) ? a : b, dsize);
}

/* mull*: low half of a * b (signedness irrelevant)
 * mulhs*, mulhu*: high half of the signed / unsigned double-width product,
 * i.e. product >> (8 * size).  The table's ">> 16" for mulhsl/mulhul
 * contradicts the description "high bits of ... multiply" and is a copy of
 * the w row; the high half of a 32x32 product is >> 32. */
static void
eval_multiply (FAMILY_ARGS)
{
  uint64_t r;

  if (IS ("mull"))
    r = zext (src[0], ssize) * zext (src[1], ssize);
  else if (IS ("mulhs"))        /* sizes 1, 2, 4: the product fits in int64_t */
    r = (uint64_t) asr (sext (src[0], ssize) * sext (src[1], ssize), 8 * ssize);
  else                          /* mulhu */
    r = (zext (src[0], ssize) * zext (src[1], ssize)) >> (8 * ssize);
  dst[0] = zext (r, dsize);
}

/* mulsbw, mulubw, mulswl, muluwl, mulslq, mululq: full double-width product */
static void
eval_multiply_widen (FAMILY_ARGS)
{
  uint64_t r;

  if (IS ("muls"))
    r = (uint64_t) (sext (src[0], ssize) * sext (src[1], ssize));
  else                          /* mulu */
    r = zext (src[0], ssize) * zext (src[1], ssize);
  dst[0] = zext (r, dsize);
}

/* shl*, shru*: logical shifts; shrs*: arithmetic shift.  The count is the
 * second operand.  Callers keep it in 0..width-1; larger counts (which the
 * documentation does not define) get the mathematical result: 0, or the sign
 * fill for shrs. */
static void
eval_shift (FAMILY_ARGS)
{
  uint64_t a = zext (src[0], ssize);
  uint64_t n = zext (src[1], ssize);
  uint64_t width = 8 * (uint64_t) ssize;
  uint64_t r;

  if (IS ("shrs"))
    r = (uint64_t) asr (sext (a, ssize), n);
  else if (n >= width)
    r = 0;
  else if (IS ("shl"))
    r = a << n;
  else                          /* shru */
    r = a >> n;
  dst[0] = zext (r, dsize);
}

/* sign*: -1, 0, 1 */
static void
eval_sign (FAMILY_ARGS)
{
  int64_t a = sext (src[0], ssize);

  (void) stem;
  dst[0] = zext ((uint64_t) (int64_t) (a < 0 ? -1 : (a > 0 ? 1 : 0)), dsize);
}

/* abs*: (a < 0) ? -a : a with wrap-around, so the most negative value maps to itself */
static void
eval_abs (FAMILY_ARGS)
{
  int64_t a = sext (src[0], ssize);     /* sizes 1, 2, 4: -a cannot overflow */

  (void) stem;
  dst[0] = zext ((uint64_t) (a < 0 ? -a : a), dsize);
}

/* div255w: a / 255, a taken as unsigned 16 bit
 * divluw: "saturated unsigned divide 16-bit by 8-bit": clamp(a / (b & 255), 0, 255);
 *         the documentation does not define division by zero, the saturated
 *         limit 255 is used. */
static void
eval_divide (FAMILY_ARGS)
{
  uint64_t a = zext (src[0], ssize);
  uint64_t r;

  if (IS ("div255")) {
    r = a / 255;
  } else {                      /* divlu */
    uint64_t divisor = zext (src[1], ssize) & 0xff;
    r = divisor == 0 ? 255 : a / divisor;
    if (r > 255)
      r = 255;
  }
  dst[0] = zext (r, dsize);
}

/* convsbw/convswl/convslq: sign-extend; convubw/convuwl/convulq: zero-extend */
static void
eval_convert_extend (FAMILY_ARGS)
{
  if (IS ("convs"))
    dst[0] = zext ((uint64_t) sext (src[0], ssize), dsize);
  else                          /* convu */
    dst[0] = zext (zext (src[0], ssize), dsize);
}

/* convwb/convlw/convql: truncate; convhwb/convhlw: a >> (half the source width) */
static void
eval_convert_narrow (FAMILY_ARGS)
{
  uint64_t a = zext (src[0], ssize);

  if (IS ("convh"))
    a >>= 8 * dsize;
  dst[0] = zext (a, dsize);
}

/* conv{ss,su,us,uu}s{wb,lw,ql}: clamp(a) to the destination range.
 * First letter after "conv": signedness of the source, second letter:
 * signedness of the destination range, third letter: "saturate". */
static void
eval_convert_saturate (FAMILY_ARGS)
{
  int src_signed = stem[4] == 's';
  int dst_signed = stem[5] == 's';
  uint64_t hi = dst_signed ? (uint64_t) smax_of (dsize) : mask_of (dsize);
  uint64_t r;

  if (src_signed) {
    int64_t lo = dst_signed ? smin_of (dsize) : 0;      /* dsize <= 4: hi fits in int64_t */
    r = (uint64_t) clamp (sext (src[0], ssize), lo, (int64_t) hi);
  } else {                      /* an unsigned value can only exceed the upper limit */
    uint64_t a = zext (src[0], ssize);
    r = a > hi ? hi : a;
  }
  dst[0] = zext (r, dsize);
}

/* splatbw, splatbl: the byte replicated into every byte of the destination
 * splatw3q: "duplicates high 16-bits to lower 48 bits": word 3 (the most
 *           significant one) replicated into all four words */
static void
eval_splat (FAMILY_ARGS)
{
  if (IS ("splatw3"))
    dst[0] = (zext (src[0], ssize) >> 48) * UINT64_C (0x0001000100010001);
  else                          /* splat + bw / bl */
    dst[0] = zext (zext (src[0], ssize) * UINT64_C (0x0101010101010101), dsize);
}

/* swapw, swapl, swapq: reverse the bytes of the value */
static void
eval_swap_bytes (FAMILY_ARGS)
{
  uint64_t a = zext (src[0], ssize);
  uint64_t r = 0;
  int k;

  (void) stem;
  for (k = 0; k < ssize; k++)
    r |= ((a >> (8 * k)) & 0xff) << (8 * (ssize - 1 - k));
  dst[0] = zext (r, dsize);
}

/* swapwl: exchange the two 16 bit words of a 32 bit value
 * swaplq: exchange the two 32 bit long words of a 64 bit value
 * (parsed as stem "swapw" + "l", "swapl" + "q": ssize = dsize = full width) */
static void
eval_swap_halves (FAMILY_ARGS)
{
  uint64_t a = zext (src[0], ssize);
  int half = 4 * ssize;         /* bits */

  (void) stem;
  dst[0] = zext ((a >> half) | (a << half), dsize);
}

/* select0*: the half that is first in memory order = low half (little endian);
 * select1*: the latter half = high half */
static void
eval_select (FAMILY_ARGS)
{
  uint64_t a = zext (src[0], ssize);

  if (IS ("select1"))
    a >>= 8 * dsize;
  dst[0] = zext (a, dsize);
}

/* merge*: "take two values and put them together in memory order":
 * first source = first in memory = low half, second source = high half */
static void
eval_merge (FAMILY_ARGS)
{
  (void) stem;
  dst[0] = zext (zext (src[0], ssize) | (zext (src[1], ssize) << (8 * ssize)), dsize);
}

/* split*: two destinations of half the source size.  The documentation only
 * says "split first/second ..." and neither names the destination order nor
 * lists the second destination; by decision of the test design
 * dst[0] = HIGH half (second in memory), dst[1] = LOW half (first in memory). */
static void
eval_split (FAMILY_ARGS)
{
  uint64_t a = zext (src[0], ssize);

  (void) stem;
  dst[0] = zext (a >> (8 * dsize), dsize);
  dst[1] = zext (a, dsize);
}

#undef IS

/* ------------------------------------------------------------------------ */
/* dispatch                                                                 */
/* ------------------------------------------------------------------------ */

typedef void (*family_fn) (FAMILY_ARGS);

struct family
{
  const char *stem;             /* opcode name without the size suffix */
  const char *suffixes;         /* space separated documented suffixes: "x" = source and
                                 * destination of size x, "xy" = source x, destination y */
  family_fn fn;
};

static const struct family families[] = {
  { "add",     "b w l q",  eval_addsub },
  { "sub",     "b w l q",  eval_addsub },
  { "addss",   "b w l",    eval_addsub_saturate },
  { "addus",   "b w l",    eval_addsub_saturate },
  { "subss",   "b w l",    eval_addsub_saturate },
  { "subus",   "b w l",    eval_addsub_saturate },
  { "and",     "b w l q",  eval_bitwise },
  { "andn",    "b w l q",  eval_bitwise },
  { "or",      "b w l q",  eval_bitwise },
  { "xor",     "b w l q",  eval_bitwise },
  { "avgs",    "b w l",    eval_average },
  { "avgu",    "b w l",    eval_average },
  { "cmpeq",   "b w l q",  eval_compare },
  { "cmpgts",  "b w l q",  eval_compare },
  { "copy",    "b w l q",  eval_copy },
  { "maxs",    "b w l",    eval_minmax },
  { "maxu",    "b w l",    eval_minmax },
  { "mins",    "b w l",    eval_minmax },
  { "minu",    "b w l",    eval_minmax },
  { "mull",    "b w l",    eval_multiply },
  { "mulhs",   "b w l",    eval_multiply },
  { "mulhu",   "b w l",    eval_multiply },
  { "muls",    "bw wl lq", eval_multiply_widen },
  { "mulu",    "bw wl lq", eval_multiply_widen },
  { "shl",     "b w l q",  eval_shift },
  { "shrs",    "b w l q",  eval_shift },
  { "shru",    "b w l q",  eval_shift },
  { "sign",    "b w l",    eval_sign },
  { "abs",     "b w l",    eval_abs },
  { "div255",  "w",        eval_divide },
  { "divlu",   "w",        eval_divide },
  { "convs",   "bw wl lq", eval_convert_extend },
  { "convu",   "bw wl lq", eval_convert_extend },
  { "conv",    "wb lw ql", eval_convert_narrow },
  { "convh",   "wb lw",    eval_convert_narrow },
  { "convsss", "wb lw ql", eval_convert_saturate },
  { "convsus", "wb lw ql", eval_convert_saturate },
  { "convuss", "wb lw ql", eval_convert_saturate },
  { "convuus", "wb lw ql", eval_convert_saturate },
  { "splat",   "bw bl",    eval_splat },
  { "splatw3", "q",        eval_splat },
  { "swap",    "w l q",    eval_swap_bytes },
  { "swapw",   "l",        eval_swap_halves },    /* swapwl */
  { "swapl",   "q",        eval_swap_halves },    /* swaplq */
  { "select0", "wb lw ql", eval_select },
  { "select1", "wb lw ql", eval_select },
  { "merge",   "bw wl lq", eval_merge },
  { "split",   "wb lw ql", eval_split },
};

#define N_FAMILIES ((int) (sizeof (families) / sizeof (families[0])))

/* is `suffix` (length len) one of the space separated words of `list`? */
static int
suffix_listed (const char *list, const char *suffix, size_t len)
{
  const char *p = list;

  while (*p) {
    const char *end = strchr (p, ' ');
    size_t n = end ? (size_t) (end - p) : strlen (p);

    if (n == len && strncmp (p, suffix, len) == 0)
      return 1;
    p += n;
    while (*p == ' ')
      p++;
  }
  return 0;
}

int
ref_eval (const char *name, const uint64_t src[3], uint64_t dst[2])
{
  size_t name_len;
  int k;

  if (name == NULL)
    return -1;
  name_len = strlen (name);

  for (k = 0; k < N_FAMILIES; k++) {
    const struct family *f = &families[k];
    size_t stem_len = strlen (f->stem);
    size_t suffix_len;
    const char *suffix;

    if (name_len <= stem_len || strncmp (name, f->stem, stem_len) != 0)
      continue;
    suffix = name + stem_len;
    suffix_len = name_len - stem_len;
    if (suffix_len > 2 || !suffix_listed (f->suffixes, suffix, suffix_len))
      continue;

    /* one letter: both sizes; two letters: source size then destination size */
    f->fn (f->stem, suffix_size (suffix[0]), suffix_size (suffix[suffix_len - 1]), src, dst);
    return 0;
  }
  return -1;
}

/* ------------------------------------------------------------------------ */
/* accumulators                                                             */
/* ------------------------------------------------------------------------ */

/* accw, accl: += a;  accsadubl: += abs(a - b) on unsigned bytes.
 * The accumulator wraps at its own size (2 for accw, 4 for accl/accsadubl). */
int
ref_accumulate (const char *name, uint64_t acc, const uint64_t src[3], uint64_t *acc_out)
{
  if (name == NULL)
    return -1;
  if (strcmp (name, "accw") == 0) {
    *acc_out = zext (zext (acc, 2) + zext (src[0], 2), 2);
  } else if (strcmp (name, "accl") == 0) {
    *acc_out = zext (zext (acc, 4) + zext (src[0], 4), 4);
  } else if (strcmp (name, "accsadubl") == 0) {
    uint64_t a = zext (src[0], 1), b = zext (src[1], 1);
    *acc_out = zext (zext (acc, 4) + (a > b ? a - b : b - a), 4);
  } else {
    return -1;
  }
  return 0;
}

/* ------------------------------------------------------------------------ */
/* loads                                                                    */
/* ------------------------------------------------------------------------ */

enum load_kind
{
  LOAD_PLAIN,                   /* array[i] */
  LOAD_OFFSET,                  /* array[i + offset] */
  LOAD_UP_DUPLICATE,            /* array[i >> 1] */
  LOAD_UP_INTERPOLATE,          /* (array[i >> 1] + array[(i + 1) >> 1] + 1) >> 1 */
  LOAD_RESAMPLE_NEAREST,        /* array[(b + c*i) >> 16] */
  LOAD_RESAMPLE_LINEAR          /* blend of array[x >> 16] and its successor */
};

struct load_op
{
  const char *name;
  int size;                     /* element size in bytes */
  enum load_kind kind;
};

static const struct load_op load_ops[] = {
  { "loadb",      1, LOAD_PLAIN },
  { "loadw",      2, LOAD_PLAIN },
  { "loadl",      4, LOAD_PLAIN },
  { "loadq",      8, LOAD_PLAIN },
  { "loadoffb",   1, LOAD_OFFSET },
  { "loadoffw",   2, LOAD_OFFSET },
  { "loadoffl",   4, LOAD_OFFSET },
  { "loadupdb",   1, LOAD_UP_DUPLICATE },
  { "loadupib",   1, LOAD_UP_INTERPOLATE },
  { "ldresnearb", 1, LOAD_RESAMPLE_NEAREST },
  { "ldresnearl", 4, LOAD_RESAMPLE_NEAREST },
  { "ldreslinb",  1, LOAD_RESAMPLE_LINEAR },
  { "ldreslinl",  4, LOAD_RESAMPLE_LINEAR },
};

#define N_LOAD_OPS ((int) (sizeof (load_ops) / sizeof (load_ops[0])))

static const struct load_op *
find_load_op (const char *name)
{
  int k;

  if (name == NULL)
    return NULL;
  for (k = 0; k < N_LOAD_OPS; k++)
    if (strcmp (name, load_ops[k].name) == 0)
      return &load_ops[k];
  return NULL;
}

/* resampling position of element i in 16.16 fixed point: b + c*i, computed
 * exactly (no 32 bit wrap-around; the documentation gives no width).
 * NOTE: the table's pseudo code says ">> 8" for ldresnear*; the integer part
 * of a 16.16 position is ">> 16", and bits 8..15 are the blend factor of
 * ldreslin* (256 steps). */
static int64_t
resample_position (long i, int32_t b, int32_t c)
{
  return (int64_t) b + (int64_t) c * (int64_t) i;
}

/* The elements a load touches are always `first` and, for the interpolating
 * loads, `second` (== first when only one element is read). */
static void
load_indices (const struct load_op *op, long i, int32_t p1, int32_t p2,
    int64_t * first, int64_t * second)
{
  switch (op->kind) {
    case LOAD_PLAIN:
      *first = *second = i;
      break;
    case LOAD_OFFSET:
      *first = *second = (int64_t) i + p1;
      break;
    case LOAD_UP_DUPLICATE:
      *first = *second = asr (i, 1);
      break;
    case LOAD_UP_INTERPOLATE:
      /* (i + 1) >> 1 is i >> 1 for even i and (i >> 1) + 1 for odd i */
      *first = asr (i, 1);
      *second = asr ((int64_t) i + 1, 1);
      break;
    case LOAD_RESAMPLE_NEAREST:
      *first = *second = asr (resample_position (i, p1, p2), 16);
      break;
    case LOAD_RESAMPLE_LINEAR:
      *first = asr (resample_position (i, p1, p2), 16);
      *second = *first + 1;
      break;
  }
}

/* array[index] for elements of `size` bytes, host byte order */
static uint64_t
fetch (const unsigned char *base, int64_t index, int size)
{
  const unsigned char *p = base + index * size;
  uint8_t v1;
  uint16_t v2;
  uint32_t v4;
  uint64_t v8;

  switch (size) {
    case 1: memcpy (&v1, p, 1); return v1;
    case 2: memcpy (&v2, p, 2); return v2;
    case 4: memcpy (&v4, p, 4); return v4;
    default: memcpy (&v8, p, 8); return v8;
  }
}

/* (a * (256 - f) + b * f) >> 8 on unsigned bytes, f in 0..255 */
static uint64_t
blend_bytes (uint64_t a, uint64_t b, uint64_t f)
{
  return ((a * (256 - f) + b * f) >> 8) & 0xff;
}

void
ref_load_range (const char *name, long i, int32_t p1, int32_t p2, long *lo, long *hi)
{
  const struct load_op *op = find_load_op (name);
  int64_t first, second;

  if (op == NULL) {
    *lo = 0;
    *hi = -1;
    return;
  }
  load_indices (op, i, p1, p2, &first, &second);
  *lo = (long) first;           /* second >= first for every kind */
  *hi = (long) second;
}

uint64_t
ref_load (const char *name, const unsigned char *base, long i, int32_t p1, int32_t p2, int *ok)
{
  const struct load_op *op = find_load_op (name);
  int64_t first, second;
  uint64_t a, b, f, r;
  int k;

  if (ok)
    *ok = (op != NULL);
  if (op == NULL)
    return 0;

  load_indices (op, i, p1, p2, &first, &second);
  a = fetch (base, first, op->size);

  switch (op->kind) {
    case LOAD_UP_INTERPOLATE:   /* unsigned bytes; even i: (2a + 1) >> 1 = a */
      b = (second == first) ? a : fetch (base, second, op->size);
      return (a + b + 1) >> 1;

    case LOAD_RESAMPLE_LINEAR:  /* each byte of the element blended independently */
      b = fetch (base, second, op->size);
      f = (uint64_t) asr (resample_position (i, p1, p2), 8) & 0xff;
      r = 0;
      for (k = 0; k < op->size; k++)
        r |= blend_bytes ((a >> (8 * k)) & 0xff, (b >> (8 * k)) & 0xff, f) << (8 * k);
      return r;

    default:                    /* plain, offset, duplicate, nearest: one element */
      return a;
  }
}

/* ------------------------------------------------------------------------ */
/* documented operand sizes, transcribed row by row from                    */
/* doc/opcode_table.xml (same order).  0 = column empty.                    */
/* ------------------------------------------------------------------------ */

struct doc_row
{
  const char *name;
  int dest_size, src1_size, src2_size;
  int src2_scalar;              /* source 2 size carries the 'S' mark */
};

static const struct doc_row doc_rows[] = {
  { "absb",       1, 1, 0, 0 },
  { "addb",       1, 1, 1, 0 },
  { "addssb",     1, 1, 1, 0 },
  { "addusb",     1, 1, 1, 0 },
  { "andb",       1, 1, 1, 0 },
  { "andnb",      1, 1, 1, 0 },
  { "avgsb",      1, 1, 1, 0 },
  { "avgub",      1, 1, 1, 0 },
  { "cmpeqb",     1, 1, 1, 0 },
  { "cmpgtsb",    1, 1, 1, 0 },
  { "copyb",      1, 1, 0, 0 },
  { "loadb",      1, 1, 0, 0 },
  { "loadoffb",   1, 1, 4, 1 },
  { "loadupdb",   1, 1, 0, 0 },
  { "loadupib",   1, 1, 0, 0 },
  { "loadpb",     1, 1, 0, 0 },
  { "ldresnearb", 1, 1, 4, 1 },
  { "ldresnearl", 4, 4, 4, 1 },
  { "ldreslinb",  1, 1, 4, 1 },
  { "ldreslinl",  4, 4, 4, 1 },
  { "maxsb",      1, 1, 1, 0 },
  { "maxub",      1, 1, 1, 0 },
  { "minsb",      1, 1, 1, 0 },
  { "minub",      1, 1, 1, 0 },
  { "mullb",      1, 1, 1, 0 },
  { "mulhsb",     1, 1, 1, 0 },
  { "mulhub",     1, 1, 1, 0 },
  { "orb",        1, 1, 1, 0 },
  { "shlb",       1, 1, 1, 1 },
  { "shrsb",      1, 1, 1, 1 },
  { "shrub",      1, 1, 1, 1 },
  { "signb",      1, 1, 0, 0 },
  { "storeb",     1, 1, 0, 0 },
  { "subb",       1, 1, 1, 0 },
  { "subssb",     1, 1, 1, 0 },
  { "subusb",     1, 1, 1, 0 },
  { "xorb",       1, 1, 1, 0 },
  { "absw",       2, 2, 0, 0 },
  { "addw",       2, 2, 2, 0 },
  { "addssw",     2, 2, 2, 0 },
  { "addusw",     2, 2, 2, 0 },
  { "andw",       2, 2, 2, 0 },
  { "andnw",      2, 2, 2, 0 },
  { "avgsw",      2, 2, 2, 0 },
  { "avguw",      2, 2, 2, 0 },
  { "cmpeqw",     2, 2, 2, 0 },
  { "cmpgtsw",    2, 2, 2, 0 },
  { "copyw",      2, 2, 0, 0 },
  { "div255w",    2, 2, 0, 0 },
  { "divluw",     2, 2, 2, 0 },
  { "loadw",      2, 2, 0, 0 },
  { "loadoffw",   2, 2, 4, 1 },
  { "loadpw",     2, 2, 0, 0 },
  { "maxsw",      2, 2, 2, 0 },
  { "maxuw",      2, 2, 2, 0 },
  { "minsw",      2, 2, 2, 0 },
  { "minuw",      2, 2, 2, 0 },
  { "mullw",      2, 2, 2, 0 },
  { "mulhsw",     2, 2, 2, 0 },
  { "mulhuw",     2, 2, 2, 0 },
  { "orw",        2, 2, 2, 0 },
  { "shlw",       2, 2, 2, 1 },
  { "shrsw",      2, 2, 2, 1 },
  { "shruw",      2, 2, 2, 1 },
  { "signw",      2, 2, 0, 0 },
  { "storew",     2, 2, 0, 0 },
  { "subw",       2, 2, 2, 0 },
  { "subssw",     2, 2, 2, 0 },
  { "subusw",     2, 2, 2, 0 },
  { "xorw",       2, 2, 2, 0 },
  { "absl",       4, 4, 0, 0 },
  { "addl",       4, 4, 4, 0 },
  { "addssl",     4, 4, 4, 0 },
  { "addusl",     4, 4, 4, 0 },
  { "andl",       4, 4, 4, 0 },
  { "andnl",      4, 4, 4, 0 },
  { "avgsl",      4, 4, 4, 0 },
  { "avgul",      4, 4, 4, 0 },
  { "cmpeql",     4, 4, 4, 0 },
  { "cmpgtsl",    4, 4, 4, 0 },
  { "copyl",      4, 4, 0, 0 },
  { "loadl",      4, 4, 0, 0 },
  { "loadoffl",   4, 4, 4, 1 },
  { "loadpl",     4, 4, 0, 0 },
  { "maxsl",      4, 4, 4, 0 },
  { "maxul",      4, 4, 4, 0 },
  { "minsl",      4, 4, 4, 0 },
  { "minul",      4, 4, 4, 0 },
  { "mulll",      4, 4, 4, 0 },
  { "mulhsl",     4, 4, 4, 0 },
  { "mulhul",     4, 4, 4, 0 },
  { "orl",        4, 4, 4, 0 },
  { "shll",       4, 4, 4, 1 },
  { "shrsl",      4, 4, 4, 1 },
  { "shrul",      4, 4, 4, 1 },
  { "signl",      4, 4, 0, 0 },
  { "storel",     4, 4, 0, 0 },
  { "subl",       4, 4, 4, 0 },
  { "subssl",     4, 4, 4, 0 },
  { "subusl",     4, 4, 4, 0 },
  { "xorl",       4, 4, 4, 0 },
  { "loadq",      8, 8, 0, 0 },
  { "loadpq",     8, 8, 0, 0 },
  { "storeq",     8, 8, 0, 0 },
  { "splatw3q",   8, 8, 0, 0 },
  { "copyq",      8, 8, 0, 0 },
  { "cmpeqq",     8, 8, 8, 0 },
  { "cmpgtsq",    8, 8, 8, 0 },
  { "andq",       8, 8, 8, 0 },
  { "andnq",      8, 8, 8, 0 },
  { "orq",        8, 8, 8, 0 },
  { "xorq",       8, 8, 8, 0 },
  { "addq",       8, 8, 8, 0 },
  { "subq",       8, 8, 8, 0 },
  { "shlq",       8, 8, 8, 1 },
  { "shrsq",      8, 8, 8, 1 },
  { "shruq",      8, 8, 8, 1 },
  { "convsbw",    2, 1, 0, 0 },
  { "convubw",    2, 1, 0, 0 },
  { "splatbw",    2, 1, 0, 0 },
  { "splatbl",    4, 1, 0, 0 },
  { "convswl",    4, 2, 0, 0 },
  { "convuwl",    4, 2, 0, 0 },
  { "convslq",    8, 4, 0, 0 },
  { "convulq",    8, 4, 0, 0 },
  { "convwb",     1, 2, 0, 0 },
  { "convhwb",    1, 2, 0, 0 },
  { "convssswb",  1, 2, 0, 0 },
  { "convsuswb",  1, 2, 0, 0 },
  { "convusswb",  1, 2, 0, 0 },
  { "convuuswb",  1, 2, 0, 0 },
  { "convlw",     2, 4, 0, 0 },
  { "convhlw",    2, 4, 0, 0 },
  { "convssslw",  2, 4, 0, 0 },
  { "convsuslw",  2, 4, 0, 0 },
  { "convusslw",  2, 4, 0, 0 },
  { "convuuslw",  2, 4, 0, 0 },
  { "convql",     4, 8, 0, 0 },
  { "convsssql",  4, 8, 0, 0 },
  { "convsusql",  4, 8, 0, 0 },
  { "convussql",  4, 8, 0, 0 },
  { "convuusql",  4, 8, 0, 0 },
  { "mulsbw",     2, 1, 1, 0 },
  { "mulubw",     2, 1, 1, 0 },
  { "mulswl",     4, 2, 2, 0 },
  { "muluwl",     4, 2, 2, 0 },
  { "mulslq",     8, 4, 4, 0 },
  { "mululq",     8, 4, 4, 0 },
  { "accw",       2, 2, 0, 0 },
  { "accl",       4, 4, 0, 0 },
  { "accsadubl",  4, 1, 1, 0 },
  { "swapw",      2, 2, 0, 0 },
  { "swapl",      4, 4, 0, 0 },
  { "swapwl",     4, 4, 0, 0 },
  { "swapq",      8, 8, 0, 0 },
  { "swaplq",     8, 8, 0, 0 },
  { "select0wb",  1, 2, 0, 0 },
  { "select1wb",  1, 2, 0, 0 },
  { "select0lw",  2, 4, 0, 0 },
  { "select1lw",  2, 4, 0, 0 },
  { "select0ql",  4, 8, 0, 0 },
  { "select1ql",  4, 8, 0, 0 },
  { "mergelq",    8, 4, 4, 0 },
  { "mergewl",    4, 2, 2, 0 },
  { "mergebw",    2, 1, 1, 0 },
  { "splitql",    4, 8, 0, 0 },
  { "splitlw",    2, 4, 0, 0 },
  { "splitwb",    1, 2, 0, 0 },
  { "addf",       4, 4, 4, 0 },
  { "subf",       4, 4, 4, 0 },
  { "mulf",       4, 4, 4, 0 },
  { "divf",       4, 4, 4, 0 },
  { "sqrtf",      4, 4, 0, 0 },
  { "maxf",       4, 4, 4, 0 },
  { "minf",       4, 4, 4, 0 },
  { "cmpeqf",     4, 4, 4, 0 },
  { "cmpltf",     4, 4, 4, 0 },
  { "cmplef",     4, 4, 4, 0 },
  { "convfl",     4, 4, 0, 0 },
  { "convlf",     4, 4, 0, 0 },
  { "addd",       8, 8, 8, 0 },
  { "subd",       8, 8, 8, 0 },
  { "muld",       8, 8, 8, 0 },
  { "divd",       8, 8, 8, 0 },
  { "sqrtd",      8, 8, 0, 0 },
  { "maxd",       8, 8, 8, 0 },
  { "mind",       8, 8, 8, 0 },
  { "cmpeqd",     8, 8, 8, 0 },
  { "cmpltd",     8, 8, 8, 0 },
  { "cmpled",     8, 8, 8, 0 },
  { "convdl",     4, 8, 0, 0 },
  { "convld",     8, 4, 0, 0 },
  { "convfd",     8, 4, 0, 0 },
  { "convdf",     4, 8, 0, 0 },
  { "orf",        4, 4, 4, 0 },
  { "andf",       4, 4, 4, 0 },
  { "convwf",     4, 2, 0, 0 },
};

#define N_DOC_ROWS ((int) (sizeof (doc_rows) / sizeof (doc_rows[0])))

int
ref_doc_count (void)
{
  return N_DOC_ROWS;
}

const char *
ref_doc_name (int i)
{
  return (i >= 0 && i < N_DOC_ROWS) ? doc_rows[i].name : NULL;
}

int
ref_doc_sizes (const char *name, int *dest_size, int *src1_size, int *src2_size, int *src2_scalar)
{
  int k;

  if (name == NULL)
    return -1;
  for (k = 0; k < N_DOC_ROWS; k++) {
    if (strcmp (name, doc_rows[k].name) != 0)
      continue;
    if (dest_size)
      *dest_size = doc_rows[k].dest_size;
    if (src1_size)
      *src1_size = doc_rows[k].src1_size;
    if (src2_size)
      *src2_size = doc_rows[k].src2_size;
    if (src2_scalar)
      *src2_scalar = doc_rows[k].src2_scalar;
    return 0;
  }
  return -1;
}
