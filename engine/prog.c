#include "prog.h"
#include <stdlib.h>
#include <sys/mman.h>
#include <unistd.h>

/* ------------------------------------------------------------------ */
/* opcode table                                                        */

const VOp v_optab[] = {
#include "optab_rows.inc"
};
const int v_noptab = (int) (sizeof (v_optab) / sizeof (v_optab[0]));

const VOp *v_op_find (const char *name)
{
  int i;
  for (i = 0; i < v_noptab; i++)
    if (!strcmp (v_optab[i].name, name)) return &v_optab[i];
  return NULL;
}

static int op_nsrc (const VOp *op) { int k = 0; while (k < 3 && op->ssz[k]) k++; return k; }
static int op_ndst (const VOp *op) { int k = 0; while (k < 2 && op->dsz[k]) k++; return k; }
static int op_is_float (const VOp *op) { return (op->flags & (VOP_FSRC | VOP_FDEST)) != 0; }
static int op_maxsize (const VOp *op)
{
  int m = 0, k;
  for (k = 0; k < 2; k++) if (op->dsz[k] > m) m = op->dsz[k];
  for (k = 0; k < 3; k++) if (op->ssz[k] > m) m = op->ssz[k];
  return m;
}
static int starts (const char *s, const char *p) { return strncmp (s, p, strlen (p)) == 0; }

const char *v_result_name (OrcCompileResult r)
{
  switch ((int) r) {
    case ORC_COMPILE_RESULT_OK: return "OK";
    case ORC_COMPILE_RESULT_UNKNOWN_COMPILE: return "UNKNOWN_COMPILE";
    case ORC_COMPILE_RESULT_MISSING_RULE: return "MISSING_RULE";
    case ORC_COMPILE_RESULT_UNKNOWN_PARSE: return "UNKNOWN_PARSE";
    case ORC_COMPILE_RESULT_PARSE: return "PARSE";
    case ORC_COMPILE_RESULT_VARIABLE: return "VARIABLE";
    default: return "?";
  }
}

/* ------------------------------------------------------------------ */
/* values                                                              */

static uint64_t trunc_size (uint64_t v, int size)
{
  return size >= 8 ? v : (v & ((1ULL << (8 * size)) - 1));
}

uint64_t v_boundary_value (int size, uint32_t k)
{
  int bits = 8 * size;
  uint32_t form = k % 6;
  uint32_t b = (k / 6) % (uint32_t) bits;
  uint64_t p = 1ULL << b, v;
  switch (form) {
    case 0: v = p - 1; break;
    case 1: v = p; break;
    case 2: v = p + 1; break;
    case 3: v = (uint64_t) 0 - p; break;
    case 4: v = (uint64_t) 0 - p - 1; break;
    default: v = (uint64_t) 0 - p + 1; break;
  }
  return trunc_size (v, size);
}

uint64_t v_value (int size, uint32_t choice)
{
  switch (choice % 4) {
    case 0: return v_boundary_value (size, choice / 4);
    case 1: return trunc_size (v_mix64 (choice), size);
    case 2: return trunc_size ((uint64_t) (int64_t) ((int) ((choice / 4) % 33) - 16), size);
    default: return v_boundary_value (size, (uint32_t) v_mix64 (choice));
  }
}

static const uint32_t float_specials[] = {
  0x00000000, 0x80000000, 0x00000001, 0x807fffff, 0x007fffff, 0x00800000, 0x80800000, 0x00800001,
  0x3f800000, 0xbf800000, 0x3f000000, 0x3fc00000, 0x40000000, 0x4b000000, 0x4b800000, 0x4b7fffff,
  0x4effffff, 0x4f000000, 0xcf000000, 0xcf000001, 0x4f000001, 0x5f000000, 0xdf000000, 0x7f7fffff,
  0xff7fffff, 0x7f800000, 0xff800000, 0x7fc00000, 0xffc00000, 0x7f800001, 0x7fa00000, 0x3f7fffff,
  0x3effffff, 0x3f000001, 0x40400000, 0x40a00000, 0x00400000, 0x80000002, 0x33800000, 0x34000000,
  0x0d800000, 0x1e800000, 0x5d5e0b6b, 0x20000000
};
static const uint64_t double_specials[] = {
  0x0000000000000000ULL, 0x8000000000000000ULL, 0x0000000000000001ULL, 0x800fffffffffffffULL,
  0x000fffffffffffffULL, 0x0010000000000000ULL, 0x8010000000000000ULL, 0x0010000000000001ULL,
  0x3ff0000000000000ULL, 0xbff0000000000000ULL, 0x3fe0000000000000ULL, 0x3ff8000000000000ULL,
  0x4000000000000000ULL, 0x4330000000000000ULL, 0x4340000000000000ULL, 0x433fffffffffffffULL,
  0x41dfffffffc00000ULL, 0x41e0000000000000ULL, 0xc1e0000000000000ULL, 0xc1e0000000200000ULL,
  0x41dfffffffe00000ULL, 0x43e0000000000000ULL, 0xc3e0000000000000ULL, 0x7fefffffffffffffULL,
  0xffefffffffffffffULL, 0x7ff0000000000000ULL, 0xfff0000000000000ULL, 0x7ff8000000000000ULL,
  0xfff8000000000000ULL, 0x7ff0000000000001ULL, 0x7ff4000000000000ULL, 0x3fefffffffffffffULL,
  0x3fdfffffffffffffULL, 0x3fe0000000000001ULL, 0x4008000000000000ULL, 0x4014000000000000ULL,
  0x0008000000000000ULL, 0x8000000000000002ULL, 0x3810000000000000ULL, 0x380fffffffffffffULL,
  0x36a0000000000000ULL, 0x47efffffe0000000ULL, 0x47efffffefffffffULL, 0x47effffff0000000ULL,
  0x3690000000000000ULL, 0x2000000000000000ULL, 0x5fe0000000000000ULL
};

uint64_t v_float_value (int size, uint32_t choice);
uint64_t v_float_value (int size, uint32_t choice)
{
  uint64_t h = v_mix64 (choice);
  if (size == 4) {
    uint32_t ns = sizeof float_specials / sizeof float_specials[0];
    switch (choice % 4) {
      case 0: return float_specials[(choice / 4) % ns];
      case 1: return float_specials[h % ns] ^ ((h >> 40) & 1 ? 0x80000000u : 0);
      case 2: {   /* random normal with moderate exponent */
        uint32_t e = 100 + (uint32_t) ((h >> 8) % 56);
        return ((uint32_t) (h >> 63) << 31) | (e << 23) | (uint32_t) (h & 0x7fffff);
      }
      default: return (uint32_t) h;
    }
  } else {
    uint32_t ns = sizeof double_specials / sizeof double_specials[0];
    switch (choice % 4) {
      case 0: return double_specials[(choice / 4) % ns];
      case 1: return double_specials[h % ns] ^ ((h >> 40) & 1 ? 0x8000000000000000ULL : 0);
      case 2: {
        uint64_t e = 990 + ((h >> 8) % 70);
        return (h & 0x8000000000000000ULL) | (e << 52) | (v_mix64 (h) & 0xfffffffffffffULL);
      }
      default: return h;
    }
  }
}

static uint64_t fill_value (int kind, uint64_t seed, long i, int size)
{
  uint64_t h = v_mix64 (seed * 0x9e3779b97f4a7c15ULL + (uint64_t) i);
  switch (kind) {
    case FILL_RANDOM: return trunc_size (h, size);
    case FILL_BOUNDARY: return v_boundary_value (size, (uint32_t) h);
    case FILL_ZERO: return 0;
    case FILL_ONES: return trunc_size (~0ULL, size);
    case FILL_RAMP: return trunc_size ((uint64_t) i * ((seed % 7) + 1) + (seed >> 8), size);
    case FILL_MINMAX: {
      uint64_t mn = 1ULL << (8 * size - 1), mx = mn - 1;
      switch ((i + (long) (seed & 3)) & 3) { case 0: return mn; case 1: return mx; case 2: return trunc_size (~0ULL, size); default: return 0; }
    }
    case FILL_SMALL: return trunc_size ((uint64_t) (int64_t) ((int) (h % 9) - 4), size);
    case FILL_IDX_LO: return size == 1 ? ((uint64_t) i & 0xff) : trunc_size ((uint64_t) i & 0xffff, size);
    case FILL_IDX_HI: return size == 1 ? (((uint64_t) i >> 8) & 0xff) : trunc_size (((uint64_t) i >> 16) & 0xffff, size);
    case FILL_FLOATS: return size >= 4 ? v_float_value (size, (uint32_t) h) : trunc_size (h, size);
    default: return trunc_size (h, size);
  }
}

/* ------------------------------------------------------------------ */
/* ProgSpec construction                                               */

static const char kind_letter[] = { 'd', 's', 'a', 'c', 'p', 't' };
static const int kind_max[] = { ORC_MAX_DEST_VARS, ORC_MAX_SRC_VARS, ORC_MAX_ACCUM_VARS, ORC_MAX_CONST_VARS,
  ORC_MAX_PARAM_VARS, ORC_MAX_TEMP_VARS };

const char *ps_varname (const ProgSpec *ps, int v) { return ps->vars[v].name; }

static int ps_addvar (ProgSpec *ps, int kind, int size)
{
  PVar *pv;
  if (ps->nvars >= PS_MAXVARS || ps->count[kind] >= kind_max[kind]) return -1;
  pv = &ps->vars[ps->nvars];
  memset (pv, 0, sizeof *pv);
  pv->kind = kind;
  pv->size = size;
  pv->res_b = pv->res_c = -1;
  pv->orcvar = -1;
  snprintf (pv->name, sizeof pv->name, "%c%d", kind_letter[kind], ++ps->count[kind]);
  if (size == 8) ps->has_64 = 1;
  return ps->nvars++;
}

void gen_opts_default (GenOpts *o)
{
  memset (o, 0, sizeof *o);
  o->max_insns = 40;
  o->allow_int = 1;
  o->allow_acc = o->allow_2d = o->allow_x = o->allow_special_loads = o->allow_explicit_ldst = 1;
  o->allow_flags = o->allow_align = o->allow_64 = o->allow_params = o->allow_consts = 1;
  o->single_opcode = -1;
  o->exclude_prefix = "op:";
  o->saturate = 12;
}

typedef struct {
  ProgSpec *ps;
  const GenOpts *o;
  VChoices *c;
  int est_temps, est_insns;
  int ops[256], nops;
  int cur_lsize, cur_mult;      /* lane size / multiplier of the operand being chosen */
} Gen;

static int op_allowed (const Gen *g, const VOp *op)
{
  const GenOpts *o = g->o;
  char key[64];
  if (op->flags & VOP_INVARIANT) return 0;                 /* loadpX: inserted by the compiler */
  if (op_is_float (op)) { if (!o->allow_float) return 0; }
  else if (!o->allow_int && !(op->flags & (VOP_LOAD | VOP_STORE | VOP_COPY))) return 0;
  if ((op->flags & VOP_ACC) && !o->allow_acc) return 0;
  if (!o->allow_64 && op_maxsize (op) == 8) return 0;
  if (op->flags & VOP_LOAD) {
    int special = (op->flags & (VOP_SCALAR | VOP_ITER)) != 0;
    if (special && !o->allow_special_loads) return 0;
    if (!special && !o->allow_explicit_ldst) return 0;
  }
  if ((op->flags & VOP_STORE) && !o->allow_explicit_ldst) return 0;
  if (op->flags & VOP_SCALAR) {
    if (!o->allow_params && !o->allow_consts) return 0;
  }
  snprintf (key, sizeof key, "%s%s", o->exclude_prefix ? o->exclude_prefix : "op:", op->name);
  if (v_excluded (key)) return 0;
  return 1;
}

static int find_vars (const ProgSpec *ps, int kind, int size, int need_written, int *out)
{
  int i, n = 0;
  int no_share = v_excluded ("special-load-shared-source");
  for (i = 0; i < ps->nvars; i++) {
    const PVar *v = &ps->vars[i];
    if (v->kind != kind || v->size != size) continue;
    if (no_share && kind == VK_SRC && (v->res_b >= 0 || v->up)) continue;   /* known finding: resampled/upsampled arrays are not shared */
    if (need_written == 1 && !v->written) continue;
    if (need_written == 2 && (v->written || v->ro_dest)) continue;
    if (v->role != ROLE_ANY) continue;
    out[n++] = i;
  }
  return n;
}

/* a scalar operand with a role-specific value range */
static int scalar_operand (Gen *g, int size, int role, int rmin, int rmax, int force_kind)
{
  ProgSpec *ps = g->ps;
  int want_param, v, i;
  uint32_t ch = vc_u32 (g->c);
  if (force_kind == VK_CONST) want_param = 0;
  else if (force_kind == VK_PARAM) want_param = 1;
  else want_param = (ch & 1) && g->o->allow_params;
  if (!g->o->allow_consts) want_param = 1;
  if (!g->o->allow_params) want_param = 0;
  /* reuse a compatible dedicated operand sometimes, or when the class is full */
  for (i = 0; i < ps->nvars; i++) {
    PVar *pv = &ps->vars[i];
    if (pv->kind != (want_param ? VK_PARAM : VK_CONST) || pv->role != role || pv->size != size) continue;
    if (pv->role_min < rmin || pv->role_max > rmax) continue;
    if (((ch >> 1) & 3) == 0 || ps->count[pv->kind] >= kind_max[pv->kind]) return i;
  }
  v = ps_addvar (ps, want_param ? VK_PARAM : VK_CONST, size);
  if (v < 0) {
    v = ps_addvar (ps, want_param ? VK_CONST : VK_PARAM, size);
    if (v < 0) {
      for (i = 0; i < ps->nvars; i++) {
        PVar *pv = &ps->vars[i];
        if ((pv->kind == VK_PARAM || pv->kind == VK_CONST) && pv->role == role && pv->size == size &&
            pv->role_min >= rmin && pv->role_max <= rmax) return i;
      }
      return -1;
    }
  }
  {
    PVar *pv = &ps->vars[v];
    pv->role = role; pv->role_min = rmin; pv->role_max = rmax;
    if (pv->kind == VK_PARAM) pv->ptype = size == 8 ? PT_INT64 : PT_INT;
    if (role != ROLE_ANY) {
      uint32_t span = (uint32_t) (rmax - rmin + 1);
      pv->cval = (uint64_t) (int64_t) (rmin + (int) ((ch >> 3) % span));
      pv->cval = trunc_size (pv->cval, size);
    }
  }
  return v;
}

static int general_const (Gen *g, int size, int is_float_operand, int want_param)
{
  ProgSpec *ps = g->ps;
  int cand[PS_MAXVARS], n, v;
  int kind = want_param ? VK_PARAM : VK_CONST;
  uint32_t ch = vc_u32 (g->c);
  n = find_vars (ps, kind, size, 0, cand);
  if (v_excluded ("const-two-lane-sizes")) {
    /* known finding: a constant/parameter is not reused with another lane size of the same total size */
    int k, m = 0;
    for (k = 0; k < n; k++) {
      const PVar *pv = &ps->vars[cand[k]];
      if (pv->use_lsize == 0 || (pv->use_lsize == g->cur_lsize && pv->use_mult == g->cur_mult)) cand[m++] = cand[k];
    }
    n = m;
  }
  if (kind == VK_PARAM && g->cur_mult != 1) {
    /* a parameter declared float/double is a number, not a bit pattern: real callers only hand it to an operand of its own
       width (orcc passes it by value); under x2/x4 only integer-typed (raw) parameters are reused */
    int k, m = 0;
    for (k = 0; k < n; k++) if (ps->vars[cand[k]].ptype != PT_FLOAT && ps->vars[cand[k]].ptype != PT_DOUBLE) cand[m++] = cand[k];
    n = m;
  }
  if (n && ((ch & 3) == 0 || ps->count[kind] >= kind_max[kind])) {
    v = cand[(ch >> 2) % (uint32_t) n];
    if (!ps->vars[v].use_lsize) { ps->vars[v].use_lsize = g->cur_lsize; ps->vars[v].use_mult = g->cur_mult; }
    return v;
  }
  v = ps_addvar (ps, kind, size);
  if (v < 0) {
    if (!n) return -1;
    v = cand[(ch >> 2) % (uint32_t) n];
    if (!ps->vars[v].use_lsize) { ps->vars[v].use_lsize = g->cur_lsize; ps->vars[v].use_mult = g->cur_mult; }
    return v;
  }
  ps->vars[v].use_lsize = g->cur_lsize; ps->vars[v].use_mult = g->cur_mult;
  if (kind == VK_CONST) {
    ps->vars[v].cval = is_float_operand && size >= 4 ? v_float_value (size, ch >> 2) : v_value (size, ch >> 2);
  } else {
    if (size == 8) ps->vars[v].ptype = is_float_operand && g->cur_mult == 1 ? PT_DOUBLE : PT_INT64;
    else if (size == 4) ps->vars[v].ptype = is_float_operand && g->cur_mult == 1 ? PT_FLOAT : PT_INT;
    else ps->vars[v].ptype = PT_INT;
  }
  return v;
}

static int new_source (Gen *g, int size)
{
  ProgSpec *ps = g->ps;
  int v = ps_addvar (ps, VK_SRC, size);
  if (v >= 0 && g->o->allow_align && vc_chance (g->c, 1, 8)) {
    static const int al[] = { 2, 4, 8, 16, 32, 64 };
    int a = al[vc_pick (g->c, 6)];
    if (a > size) ps->vars[v].align = a;
  }
  return v;
}

/* operand for a vector source of the given size */
static int general_operand (Gen *g, int size, int is_float_operand)
{
  ProgSpec *ps = g->ps;
  int cand[PS_MAXVARS], n, v;
  uint32_t ch = vc_pick (g->c, 20);
  if (ch < 8) {                 /* temporary */
    n = find_vars (ps, VK_TEMP, size, 1, cand);
    if (n) return cand[vc_pick (g->c, (uint32_t) n)];
    ch = 8;
  }
  if (ch < 15) {                /* source array */
    n = find_vars (ps, VK_SRC, size, 0, cand);
    if (g->est_temps + ps->count[VK_TEMP] < 54 && g->est_insns < 92) {
      if (n == 0 || (ps->count[VK_SRC] < kind_max[VK_SRC] && vc_chance (g->c, 1, 2))) {
        v = new_source (g, size);
        if (v >= 0) return v;
      }
      if (n) return cand[vc_pick (g->c, (uint32_t) n)];
    }
    ch = 15;
  }
  if (ch < 16) {                /* in-place: read a destination array that is not yet written */
    n = find_vars (ps, VK_DEST, size, 2, cand);
    if (n == 0 && ps->count[VK_DEST] < kind_max[VK_DEST] && g->est_temps + ps->count[VK_TEMP] < 54) {
      v = ps_addvar (ps, VK_DEST, size);
      if (v >= 0) { ps->has_inplace = 1; ps->vars[v].read = 1; return v; }
    }
    if (n) { v = cand[vc_pick (g->c, (uint32_t) n)]; ps->has_inplace = 1; ps->vars[v].read = 1; return v; }
    ch = 16;
  }
  if (ch < 18 && g->o->allow_consts) { v = general_const (g, size, is_float_operand, 0); if (v >= 0) return v; }
  if (g->o->allow_params) { v = general_const (g, size, is_float_operand, 1); if (v >= 0) return v; }
  if (g->o->allow_consts) { v = general_const (g, size, is_float_operand, 0); if (v >= 0) return v; }
  n = find_vars (ps, VK_TEMP, size, 1, cand);
  if (n) return cand[vc_pick (g->c, (uint32_t) n)];
  n = find_vars (ps, VK_SRC, size, 0, cand);
  if (n) return cand[vc_pick (g->c, (uint32_t) n)];
  return new_source (g, size);
}

static int dest_operand (Gen *g, int size, int last)
{
  ProgSpec *ps = g->ps;
  int cand[PS_MAXVARS], n, v;
  uint32_t ch = vc_pick (g->c, 16);
  if (last) ch = 15;
  if (ch < 9 && ps->count[VK_TEMP] < kind_max[VK_TEMP]) {
    v = ps_addvar (ps, VK_TEMP, size);
    if (v >= 0) return v;
  }
  if (ch < 12) {                /* overwrite an existing temporary */
    n = find_vars (ps, VK_TEMP, size, 0, cand);
    if (n) { g->est_temps++; return cand[vc_pick (g->c, (uint32_t) n)]; }
  }
  /* destination array: an unwritten one (possibly read in place before), or a new one */
  n = find_vars (ps, VK_DEST, size, 2, cand);
  if (n && (ps->count[VK_DEST] >= kind_max[VK_DEST] || vc_chance (g->c, 1, 2))) return cand[vc_pick (g->c, (uint32_t) n)];
  if (g->est_temps + ps->count[VK_TEMP] < 56 && g->est_insns < 94) {
    v = ps_addvar (ps, VK_DEST, size);
    if (v >= 0) {
      if (g->o->allow_align && vc_chance (g->c, 1, 8)) {
        static const int al[] = { 2, 4, 8, 16, 32, 64 };
        int a = al[vc_pick (g->c, 6)];
        if (a > size) ps->vars[v].align = a;
      }
      return v;
    }
    if (n) return cand[vc_pick (g->c, (uint32_t) n)];
  }
  v = ps_addvar (ps, VK_TEMP, size);
  if (v >= 0) return v;
  n = find_vars (ps, VK_TEMP, size, 0, cand);
  if (n) { g->est_temps++; return cand[vc_pick (g->c, (uint32_t) n)]; }
  return -1;
}

static void account_operand (Gen *g, int v, int is_dest)
{
  const PVar *pv = &g->ps->vars[v];
  if (pv->kind == VK_SRC || pv->kind == VK_DEST || ((pv->kind == VK_CONST || pv->kind == VK_PARAM) && !is_dest)) {
    g->est_temps++;
    g->est_insns++;
  }
}

/* loadb/w/l/q and storeb/w/l/q written by the user: the only load/store opcodes whose meaning under an x2/x4 prefix is the same in
   every implementation (one element of 2x/4x the size); the offset, upsampling and resampling loads are not given prefixes */
int ps_plain_ldst (const VOp *op)
{
  const char *n = op->name;
  size_t l = strlen (n);
  if (!(op->flags & (VOP_LOAD | VOP_STORE)) || l < 5) return 0;
  if (!strchr ("bwlq", n[l - 1])) return 0;
  return (l == 5 && !strncmp (n, "load", 4)) || (l == 6 && !strncmp (n, "store", 5));
}

static int gen_insn (Gen *g, const VOp *op, int last)
{
  ProgSpec *ps = g->ps;
  PInsn in;
  int mult = 1, j, ns = op_nsrc (op), nd = op_ndst (op);
  int saved_nvars = ps->nvars, saved_count[VK_NKINDS];
  int fsrc = (op->flags & VOP_FSRC) != 0;
  memcpy (saved_count, ps->count, sizeof saved_count);
  memset (&in, 0, sizeof in);
  in.op = op;
  if (ps->nins >= PS_MAXINS) return 0;

  if (g->o->allow_x && (!(op->flags & (VOP_ACC | VOP_LOAD | VOP_STORE)) || ps_plain_ldst (op)) && op_maxsize (op) * 2 <= 8) {
    uint32_t ch = vc_pick (g->c, 8);
    if (ch == 6) mult = 2;
    if (ch == 7) mult = op_maxsize (op) * 4 <= 8 ? 4 : 2;
    if (!g->o->allow_64 && op_maxsize (op) * mult == 8) mult = 1;
  }
  in.flags = mult == 2 ? ORC_INSTRUCTION_FLAG_X2 : mult == 4 ? ORC_INSTRUCTION_FLAG_X4 : 0;

  for (j = 0; j < ns; j++) {
    int v;
    if ((op->flags & VOP_LOAD) && j == 0) {
      int asz = op->ssz[0] * (ps_plain_ldst (op) ? mult : 1);
      int cand[PS_MAXVARS], n = find_vars (ps, VK_SRC, asz, 0, cand);
      if ((starts (op->name, "ldres") || starts (op->name, "loadup")) && v_excluded ("special-load-shared-source")) n = 0;   /* always a fresh array */
      v = -1;
      /* now and then the array a load instruction reads is declared as a destination that the program never writes (a pure
         function of the program built so far: no choice is consumed, earlier streams keep their meaning) */
      if (ps->count[VK_DEST] < kind_max[VK_DEST] - 1 && v_mix64 ((uint64_t) ps->nins * 131u + (uint64_t) ps->nvars) % 8 == 3) {
        v = ps_addvar (ps, VK_DEST, asz);
        if (v >= 0) { ps->vars[v].ro_dest = 1; ps->vars[v].read = 1; ps->has_inplace = 1; ps->has_ro_dest = 1; }
      }
      if (v < 0) {
        if (n == 0 || (ps->count[VK_SRC] < kind_max[VK_SRC] && vc_chance (g->c, 1, 2))) v = new_source (g, asz);
        else v = -1;
        if (v < 0 && n) v = cand[vc_pick (g->c, (uint32_t) n)];
      }
    } else if ((op->flags & VOP_SCALAR) && j >= 1) {
      if (starts (op->name, "sh")) v = scalar_operand (g, op->ssz[j], ROLE_SHIFT, 0, 8 * op->ssz[0] - 1, -1);
      else if (starts (op->name, "loadoff")) v = scalar_operand (g, 4, ROLE_OFFSET, -9, 9, -1);
      else if (starts (op->name, "ldres")) v = j == 1 ? scalar_operand (g, 4, ROLE_RES_B, 0, v_excluded ("ldres-start-int") ? 0xffff : 0x3ffff, -1)
                                                     : scalar_operand (g, 4, ROLE_RES_C, 0, 0x2ffff, -1);
      else v = scalar_operand (g, op->ssz[j], ROLE_ANY, 0, 0, -1);
    } else if ((op->flags & VOP_ACC) && v_excluded ("acc-nonarray-source")) {
      /* known finding: only array elements are accumulated */
      int cand[PS_MAXVARS], n = find_vars (ps, VK_SRC, op->ssz[j], 0, cand);
      if (n == 0 || (ps->count[VK_SRC] < kind_max[VK_SRC] && vc_chance (g->c, 1, 2))) v = new_source (g, op->ssz[j]);
      else v = -1;
      if (v < 0 && n) v = cand[vc_pick (g->c, (uint32_t) n)];
    } else {
      g->cur_lsize = op->ssz[j]; g->cur_mult = mult;
      v = general_operand (g, op->ssz[j] * mult, fsrc);
    }
    if (v < 0) goto undo;
    in.s[j] = v;
  }
  for (j = 0; j < nd; j++) {
    int v;
    if (op->flags & VOP_ACC) {
      int cand[PS_MAXVARS], n = find_vars (ps, VK_ACC, op->dsz[0], 0, cand);
      if (n == 0 || (ps->count[VK_ACC] < kind_max[VK_ACC] && vc_chance (g->c, 1, 2))) v = ps_addvar (ps, VK_ACC, op->dsz[0]);
      else v = -1;
      if (v < 0 && n) v = cand[vc_pick (g->c, (uint32_t) n)];
    } else if (op->flags & VOP_STORE) {
      int cand[PS_MAXVARS], n = find_vars (ps, VK_DEST, op->dsz[0] * mult, 2, cand);
      v = n ? cand[0] : ps_addvar (ps, VK_DEST, op->dsz[0] * mult);
    } else {
      v = dest_operand (g, op->dsz[j] * mult, last);
      if (j == 1 && v == in.d[0]) v = -1;
    }
    if (v < 0) goto undo;
    in.d[j] = v;
  }
  /* commit */
  for (j = 0; j < ns; j++) {
    account_operand (g, in.s[j], 0);
    if (!((op->flags & VOP_LOAD) && j == 0) && (ps->vars[in.s[j]].kind == VK_SRC || ps->vars[in.s[j]].kind == VK_DEST))
      ps->vars[in.s[j]].plain = 1;
  }
  for (j = 0; j < nd; j++) {
    PVar *pv = &ps->vars[in.d[j]];
    pv->written = 1;
    if (pv->kind == VK_DEST) { g->est_temps++; g->est_insns++; pv->wrote_mem = 1; }
  }
  if (op->flags & VOP_LOAD) {
    PVar *a = &ps->vars[in.s[0]];
    a->read = 1;
    if (starts (op->name, "loadoff")) {
      if (a->noff < 6) a->off_vars[a->noff++] = in.s[1];
      ps->has_special_load = 1;
    } else if (starts (op->name, "loadup")) { a->up = 1; if (starts (op->name, "loadupib")) a->up_interp = 1; ps->has_special_load = 1; }
    else if (starts (op->name, "ldres")) {
      a->res_b = in.s[1]; a->res_c = in.s[2]; a->res_lin = starts (op->name, "ldreslin");
      if (a->nres < 4) { a->res_bv[a->nres] = in.s[1]; a->res_cv[a->nres] = in.s[2]; a->nres++; }
      ps->has_special_load = 1;
    } else a->plain = 1;
  }
  if (op_is_float (op)) ps->has_float = 1;
  if (op->flags & VOP_ACC) ps->has_acc = 1;
  if (mult > 1) ps->has_x = 1;
  g->est_insns++;
  ps->ins[ps->nins++] = in;
  return 1;
undo:
  ps->nvars = saved_nvars;
  memcpy (ps->count, saved_count, sizeof saved_count);
  return 0;
}


/* ---- saturation: fill the variable classes up to the library's limits (ORC_MAX_DEST_VARS, ORC_MAX_SRC_VARS, ORC_MAX_ACCUM_VARS,
   ORC_MAX_CONST_VARS, ORC_MAX_PARAM_VARS) with simple instructions, so that the last slot of every class takes part ---- */
static void sat_commit (Gen *g, const PInsn *in)
{
  ProgSpec *ps = g->ps;
  int j, ns = op_nsrc (in->op);
  for (j = 0; j < ns; j++) {
    account_operand (g, in->s[j], 0);
    if (ps->vars[in->s[j]].kind == VK_SRC || ps->vars[in->s[j]].kind == VK_DEST) ps->vars[in->s[j]].plain = 1;
  }
  ps->vars[in->d[0]].written = 1;
  if (ps->vars[in->d[0]].kind == VK_DEST) { g->est_temps++; g->est_insns++; ps->vars[in->d[0]].wrote_mem = 1; }
  if (in->op->flags & VOP_ACC) ps->has_acc = 1;
  g->est_insns++;
  ps->ins[ps->nins++] = *in;
}

static int sat_source (Gen *g, int size, int fill, int array_only)
{
  ProgSpec *ps = g->ps;
  int cand[PS_MAXVARS], n, v = -1;
  if (fill && ps->count[VK_SRC] < kind_max[VK_SRC]) v = new_source (g, size);
  if (v >= 0) return v;
  n = find_vars (ps, VK_SRC, size, 0, cand);
  if (n) return cand[vc_pick (g->c, (uint32_t) n)];
  if (!array_only) {
    n = find_vars (ps, VK_TEMP, size, 1, cand);
    if (n) return cand[vc_pick (g->c, (uint32_t) n)];
  }
  return new_source (g, size);
}

static void ps_saturate (Gen *g)
{
  ProgSpec *ps = g->ps;
  static const char *accn[] = { "accw", "accl" };
  static const char *addn[] = { "addb", "addw", "addl", "addq" };
  static const char *xorn[] = { "xorb", "xorw", "xorl", "xorq" };
  int rounds, stale = 0;
  /* which classes are filled: any non-empty subset of {dest, source, accumulator, constant, parameter}; all five together need more
     than the 32 registers of the C target (such programs are refused by it), so subsets matter */
  uint32_t mask = vc_pick (g->c, 32);
  if (mask == 0) mask = 31;
#define SAT_ROOM() (ps->nins < PS_MAXINS - 4 && g->est_temps + ps->count[VK_TEMP] <= 58 && g->est_insns <= 94)
  while ((mask & 4) && g->o->allow_acc && ps->count[VK_ACC] < kind_max[VK_ACC] && SAT_ROOM ()) {
    PInsn in;
    int k = (int) vc_pick (g->c, 2), size = k ? 4 : 2, s, a;
    memset (&in, 0, sizeof in);
    s = sat_source (g, size, (mask & 2) != 0, v_excluded ("acc-nonarray-source"));   /* known finding: only array elements are accumulated */
    if (s < 0) break;
    a = ps_addvar (ps, VK_ACC, size);
    if (a < 0) break;
    in.op = v_op_find (accn[k]); in.d[0] = a; in.s[0] = s;
    sat_commit (g, &in);
  }
  for (rounds = 0; rounds < 40 && SAT_ROOM (); rounds++) {
    PInsn in;
    int k, size, s, d, c2, want_param;
    int open_d = (mask & 1) && ps->count[VK_DEST] < kind_max[VK_DEST], open_s = (mask & 2) && ps->count[VK_SRC] < kind_max[VK_SRC];
    int open_c = (mask & 8) && g->o->allow_consts && ps->count[VK_CONST] < kind_max[VK_CONST];
    int open_p = (mask & 16) && g->o->allow_params && ps->count[VK_PARAM] < kind_max[VK_PARAM];
    int before = ps->nvars - ps->count[VK_TEMP];
    if (!open_d && !open_s && !open_c && !open_p) break;
    if (stale >= 3) break;
    k = (int) vc_pick (g->c, g->o->allow_64 ? 4 : 3); size = 1 << k;
    memset (&in, 0, sizeof in);
    s = sat_source (g, size, open_s, 0);
    if (s < 0) continue;
    if (open_c || open_p) {
      want_param = open_p && (!open_c || vc_chance (g->c, 1, 2));
      g->cur_lsize = size; g->cur_mult = 1;
      c2 = general_const (g, size, 0, want_param);
    } else c2 = sat_source (g, size, open_s, 0);
    if (c2 < 0) continue;
    d = open_d ? ps_addvar (ps, VK_DEST, size) : -1;
    if (d < 0) d = ps_addvar (ps, VK_TEMP, size);
    if (d < 0) break;
    in.op = v_op_find ((vc_pick (g->c, 2) ? xorn : addn)[k]); in.d[0] = d; in.s[0] = s; in.s[1] = c2;
    sat_commit (g, &in);
    if (ps->nvars - ps->count[VK_TEMP] == before) stale++; else stale = 0;
  }
#undef SAT_ROOM
}

static const VOp *copy_op_for_size (int size)
{
  return v_op_find (size == 1 ? "copyb" : size == 2 ? "copyw" : size == 4 ? "copyl" : "copyq");
}

static void ps_finalize (Gen *g)
{
  ProgSpec *ps = g->ps;
  int i, any_out = 0, ntemps = 0;
  for (i = 0; i < ps->nvars; i++) {
    if ((ps->vars[i].kind == VK_DEST || ps->vars[i].kind == VK_ACC) && ps->vars[i].written) any_out = 1;
  }
  /* destination arrays that were only read (in place) must also be written: copy a value of that size */
  for (i = 0; i < ps->nvars; i++) {
    PVar *pv = &ps->vars[i];
    if (pv->kind == VK_DEST && !pv->written && !pv->ro_dest) {
      PInsn in;
      int cand[PS_MAXVARS], n = find_vars (ps, VK_TEMP, pv->size, 1, cand);
      memset (&in, 0, sizeof in);
      in.op = copy_op_for_size (pv->size);
      in.d[0] = i;
      if (n) in.s[0] = cand[n - 1];
      else {
        int s = ps_addvar (ps, VK_SRC, pv->size);
        if (s < 0) { int c2[PS_MAXVARS]; int m = find_vars (ps, VK_SRC, pv->size, 0, c2); s = m ? c2[0] : i; }
        in.s[0] = s;
        ps->vars[s].plain = 1;
      }
      pv = &ps->vars[i];
      pv->written = 1; pv->wrote_mem = 1;
      ps->ins[ps->nins++] = in;
      any_out = 1;
    }
  }
  if (!any_out) {
    /* store the most recent temporary */
    for (i = ps->nvars - 1; i >= 0; i--) {
      if (ps->vars[i].kind == VK_TEMP && ps->vars[i].written) {
        PInsn in;
        int d = ps_addvar (ps, VK_DEST, ps->vars[i].size);
        if (d < 0) break;
        memset (&in, 0, sizeof in);
        in.op = copy_op_for_size (ps->vars[i].size);
        in.d[0] = d; in.s[0] = i;
        ps->vars[d].written = 1; ps->vars[d].wrote_mem = 1;
        ps->ins[ps->nins++] = in;
        any_out = 1;
        break;
      }
    }
  }
  if (!any_out) {
    /* degenerate stream: plain copy */
    PInsn in;
    int s = ps_addvar (ps, VK_SRC, 1), d = ps_addvar (ps, VK_DEST, 1);
    memset (&in, 0, sizeof in);
    in.op = copy_op_for_size (1); in.d[0] = d; in.s[0] = s;
    ps->vars[s].plain = 1;
    ps->vars[d].written = 1; ps->vars[d].wrote_mem = 1;
    ps->ins[ps->nins++] = in;
  }
  for (i = 0; i < ps->nvars; i++) if (ps->vars[i].kind == VK_TEMP) ntemps++;
  ps->max_live_temps = ntemps;
  {
    int j, k;
    /* constants/parameters used with two lane configurations of equal total size */
    for (i = 0; i < ps->nvars; i++) {
      int l0 = 0, m0 = 0;
      if (ps->vars[i].kind != VK_CONST && ps->vars[i].kind != VK_PARAM) continue;
      for (j = 0; j < ps->nins; j++) {
        const PInsn *in = &ps->ins[j];
        int mult = (in->flags & ORC_INSTRUCTION_FLAG_X2) ? 2 : (in->flags & ORC_INSTRUCTION_FLAG_X4) ? 4 : 1;
        if (in->op->flags & VOP_LOAD) continue;
        for (k = 0; k < 3 && in->op->ssz[k]; k++) {
          if (in->s[k] != i) continue;
          if ((in->op->flags & VOP_SCALAR) && k >= 1) continue;
          if (!l0) { l0 = in->op->ssz[k]; m0 = mult; }
          else if (l0 * m0 == in->op->ssz[k] * mult && l0 != in->op->ssz[k]) ps->const_two_lanes = 1;
        }
      }
    }
    for (j = 0; j < ps->nins; j++)
      if (ps->ins[j].op->flags & VOP_ACC)
        for (k = 0; k < 3 && ps->ins[j].op->ssz[k]; k++)
          if (ps->vars[ps->ins[j].s[k]].kind != VK_SRC) ps->acc_nonarray = 1;
    for (i = 0; i < ps->nvars; i++) {
      int uses = 0;
      if (ps->vars[i].res_b < 0 && !ps->vars[i].up) continue;
      for (j = 0; j < ps->nins; j++)
        for (k = 0; k < 3 && ps->ins[j].op->ssz[k]; k++)
          if (ps->ins[j].s[k] == i) uses++;
      if (uses > 1) ps->ldres_shared = 1;
    }
  }
}

void ps_generate (VChoices *c, const GenOpts *o, ProgSpec *ps, VResult *r)
{
  Gen g;
  int i, target, tries, sat;
  uint32_t k, kraw;
  (void) r;
  memset (ps, 0, sizeof *ps);
  snprintf (ps->name, sizeof ps->name, "vprog");
  if (o->single_opcode >= 0) { ps_single (&v_optab[o->single_opcode], o->single_form, ps); return; }
  memset (&g, 0, sizeof g);
  g.ps = ps; g.o = o; g.c = c;
  for (i = 0; i < v_noptab; i++) if (op_allowed (&g, &v_optab[i])) g.ops[g.nops++] = i;
  kraw = vc_u32 (c);
  k = kraw % 8;
  /* the saturation decision rides on the upper bits of the first choice, so streams recorded earlier keep decoding the same way */
  sat = o->saturate > 0 && ((kraw >> 3) % (uint32_t) o->saturate) == 1;
  if (k < 4) target = 1 + (int) vc_pick (c, 4);
  else if (k < 7) target = 1 + (int) vc_pick (c, 12);
  else target = 1 + (int) vc_pick (c, (uint32_t) o->max_insns);
  if (o->min_insns > 0 && target < o->min_insns) target = o->min_insns;
  if (target > o->max_insns) target = o->max_insns;
  if (sat && target > 12) target = 12;
  if (o->allow_2d && vc_chance (c, 1, 4)) ps->is2d = 1;
  tries = 0;
  while (ps->nins < target && tries < target * 3 && g.nops) {
    const VOp *op = &v_optab[g.ops[vc_pick (c, (uint32_t) g.nops)]];
    tries++;
    if (g.est_temps + ps->count[VK_TEMP] > 50 || g.est_insns > 88) break;
    gen_insn (&g, op, ps->nins == target - 1);
  }
  if (sat) { ps_saturate (&g); ps->saturated = 1; }
  ps_finalize (&g);
  if (o->allow_flags) {
    uint32_t f = vc_pick (c, 16);
    if (f == 1) ps->const_n = 1 + (int) vc_pick (c, 100);
    else if (f == 2) ps->n_mult = 1 << vc_pick (c, 5);
    else if (f == 3) ps->n_min = 1 + (int) vc_pick (c, 40);
    else if (f == 4) ps->n_max = 1 + (int) vc_pick (c, 64);
    else if (f == 5) { ps->n_mult = 1 << vc_pick (c, 4); ps->n_min = ps->n_mult * (1 + (int) vc_pick (c, 4)); }
    if (ps->is2d && vc_chance (c, 1, 6)) ps->const_m = 1 + (int) vc_pick (c, 4);
  }
}

/* ---- single-opcode programs in every operand-kind / prefix / in-place / 2-D form ---- */

static int single_mults (const VOp *op, int *m)
{
  int n = 0;
  m[n++] = 1;
  if (!(op->flags & (VOP_ACC | VOP_LOAD | VOP_STORE)) || ps_plain_ldst (op)) {
    if (op_maxsize (op) * 2 <= 8) m[n++] = 2;
    if (op_maxsize (op) * 4 <= 8) m[n++] = 4;
  }
  return n;
}

/* kinds: 0 array, 1 const, 2 param */
static int single_kinds (const VOp *op, int j)
{
  if ((op->flags & VOP_LOAD) && j == 0) return 1;
  if ((op->flags & VOP_SCALAR) && j >= 1) return 2;      /* const, param */
  return 3;
}

int ps_single_forms (const VOp *op)
{
  int m[3], nm = single_mults (op, m), ns = op_nsrc (op), j, f = nm;
  for (j = 0; j < ns; j++) f *= single_kinds (op, j);
  f *= 2;                                /* 1-D / 2-D */
  if (!(op->flags & (VOP_ACC | VOP_LOAD)) && op->dsz[0] == op->ssz[0] && !op->dsz[1]) f *= 2;   /* in place */
  return f;
}

void ps_single (const VOp *op, int form, ProgSpec *ps)
{
  int m[3], nm = single_mults (op, m), ns = op_nsrc (op), nd = op_ndst (op), j, mult, inplace = 0;
  int fsrc = (op->flags & VOP_FSRC) != 0;
  PInsn in;
  memset (ps, 0, sizeof *ps);
  memset (&in, 0, sizeof in);
  snprintf (ps->name, sizeof ps->name, "single_%s_%d", op->name, form);
  in.op = op;
  mult = m[form % nm]; form /= nm;
  in.flags = mult == 2 ? ORC_INSTRUCTION_FLAG_X2 : mult == 4 ? ORC_INSTRUCTION_FLAG_X4 : 0;
  if (mult > 1) ps->has_x = 1;
  {
    int kinds[3];
    for (j = 0; j < ns; j++) { int nk = single_kinds (op, j); kinds[j] = form % nk; form /= nk; }
    ps->is2d = form % 2; form /= 2;
    if (!(op->flags & (VOP_ACC | VOP_LOAD)) && op->dsz[0] == op->ssz[0] && !op->dsz[1]) inplace = form % 2;
    for (j = 0; j < nd; j++) {
      int v = ps_addvar (ps, (op->flags & VOP_ACC) ? VK_ACC : VK_DEST, op->dsz[j] * ((op->flags & VOP_ACC) ? 1 : mult));
      ps->vars[v].written = 1;
      if (ps->vars[v].kind == VK_DEST) ps->vars[v].wrote_mem = 1;
      in.d[j] = v;
    }
    for (j = 0; j < ns; j++) {
      int v, scalar = (op->flags & VOP_SCALAR) && j >= 1;
      int k = kinds[j];
      if (scalar) k += 1;
      if ((op->flags & VOP_LOAD) && j == 0) k = 0;
      if (k == 0) {
        if (j == 0 && inplace && kinds[0] == 0) { v = in.d[0]; ps->has_inplace = 1; ps->vars[v].read = 1; }
        else v = ps_addvar (ps, VK_SRC, op->ssz[j] * (((op->flags & VOP_LOAD) && j == 0 && !ps_plain_ldst (op)) ? 1 : mult));
        if (!((op->flags & VOP_LOAD) && j == 0)) ps->vars[v].plain = 1;
      } else {
        v = ps_addvar (ps, k == 1 ? VK_CONST : VK_PARAM, op->ssz[j]);
        if (k == 2) {
          ps->vars[v].ptype = op->ssz[j] == 8 ? (fsrc ? PT_DOUBLE : PT_INT64) : (fsrc && op->ssz[j] == 4 ? PT_FLOAT : PT_INT);
        }
        if (scalar) {
          PVar *pv = &ps->vars[v];
          if (starts (op->name, "sh")) { pv->role = ROLE_SHIFT; pv->role_min = 0; pv->role_max = 8 * op->ssz[0] - 1; }
          else if (starts (op->name, "loadoff")) { pv->role = ROLE_OFFSET; pv->role_min = -9; pv->role_max = 9; }
          else if (starts (op->name, "ldres")) { pv->role = j == 1 ? ROLE_RES_B : ROLE_RES_C; pv->role_min = 0; pv->role_max = j == 1 ? (v_excluded ("ldres-start-int") ? 0xffff : 0x3ffff) : 0x2ffff; }
          pv->cval = pv->role == ROLE_SHIFT ? (uint64_t) (pv->role_max / 2 + 1) : pv->role == ROLE_OFFSET ? 3 :
              pv->role == ROLE_RES_B ? 0x8000 : pv->role == ROLE_RES_C ? 0x18000 : 3;
        } else {
          ps->vars[v].cval = fsrc && op->ssz[j] >= 4 ? (op->ssz[j] == 4 ? 0x40490fdbULL : 0x400921fb54442d18ULL) : v_boundary_value (op->ssz[j], 13);
        }
      }
      in.s[j] = v;
    }
  }
  if (op->flags & VOP_LOAD) {
    PVar *a = &ps->vars[in.s[0]];
    a->read = 1;
    if (starts (op->name, "loadoff")) { a->off_vars[a->noff++] = in.s[1]; ps->has_special_load = 1; }
    else if (starts (op->name, "loadup")) { a->up = 1; if (starts (op->name, "loadupib")) a->up_interp = 1; ps->has_special_load = 1; }
    else if (starts (op->name, "ldres")) { a->res_b = in.s[1]; a->res_c = in.s[2]; a->res_lin = starts (op->name, "ldreslin"); ps->has_special_load = 1;
      if (a->nres < 4) { a->res_bv[a->nres] = in.s[1]; a->res_cv[a->nres] = in.s[2]; a->nres++; } }
    else a->plain = 1;
  }
  if (op_is_float (op)) ps->has_float = 1;
  if (op->flags & VOP_ACC) ps->has_acc = 1;
  ps->ins[ps->nins++] = in;
}

/* ---- text ---- */

static const char *ptype_directive (const PVar *v)
{
  switch (v->ptype) {
    case PT_FLOAT: return ".floatparam";
    case PT_INT64: return ".longparam";
    case PT_DOUBLE: return ".doubleparam";
    default: return ".param";
  }
}

int ps_sprint_orc (const ProgSpec *ps, char *buf, size_t max)
{
  size_t len = 0;
  int i, j;
#define AP(...) do { int k_ = snprintf (buf + len, len < max ? max - len : 0, __VA_ARGS__); if (k_ > 0) len += (size_t) k_; if (len >= max) len = max - 1; } while (0)
  AP (".function %s\n", ps->name);
  if (ps->is2d) AP (".flags 2d\n");
  if (ps->const_n) AP (".n %d\n", ps->const_n);
  if (ps->n_mult) AP (".n mult %d\n", ps->n_mult);
  if (ps->n_min) AP (".n min %d\n", ps->n_min);
  if (ps->n_max) AP (".n max %d\n", ps->n_max);
  if (ps->const_m) AP (".m %d\n", ps->const_m);
  for (i = 0; i < ps->nvars; i++) {
    const PVar *v = &ps->vars[i];
    switch (v->kind) {
      case VK_DEST: AP (".dest %d %s", v->size, v->name); if (v->align) AP (" align %d", v->align); AP ("\n"); break;
      case VK_SRC: AP (".source %d %s", v->size, v->name); if (v->align) AP (" align %d", v->align); AP ("\n"); break;
      case VK_ACC: AP (".accumulator %d %s\n", v->size, v->name); break;
      case VK_CONST:
        if (v->size == 8) AP (".const %d %s 0x%llxL\n", v->size, v->name, (unsigned long long) v->cval);
        else AP (".const %d %s 0x%llx\n", v->size, v->name, (unsigned long long) v->cval);
        break;
      case VK_PARAM: AP ("%s %d %s\n", ptype_directive (v), v->size, v->name); break;
      case VK_TEMP: AP (".temp %d %s\n", v->size, v->name); break;
    }
  }
  for (i = 0; i < ps->nins; i++) {
    const PInsn *in = &ps->ins[i];
    int first = 1;
    if (in->flags & ORC_INSTRUCTION_FLAG_X2) AP ("x2 ");
    if (in->flags & ORC_INSTRUCTION_FLAG_X4) AP ("x4 ");
    AP ("%s ", in->op->name);
    for (j = 0; j < 2 && in->op->dsz[j]; j++) { AP ("%s%s", first ? "" : ", ", ps->vars[in->d[j]].name); first = 0; }
    for (j = 0; j < 3 && in->op->ssz[j]; j++) { AP ("%s%s", first ? "" : ", ", ps->vars[in->s[j]].name); first = 0; }
    AP ("\n");
  }
#undef AP
  buf[len] = 0;
  return (int) len;
}

void ps_print (const ProgSpec *ps, VResult *r)
{
  char *buf = (char *) malloc (V_DESC_MAX);
  int i;
  ps_sprint_orc (ps, buf, V_DESC_MAX);
  v_desc (r, "%s", buf);
  for (i = 0; i < ps->nvars; i++) {
    const PVar *v = &ps->vars[i];
    if ((v->kind == VK_PARAM || v->kind == VK_CONST) && v->role != ROLE_ANY)
      v_desc (r, "# %s role=%d range=[%d,%d]\n", v->name, v->role, v->role_min, v->role_max);
  }
  free (buf);
}

uint64_t ps_hash (const ProgSpec *ps)
{
  uint64_t h = 0xcbf29ce484222325ULL;
  int i, j;
  int hdr[6] = { ps->is2d, ps->const_n, ps->n_mult, ps->n_min, ps->n_max, ps->const_m };
  h = v_hash_bytes (h, hdr, sizeof hdr);
  for (i = 0; i < ps->nvars; i++) {
    const PVar *v = &ps->vars[i];
    int f[5] = { v->kind, v->size, v->align, v->ptype, v->role };
    h = v_hash_bytes (h, f, sizeof f);
    if (v->kind == VK_CONST) h = v_hash_bytes (h, &v->cval, 8);
  }
  for (i = 0; i < ps->nins; i++) {
    const PInsn *in = &ps->ins[i];
    h = v_hash_bytes (h, in->op->name, strlen (in->op->name));
    h = v_hash_bytes (h, &in->flags, sizeof in->flags);
    for (j = 0; j < 2 && in->op->dsz[j]; j++) h = v_hash_bytes (h, &in->d[j], sizeof (int));
    for (j = 0; j < 3 && in->op->ssz[j]; j++) h = v_hash_bytes (h, &in->s[j], sizeof (int));
  }
  return h;
}

/* ---- build through the public API ---- */

OrcProgram *ps_build (ProgSpec *ps)
{
  OrcProgram *p = orc_program_new ();
  int i, j;
  orc_program_set_name (p, ps->name);
  if (ps->is2d) orc_program_set_2d (p);
  if (ps->const_n) orc_program_set_constant_n (p, ps->const_n);
  if (ps->n_mult) orc_program_set_n_multiple (p, ps->n_mult);
  if (ps->n_min) orc_program_set_n_minimum (p, ps->n_min);
  if (ps->n_max) orc_program_set_n_maximum (p, ps->n_max);
  if (ps->const_m) orc_program_set_constant_m (p, ps->const_m);
  for (i = 0; i < ps->nvars; i++) {
    PVar *v = &ps->vars[i];
    const char *tn = v->type_name[0] ? v->type_name : NULL;
    switch (v->kind) {
      case VK_DEST: v->orcvar = orc_program_add_destination_full (p, v->size, v->name, tn, v->align); break;
      case VK_SRC: v->orcvar = orc_program_add_source_full (p, v->size, v->name, tn, v->align); break;
      case VK_ACC: v->orcvar = orc_program_add_accumulator (p, v->size, v->name); if (tn) orc_program_set_type_name (p, v->orcvar, tn); break;
      case VK_CONST:
        if (v->size == 8) v->orcvar = orc_program_add_constant_int64 (p, v->size, (orc_int64) v->cval, v->name);
        else {
          /* a 1- or 2-byte constant with its top bit set is passed either zero-extended (0xff) or sign-extended (-1): callers and
             the parser ("-1") do both, and only the low bytes may matter (a pure function of the program: no choice is consumed) */
          int iv = (int) (uint32_t) v->cval;
          if (v->size == 1 && (v->cval & 0x80) && (v_mix64 (v->cval * 31u + (uint64_t) i) & 1)) iv = (int) (int8_t) v->cval;
          if (v->size == 2 && (v->cval & 0x8000) && (v_mix64 (v->cval * 31u + (uint64_t) i) & 1)) iv = (int) (int16_t) v->cval;
          v->orcvar = orc_program_add_constant (p, v->size, iv, v->name);
        }
        break;
      case VK_PARAM:
        switch (v->ptype) {
          case PT_FLOAT: v->orcvar = orc_program_add_parameter_float (p, v->size, v->name); break;
          case PT_INT64: v->orcvar = orc_program_add_parameter_int64 (p, v->size, v->name); break;
          case PT_DOUBLE: v->orcvar = orc_program_add_parameter_double (p, v->size, v->name); break;
          default: v->orcvar = orc_program_add_parameter (p, v->size, v->name); break;
        }
        break;
      case VK_TEMP: v->orcvar = orc_program_add_temporary (p, v->size, v->name); break;
    }
  }
  for (i = 0; i < ps->nins; i++) {
    const PInsn *in = &ps->ins[i];
    int args[5] = { 0, 0, 0, 0, 0 }, n = 0;
    for (j = 0; j < 2 && in->op->dsz[j]; j++) args[n++] = ps->vars[in->d[j]].orcvar;
    for (j = 0; j < 3 && in->op->ssz[j]; j++) args[n++] = ps->vars[in->s[j]].orcvar;
    orc_program_append_2 (p, in->op->name, (unsigned) in->flags, args[0], args[1], args[2], args[3]);
  }
  return p;
}

/* ------------------------------------------------------------------ */
/* run configurations                                                  */

static int var_align (const PVar *v) { return v->align > v->size ? v->align : v->size; }

void rc_generate (VChoices *c, const ProgSpec *ps, const RunOpts *o, RunCfg *rc)
{
  int i, n;
  uint32_t k = vc_pick (c, 16);
  memset (rc, 0, sizeof *rc);
  if (k < 6) n = (int) vc_pick (c, 41);
  else if (k < 10) {            /* around multiples of vector widths */
    int w = 1 << (2 + vc_pick (c, 5)), q = 1 + (int) vc_pick (c, 4);
    n = w * q + (int) vc_pick (c, 3) - 1;
  } else if (k < 15) n = (int) vc_pick (c, (uint32_t) (o->n_max + 1));
  else {
    uint32_t raw = vc_u32 (c);
    n = o->big_n ? 1000 + (int) (raw % (uint32_t) o->big_n) : (int) (raw % (uint32_t) (o->n_max + 1));
    /* rows of tens of thousands of elements: 16.16 resampling positions pass 2^31, element indices pass 2^15/2^16
       (upper bits of the same choice) */
    if (o->huge_n && o->big_n && (raw / (uint32_t) o->big_n) % 4 == 3) n = 10000 + (int) ((raw / (uint32_t) o->big_n / 4) % 60001);
  }
  if (ps->const_n) n = ps->const_n;
  if (ps->n_max && n > ps->n_max) n = ps->n_max;
  if (ps->n_min && n < ps->n_min) n = ps->n_min;
  if (ps->n_mult) { n -= n % ps->n_mult; if (n < ps->n_min || (n == 0 && ps->n_min)) n = ps->n_min; }
  if (ps->n_mult && n % ps->n_mult) n += ps->n_mult - n % ps->n_mult;
  rc->n = n;
  rc->m = ps->is2d ? (int) vc_pick (c, (uint32_t) (o->m_max + 1)) : 1;
  if (ps->is2d && ps->const_m) rc->m = ps->const_m;
  {
    uint32_t pm = (uint32_t) o->placement_mask ? (uint32_t) o->placement_mask : 1u;
    int opts[3], no = 0;
    for (i = 0; i < 3; i++) if (pm & (1u << i)) opts[no++] = i;
    rc->placement = opts[vc_pick (c, (uint32_t) no)];
    rc->gap_unmapped = rc->placement != PLACE_FREE && vc_chance (c, 1, 2);
  }
  for (i = 0; i < ps->nvars; i++) {
    const PVar *v = &ps->vars[i];
    if (v->kind == VK_SRC || v->kind == VK_DEST) {
      int al = var_align (v);
      uint32_t ch = vc_u32 (c);
      rc->a[i].misalign = (int) ((ch % 64) / (uint32_t) al) * al;
      rc->a[i].extra_stride = (int) (((ch >> 6) % 5) * (uint32_t) al * ((ch >> 9) % 3 == 0 ? 1 : 4));
      rc->a[i].fill = (int) ((ch >> 12) % 7);
      /* bottom-up rows: the array pointer names the physically last row and the stride is negative (upper bits of the same
         choice, so earlier streams keep their other settings) */
      rc->a[i].neg_stride = ps->is2d && ((ch >> 20) % 4) == 3;
      if (ps->has_float && ((ch >> 16) & 1)) rc->a[i].fill = FILL_FLOATS;
      rc->a[i].seed = v_mix64 (ch);
    } else if (v->kind == VK_PARAM) {
      uint32_t ch = vc_u32 (c);
      if (v->role != ROLE_ANY) {
        uint32_t span = (uint32_t) (v->role_max - v->role_min + 1);
        rc->pval[i] = (uint64_t) (int64_t) (v->role_min + (int) (ch % span));
        if (v->size < 8) rc->pval[i] &= 0xffffffffULL;
      } else if (v->ptype == PT_FLOAT || v->ptype == PT_DOUBLE) {
        rc->pval[i] = v_float_value (v->size, ch);
      } else if (v->size == 8) {
        rc->pval[i] = v_value (8, ch);
      } else {
        /* callers pass an int: small sizes still get a full 32-bit value sometimes */
        rc->pval[i] = (ch & 1) ? v_value (4, ch >> 1) : v_value (v->size, ch >> 1);
      }
    }
  }
  /* resampling loads: keep b + c*(n-1) inside 31 bits (the position is a 32-bit int), shrinking n if needed */
  for (i = 0; i < ps->nvars; i++) {
    const PVar *v = &ps->vars[i];
    int q;
    for (q = 0; q < v->nres && v->kind == VK_SRC && !ps->const_n; q++) {
      int64_t b = (int32_t) (ps->vars[v->res_bv[q]].kind == VK_CONST ? ps->vars[v->res_bv[q]].cval : rc->pval[v->res_bv[q]]);
      int64_t cc = (int32_t) (ps->vars[v->res_cv[q]].kind == VK_CONST ? ps->vars[v->res_cv[q]].cval : rc->pval[v->res_cv[q]]);
      if (cc > 0 && b + cc * (int64_t) rc->n > 0x7fff0000LL) {
        int64_t nmax = (0x7fff0000LL - b) / cc;
        if (nmax < ps->n_min) nmax = ps->n_min;
        if (ps->n_mult) nmax -= nmax % ps->n_mult;
        rc->n = (int) nmax;
      }
    }
  }
  if (o->exhaustive_pairs) {
    /* operands take every byte pair (n = 65536): s1[i] = i & 255, s2[i] = i >> 8 */
    int ns = 0;
    rc->n = 65536; rc->m = 1;
    if (ps->is2d) rc->m = 1;
    for (i = 0; i < ps->nvars; i++) {
      if (ps->vars[i].kind == VK_SRC || (ps->vars[i].kind == VK_DEST && ps->vars[i].read)) {
        rc->a[i].fill = ns == 0 ? FILL_IDX_LO : FILL_IDX_HI;
        ns++;
      }
    }
  }
}

void rc_print (const ProgSpec *ps, const RunCfg *rc, VResult *r)
{
  int i;
  v_desc (r, "run n=%d m=%d placement=%d gap_unmapped=%d\n", rc->n, rc->m, rc->placement, rc->gap_unmapped);
  for (i = 0; i < ps->nvars; i++) {
    const PVar *v = &ps->vars[i];
    if (v->kind == VK_SRC || v->kind == VK_DEST)
      v_desc (r, "  %s misalign=%d extra_stride=%d%s fill=%d seed=%llx\n", v->name, rc->a[i].misalign,
          rc->a[i].extra_stride, rc->a[i].neg_stride ? " negative-stride" : "", rc->a[i].fill, (unsigned long long) rc->a[i].seed);
    else if (v->kind == VK_PARAM)
      v_desc (r, "  %s = 0x%llx\n", v->name, (unsigned long long) rc->pval[i]);
  }
}

uint64_t rc_hash (const RunCfg *rc, const ProgSpec *ps)
{
  uint64_t h = 0x1234567;
  int i;
  int hdr[4] = { rc->n, rc->m, rc->placement, rc->gap_unmapped };
  h = v_hash_bytes (h, hdr, sizeof hdr);
  for (i = 0; i < ps->nvars; i++) {
    h = v_hash_bytes (h, &rc->a[i], sizeof rc->a[i]);
    h = v_hash_bytes (h, &rc->pval[i], 8);
  }
  return h;
}

/* ------------------------------------------------------------------ */
/* entitlement and arena                                               */

static uint64_t scalar_value (const ProgSpec *ps, const RunCfg *rc, int v)
{
  const PVar *pv = &ps->vars[v];
  return pv->kind == VK_CONST ? pv->cval : rc->pval[v];
}

void ps_entitlement (const ProgSpec *ps, const RunCfg *rc, int v, long *lo, long *hi)
{
  const PVar *pv = &ps->vars[v];
  long n = rc->n, l = 0, h = 0;
  int k;
  /* destinations, and arrays nobody reads, are laid out for elements 0..n-1 */
  if (pv->kind == VK_DEST || pv->plain || (!pv->noff && !pv->up && pv->res_b < 0)) h = n;
  if (n > 0) {
    for (k = 0; k < pv->noff; k++) {
      long off = (long) (int32_t) scalar_value (ps, rc, pv->off_vars[k]);
      if (off < l) l = off;
      if (n + off > h) h = n + off;
      if (off < 0 && !pv->plain && pv->noff == 1 && !pv->up && pv->res_b < 0 && pv->kind == VK_SRC && n + off > 0) h = n + off;
    }
    if (pv->up) {
      /* loadupdb reads i>>1; loadupib additionally (i>>1)+1 for odd i */
      long mx = (n - 1) >> 1;
      if (pv->up_interp && ((n - 1) & 1)) mx = ((n - 1) >> 1) + 1;
      if (mx + 1 > h) h = mx + 1;
    }
    for (k = 0; k < pv->nres; k++) {
      int64_t b = (int32_t) scalar_value (ps, rc, pv->res_bv[k]), cc = (int32_t) scalar_value (ps, rc, pv->res_cv[k]);
      long mx = (long) ((b + cc * (n - 1)) >> 16) + 1;     /* +1 always granted (bilinear neighbour) */
      if (mx + 1 > h) h = mx + 1;
    }
  }
  if (h < l) h = l;
  *lo = l; *hi = h;
}

int arena_map_32bit;              /* set by callers that run 32-bit code: arrays are mapped below 4 GiB */
#define PAGE 4096
#define CANARY(off) ((unsigned char) (0x5a + 37 * (off)))

int arena_build (Arena *ar, const ProgSpec *ps, const RunCfg *rc, int protect_sources)
{
  int i;
  memset (ar, 0, sizeof *ar);
  ar->ps = ps; ar->rc = rc;
  for (i = 0; i < ps->nvars; i++) {
    const PVar *pv = &ps->vars[i];
    ArenaArr *a = &ar->a[i];
    long lo, hi, row_lo_b, row_hi_b, span, body, stride, r, rows;
    int al, placement = rc->placement, gapun = rc->gap_unmapped;
    size_t off;
    if (pv->kind != VK_SRC && pv->kind != VK_DEST) continue;
    al = var_align (pv);
    ps_entitlement (ps, rc, i, &lo, &hi);
    rows = rc->m < 1 ? 1 : rc->m;
    row_lo_b = lo * pv->size; row_hi_b = hi * pv->size;
    stride = row_hi_b - row_lo_b;
    stride = (stride + al - 1) / al * al + rc->a[i].extra_stride;
    if (!ps->is2d) { stride = 0; rows = 1; }
    if (placement != PLACE_FREE && gapun && ps->is2d) {
      long need = row_hi_b - row_lo_b;
      stride = (need + PAGE - 1) / PAGE * PAGE + PAGE;
    }
    span = stride * (rows - 1) + (row_hi_b - row_lo_b);
    if (placement == PLACE_FREE) body = span + 512 + 64;
    else body = span + PAGE;
    body = (body + PAGE - 1) / PAGE * PAGE;
    if (body == 0) body = PAGE;
    a->map_len = (size_t) body + 2 * PAGE;
    a->map = (unsigned char *) mmap (NULL, a->map_len, PROT_READ | PROT_WRITE, MAP_PRIVATE | MAP_ANONYMOUS | (arena_map_32bit ? MAP_32BIT : 0), -1, 0);
    if (a->map == MAP_FAILED) { a->map = NULL; return -1; }
    mprotect (a->map, PAGE, PROT_NONE);
    mprotect (a->map + PAGE + body, PAGE, PROT_NONE);
    a->lo = a->map + PAGE; a->hi = a->lo + body;
    if (placement == PLACE_TRAIL) {
      /* last entitled byte of the last row ends at the guard page (as far as alignment allows) */
      unsigned char *first_lo = a->hi - span;
      first_lo -= ((uintptr_t) (first_lo - row_lo_b)) % (uintptr_t) al;
      a->base = first_lo - row_lo_b;
    } else if (placement == PLACE_LEAD) {
      unsigned char *first_lo = a->lo;
      a->base = first_lo - row_lo_b;
      a->base += (al - ((uintptr_t) a->base % (uintptr_t) al)) % (uintptr_t) al;
    } else {
      a->base = a->lo + 256 - row_lo_b + rc->a[i].misalign;
      a->base += (al - ((uintptr_t) (a->lo + 256 - row_lo_b) % (uintptr_t) al)) % (uintptr_t) al;
    }
    if (rc->a[i].neg_stride && ps->is2d && rows >= 1) { a->base += (rows - 1) * stride; stride = -stride; }
    a->stride = (int) stride; a->size = pv->size; a->kind = pv->kind;
    a->ent_lo = lo; a->ent_hi = hi; a->rows = (int) rows;
    for (off = 0; off < (size_t) body; off++) a->lo[off] = CANARY (off);
    for (r = 0; r < rows; r++) {
      long e;
      for (e = lo; e < hi; e++) {
        uint64_t val = fill_value (rc->a[i].fill, rc->a[i].seed + (uint64_t) r * 7919, e - lo, pv->size);
        memcpy (a->base + r * stride + e * pv->size, &val, (size_t) pv->size);
      }
    }
    if (placement != PLACE_FREE && gapun) {
      /* unmap every body page that holds no entitled byte */
      long pg, npages = body / PAGE;
      for (pg = 0; pg < npages; pg++) {
        unsigned char *p0 = a->lo + pg * PAGE, *p1 = p0 + PAGE;
        int used = 0;
        for (r = 0; r < rows && !used; r++) {
          unsigned char *e0 = a->base + r * stride + row_lo_b, *e1 = a->base + r * stride + row_hi_b;
          if (e0 < p1 && e1 > p0) used = 1;
        }
        if (!used) mprotect (p0, PAGE, PROT_NONE);
      }
    }
  }
  /* snapshot + source protection after everything is filled */
  for (i = 0; i < ps->nvars; i++) {
    ArenaArr *a = &ar->a[i];
    if (!a->map) continue;
    if (protect_sources && a->kind == VK_SRC) {
      long pg, npages = (long) (a->hi - a->lo) / PAGE;
      for (pg = 0; pg < npages; pg++) {
        /* keep PROT_NONE pages as they are: only readable pages become read-only */
        unsigned char *p0 = a->lo + pg * PAGE;
        unsigned char vec;
        (void) vec;
        if (rc->placement != PLACE_FREE && rc->gap_unmapped) {
          long r; int used = 0;
          for (r = 0; r < a->rows && !used; r++) {
            unsigned char *e0 = a->base + r * a->stride + a->ent_lo * a->size, *e1 = a->base + r * a->stride + a->ent_hi * a->size;
            if (e0 < p0 + PAGE && e1 > p0) used = 1;
          }
          if (!used) continue;
        }
        mprotect (p0, PAGE, PROT_READ);
      }
    }
  }
  return 0;
}

void arena_free (Arena *ar)
{
  int i;
  for (i = 0; i < PS_MAXVARS; i++) if (ar->a[i].map) { munmap (ar->a[i].map, ar->a[i].map_len); ar->a[i].map = NULL; }
}

int arena_find (const Arena *ar, const void *addr, char *buf, size_t max)
{
  int i;
  const unsigned char *p = (const unsigned char *) addr;
  for (i = 0; i < PS_MAXVARS; i++) {
    const ArenaArr *a = &ar->a[i];
    if (!a->map) continue;
    if (p >= a->map && p < a->map + a->map_len) {
      long rel = (long) (p - a->base);
      long row = a->stride ? rel / a->stride : 0;
      long inrow, elem;
      if (row < 0) row = 0;
      if (row >= a->rows) row = a->rows - 1;
      inrow = rel - row * a->stride;
      elem = inrow >= 0 ? inrow / a->size : -((-inrow + a->size - 1) / a->size);
      snprintf (buf, max, "array %s (size %d) row %ld element %ld (byte %ld of row); entitled elements [%ld,%ld)",
          ar->ps->vars[i].name, a->size, row, elem, inrow, a->ent_lo, a->ent_hi);
      return i;
    }
  }
  snprintf (buf, max, "address %p outside every array mapping", addr);
  return -1;
}

void exec_setup (OrcExecutor *ex, OrcProgram *p, OrcCode *code, const ProgSpec *ps, const RunCfg *rc, Arena *ar)
{
  int i;
  memset (ex, 0, sizeof *ex);
  if (p) orc_executor_set_program (ex, p);
  else { ex->program = NULL; ex->arrays[ORC_VAR_A2] = code; }
  orc_executor_set_n (ex, rc->n);
  if (ps->is2d) orc_executor_set_m (ex, rc->m);
  for (i = 0; i < ps->nvars; i++) {
    const PVar *v = &ps->vars[i];
    if (v->kind == VK_SRC || v->kind == VK_DEST) {
      ex->arrays[v->orcvar] = ar->a[i].base;
      if (ps->is2d) orc_executor_set_stride (ex, v->orcvar, ar->a[i].stride);
    } else if (v->kind == VK_PARAM) {
      if (v->size == 8) orc_executor_set_param_int64 (ex, v->orcvar, (orc_int64) rc->pval[i]);
      else orc_executor_set_param (ex, v->orcvar, (int) (uint32_t) rc->pval[i]);
    }
  }
}

int arena_compare (const Arena *x, const Arena *e, const ProgSpec *ps, const RunCfg *rc,
    const OrcExecutor *exx, const OrcExecutor *exe, char *msg, size_t max)
{
  int i;
  long r, k;
  for (i = 0; i < ps->nvars; i++) {
    const PVar *v = &ps->vars[i];
    if (v->kind == VK_DEST) {
      const ArenaArr *ax = &x->a[i], *ae = &e->a[i];
      for (r = 0; r < ax->rows; r++) {
        const unsigned char *px = ax->base + r * ax->stride, *pe = ae->base + r * ae->stride;
        long nb = (long) rc->n * v->size;
        if (rc->n > 0 && memcmp (px, pe, (size_t) nb) != 0) {
          for (k = 0; k < nb && px[k] == pe[k]; k++) {}
          {
            long el = k / v->size;
            uint64_t vx = 0, ve = 0;
            memcpy (&vx, px + el * v->size, (size_t) v->size);
            memcpy (&ve, pe + el * v->size, (size_t) v->size);
            snprintf (msg, max, "dest %s row %ld element %ld: got 0x%llx, reference 0x%llx (n=%d)", v->name, r, el,
                (unsigned long long) vx, (unsigned long long) ve, rc->n);
          }
          return 1;
        }
      }
    } else if (v->kind == VK_ACC && exx && exe) {
      unsigned mask = v->size == 2 ? 0xffffu : 0xffffffffu;
      int slot = v->orcvar - ORC_VAR_A1;
      if (((unsigned) exx->accumulators[slot] & mask) != ((unsigned) exe->accumulators[slot] & mask)) {
        snprintf (msg, max, "accumulator %s: got 0x%x, reference 0x%x (n=%d m=%d)", v->name,
            (unsigned) exx->accumulators[slot] & mask, (unsigned) exe->accumulators[slot] & mask, rc->n, rc->m);
        return 1;
      }
    }
  }
  return 0;
}

/* every accessible byte outside the entitled destination elements still holds what arena_build put there */
int arena_check_untouched (const Arena *x, const ProgSpec *ps, const RunCfg *rc, char *msg, size_t max)
{
  int i;
  for (i = 0; i < ps->nvars; i++) {
    const PVar *v = &ps->vars[i];
    const ArenaArr *a = &x->a[i];
    long r, e;
    size_t off, body;
    unsigned char *expect;
    if (!a->map) continue;
    body = (size_t) (a->hi - a->lo);
    expect = (unsigned char *) malloc (body);
    for (off = 0; off < body; off++) expect[off] = CANARY (off);
    for (r = 0; r < a->rows; r++)
      for (e = a->ent_lo; e < a->ent_hi; e++) {
        uint64_t val = fill_value (rc->a[i].fill, rc->a[i].seed + (uint64_t) r * 7919, e - a->ent_lo, v->size);
        memcpy (expect + (a->base - a->lo) + r * a->stride + e * v->size, &val, (size_t) v->size);
      }
    for (off = 0; off < body; off++) {
      const unsigned char *p = a->lo + off;
      long pg = (long) off / PAGE;
      int skip = 0;
      /* skip unmapped gap pages */
      if (rc->placement != PLACE_FREE && rc->gap_unmapped) {
        unsigned char *p0 = a->lo + pg * PAGE;
        int used = 0;
        for (r = 0; r < a->rows && !used; r++) {
          unsigned char *e0 = a->base + r * a->stride + a->ent_lo * a->size, *e1 = a->base + r * a->stride + a->ent_hi * a->size;
          if (e0 < p0 + PAGE && e1 > p0) used = 1;
        }
        if (!used) { off = (size_t) (pg + 1) * PAGE - 1; continue; }
      }
      if (v->kind == VK_DEST && v->wrote_mem) {
        /* bytes of elements 0..n-1 of each row may change */
        long rel = (long) (p - a->base);
        for (r = 0; r < a->rows; r++) {
          long s0 = r * a->stride, s1 = s0 + (long) rc->n * v->size;
          if (rel >= s0 && rel < s1) { skip = 1; break; }
        }
      }
      if (skip) continue;
      if (*p != expect[off]) {
        char where[256];
        arena_find (x, p, where, sizeof where);
        snprintf (msg, max, "%s byte outside the writable elements changed (0x%02x -> 0x%02x): %s",
            v->kind == VK_SRC ? "source" : "destination", expect[off], *p, where);
        free (expect);
        return 1;
      }
    }
    free (expect);
  }
  return 0;
}
