/* Interface between a property harness (props/cNN_*.c) and the search drivers
 * (engine/driver.cc: rapidcheck / enumeration / replay, engine/fuzz_main.c:
 * libFuzzer).  A case is a "choice stream": a vector of 32-bit integers that a
 * total decoder inside the harness turns into a program, inputs, a history...
 * Every stream is a valid case, so generation needs no rejection, shrinking a
 * stream always gives another valid case, and the stream is the replay file.
 */
#ifndef VERIF_VCASE_H
#define VERIF_VCASE_H

#include <stddef.h>
#include <stdint.h>
#include <stdio.h>
#include <string.h>
#include <stdarg.h>

#ifdef __cplusplus
extern "C" {
#endif

typedef struct {
  const uint32_t *v;
  size_t n;
  size_t pos;
} VChoices;

static inline uint32_t vc_u32 (VChoices *c)
{
  return c->pos < c->n ? c->v[c->pos++] : 0;
}
/* value in [0,bound) */
static inline uint32_t vc_pick (VChoices *c, uint32_t bound)
{
  uint32_t x = vc_u32 (c);
  return bound ? x % bound : 0;
}
/* true with probability ~ num/den (0 always decodes to false) */
static inline int vc_chance (VChoices *c, uint32_t num, uint32_t den)
{
  return (vc_u32 (c) % den) >= (den - num);
}

enum { V_PASS = 0, V_FAIL = 1, V_DISCARD = 2, V_KNOWN = 3 };

#define V_DESC_MAX 16384
#define V_MSG_MAX 4096
#define V_SIG_MAX 256
#define V_STAGE_MAX 128
#define V_NCLASS 32
#define V_NSUB 64

/* Lives in MAP_SHARED memory so that what the child wrote survives its crash. */
typedef struct {
  int verdict;
  int nontrivial;
  uint64_t hash;              /* hash of the canonical case (distinctness) */
  uint32_t classes;           /* bit k set: case belongs to class k */
  uint64_t sub_evals;         /* inner evaluations (run configs, operand tuples) */
  uint64_t sub_nontrivial;
  uint32_t excluded;          /* things left out by construction (known findings) */
  char stage[V_STAGE_MAX];    /* what the child was doing (for crash signatures) */
  char sig[V_SIG_MAX];        /* failure signature, matched against known findings */
  char known_id[64];          /* id of the known finding that matched, if any */
  char msg[V_MSG_MAX];
  char desc[V_DESC_MAX];
  size_t desc_len;
} VResult;

/* ---- provided by each property harness ---- */
extern const char *vprop_id;
extern const char *vprop_class_names[V_NCLASS];   /* NULL-terminated prefix */
extern int vprop_fork;              /* 1: run every case in a forked child */
extern int vprop_cpu_limit_s;       /* RLIMIT_CPU for the child (0 = 20 s) */
void vprop_init (int argc, char **argv);
void vprop_case (VChoices *c, VResult *r);
/* systematic part: number of enumerated cases and the stream of the i-th */
uint64_t vprop_enum_count (const char *tier);
size_t vprop_enum_stream (uint64_t i, uint32_t *out, size_t max);

/* ---- helpers for harnesses (engine/vutil.c) ---- */
void v_desc (VResult *r, const char *fmt, ...) __attribute__ ((format (printf, 2, 3)));
void v_fail (VResult *r, const char *sig, const char *fmt, ...) __attribute__ ((format (printf, 3, 4)));
void v_stage (VResult *r, const char *fmt, ...) __attribute__ ((format (printf, 2, 3)));
uint64_t v_hash_bytes (uint64_t h, const void *p, size_t n);
uint64_t v_mix64 (uint64_t x);
/* known findings handed over by the driver (--known id=signature-prefix) */
const char *v_known_match (const char *sig);        /* returns id or NULL */
int v_excluded (const char *key);                   /* --exclude key */
void v_known_add (const char *id, const char *sigprefix);
void v_exclude_add (const char *key);
const char *v_arg (const char *name, const char *dflt);   /* --set name=value */
void v_arg_add (const char *kv);

#ifdef __cplusplus
}
#endif
#endif
