#ifndef VERIF_TRAMP_H
#define VERIF_TRAMP_H
#include <stdint.h>
#ifdef __cplusplus
extern "C" {
#endif
typedef struct {
  uint64_t seed_gpr[6];       /* rbx rbp r12 r13 r14 r15 */
  uint32_t seed_mxcsr;
  uint16_t seed_fpucw;
  uint16_t pad0;
  uint64_t out_gpr[6];
  uint32_t out_mxcsr;
  uint16_t out_fpucw;
  uint16_t out_fputag;
  uint64_t out_rflags;
  uint64_t rsp_before, rsp_after;
  uint64_t canary_bad;
  uint32_t saved_mxcsr;
  uint16_t saved_fpucw;
  uint16_t pad1;
  uint32_t seed_vec_enable;
  uint32_t pad2;
  uint64_t seed_ymm[16][4];
} VTramp;
void v_tramp_call (void (*fn) (void *), void *arg, VTramp *st);
static inline void v_tramp_default (VTramp *st)
{
  int i;
  for (i = 0; i < 6; i++) st->seed_gpr[i] = 0x1111111111111111ULL * (uint64_t) (i + 3) ^ 0xdeadbeefcafef00dULL;
  st->seed_mxcsr = 0x1f80;
  st->seed_fpucw = 0x037f;
  st->seed_vec_enable = 1;
  for (i = 0; i < 16; i++) {
    int k;
    for (k = 0; k < 4; k++) st->seed_ymm[i][k] = 0x7ff4deadbeef0000ULL + (uint64_t) (i * 4 + k) * 0x0101010100000101ULL;
  }
}
/* run an Orc executor function shielded from ABI violations of the callee */
static inline void v_shielded_call (void *fn, void *arg)
{
  VTramp st;
  v_tramp_default (&st);
  v_tramp_call ((void (*) (void *)) fn, arg, &st);
}
#ifdef __cplusplus
}
#endif
#endif
