#define _GNU_SOURCE
#include "run32.h"
#include <string.h>
#include <stdlib.h>
#include <unistd.h>
#include <sys/mman.h>
#include <sys/wait.h>

extern unsigned char v_blob32_start[], v_blob32_end[];
static unsigned char *low;
#define LOW_SIZE (1u << 20)
#define OFF_BLOB   0x00000
#define OFF_THUNK  0x01000
#define OFF_REGS   0x02000
#define OFF_CODE   0x10000      /* 64 KiB: the largest code Orc produces */
#define OFF_STACK  0x40000      /* grows down from OFF_STACK + 0x10000 */
#define OFF_EXEC   0x60000

int run32_init (void)
{
  if (low) return 0;
  low = (unsigned char *) mmap (NULL, LOW_SIZE, PROT_READ | PROT_WRITE | PROT_EXEC, MAP_PRIVATE | MAP_ANONYMOUS | MAP_32BIT, -1, 0);
  if (low == MAP_FAILED) { low = NULL; return -1; }
  if ((uintptr_t) low + LOW_SIZE > 0xffffffffu) { munmap (low, LOW_SIZE); low = NULL; return -1; }
  memcpy (low + OFF_BLOB, v_blob32_start, (size_t) (v_blob32_end - v_blob32_start));
  return 0;
}

void *run32_executor_mem (void) { return low ? low + OFF_EXEC : NULL; }

static void emit (unsigned char **p, const void *b, size_t n) { memcpy (*p, b, n); *p += n; }
static void imm (unsigned char **p, uint32_t v) { memcpy (*p, &v, 4); *p += 4; }

int run32_call (const void *code, int code_size, void *executor_low, Run32State *st)
{
  unsigned char *q;
  uint32_t regs, *rv;
  void (*blob) (uint32_t, uint32_t);
  uint32_t saved_mxcsr;
  struct { uint16_t cw, r0, sw, r1, tag, r2; uint32_t rest[4]; } env;
  uint64_t rflags;
  if (!low || code_size <= 0 || code_size > 0x30000 || (uintptr_t) executor_low > 0xffffffffu) return -1;
  memcpy (low + OFF_CODE, code, (size_t) code_size);
  regs = (uint32_t) (uintptr_t) (low + OFF_REGS);
  rv = (uint32_t *) (low + OFF_REGS);
  memset (rv, 0, 64);
  q = low + OFF_THUNK;
  emit (&q, "\x6a\x2b\x1f\x6a\x2b\x07", 6);                      /* push $0x2b; pop %ds; push $0x2b; pop %es */
  emit (&q, "\x89\x25", 2); imm (&q, regs + 16);                  /* mov %esp, regs[4] */
  emit (&q, "\xbb", 1); imm (&q, st->seed[0]);                    /* mov $, %ebx */
  emit (&q, "\xbe", 1); imm (&q, st->seed[1]);                    /* %esi */
  emit (&q, "\xbf", 1); imm (&q, st->seed[2]);                    /* %edi */
  emit (&q, "\xbd", 1); imm (&q, st->seed[3]);                    /* %ebp */
  emit (&q, "\x68", 1); imm (&q, (uint32_t) (uintptr_t) executor_low);   /* push executor */
  emit (&q, "\xb8", 1); imm (&q, (uint32_t) (uintptr_t) (low + OFF_CODE));
  emit (&q, "\xff\xd0", 2);                                       /* call *%eax */
  emit (&q, "\x89\x1d", 2); imm (&q, regs + 0);                   /* mov %ebx, regs[0] */
  emit (&q, "\x89\x35", 2); imm (&q, regs + 4);
  emit (&q, "\x89\x3d", 2); imm (&q, regs + 8);
  emit (&q, "\x89\x2d", 2); imm (&q, regs + 12);
  emit (&q, "\x83\xc4\x04", 3);                                   /* add $4, %esp */
  emit (&q, "\x89\x25", 2); imm (&q, regs + 20);                  /* mov %esp, regs[5] */
  emit (&q, "\xcb", 1);                                           /* lret */
  blob = (void (*) (uint32_t, uint32_t)) (void *) (low + OFF_BLOB);
  __asm__ volatile ("stmxcsr %0" : "=m" (saved_mxcsr));
  __asm__ volatile ("ldmxcsr %0" : : "m" (st->mxcsr_in));
  blob ((uint32_t) (uintptr_t) (low + OFF_THUNK), (uint32_t) (uintptr_t) (low + OFF_STACK + 0xfff0));
  __asm__ volatile ("stmxcsr %0" : "=m" (st->mxcsr_out));
  __asm__ volatile ("pushfq; pop %0; cld" : "=r" (rflags) : : "cc");
  __asm__ volatile ("fnstenv %0; fldenv %0" : "+m" (env));
  __asm__ volatile ("emms");
  __asm__ volatile ("ldmxcsr %0" : : "m" (saved_mxcsr));
  st->fputag_out = env.tag;
  st->df_out = (int) ((rflags >> 10) & 1);
  memcpy (st->out, rv, 16);
  st->esp_before = rv[4]; st->esp_after = rv[5];
  return 0;
}

int run32_probe (void)
{
  pid_t pid;
  int stt = 0;
  pid = fork ();
  if (pid < 0) return 0;
  if (pid == 0) {
    static const unsigned char ret32[] = { 0xc3 };      /* the "function": ret */
    Run32State st;
    alarm (10);
    if (run32_init ()) _exit (3);
    memset (&st, 0, sizeof st);
    st.seed[0] = 0x11111111; st.seed[1] = 0x22222222; st.seed[2] = 0x33333333; st.seed[3] = 0x44444444; st.mxcsr_in = 0x1f80;
    if (run32_call (ret32, 1, run32_executor_mem (), &st)) _exit (4);
    _exit (st.out[0] == 0x11111111 && st.out[3] == 0x44444444 && st.esp_before == st.esp_after ? 0 : 5);
  }
  if (waitpid (pid, &stt, 0) != pid) return 0;
  return WIFEXITED (stt) && WEXITSTATUS (stt) == 0;
}
