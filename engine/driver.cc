// Search driver shared by all property harnesses.
//   --mode rc      rapidcheck over choice streams (generation + shrinking)
//   --mode enum    systematic streams supplied by the harness (sharded)
//   --mode replay  re-run one saved stream, bypassing rapidcheck
// Every case runs in a forked child when the harness asks for it, so that a
// crash, abort, sanitizer report or CPU-limit overrun falsifies the case
// instead of ending the search.
#include <rapidcheck.h>

#include <algorithm>
#include <cerrno>
#include <csignal>
#include <cstdio>
#include <cstdlib>
#include <cstring>
#include <map>
#include <string>
#include <unordered_set>
#include <vector>

#include <sys/mman.h>
#include <sys/resource.h>
#include <sys/time.h>
#include <sys/wait.h>
#include <unistd.h>

#include "vcase.h"

static VResult *R;                     // shared memory
static bool g_completed = true;      // enum: all cases visited; rc: no budget cut
static bool keep_going = false;
static std::vector<std::string> all_fails;
static bool g_failed = false;          // a failing case has been seen (=> shrinking)
static std::vector<uint32_t> g_fail_stream;
static VResult g_fail_result;

struct Stats {
  uint64_t evaluations = 0, shrink_evals = 0, discards = 0, nontrivial = 0;
  uint64_t sub_evals = 0, sub_nontrivial = 0, excluded = 0, wall_timeouts = 0;
  uint64_t class_counts[V_NCLASS] = {0};
  std::unordered_set<uint64_t> distinct;
  std::vector<std::string> samples;
  std::map<std::string, std::pair<uint64_t, std::string>> known;   // id -> (count, example)
  uint64_t unstable = 0;
} S;

static std::string json_escape (const std::string &s)
{
  std::string o;
  for (unsigned char ch : s) {
    switch (ch) {
      case '"': o += "\\\""; break;
      case '\\': o += "\\\\"; break;
      case '\n': o += "\\n"; break;
      case '\t': o += "\\t"; break;
      case '\r': o += "\\r"; break;
      default:
        if (ch < 0x20 || ch >= 0x7f) { char b[8]; snprintf (b, sizeof b, "\\u%04x", ch); o += b; }
        else o += (char) ch;
    }
  }
  return o;
}

static const char *signame (int s)
{
  switch (s) {
    case SIGSEGV: return "SIGSEGV"; case SIGBUS: return "SIGBUS"; case SIGILL: return "SIGILL";
    case SIGABRT: return "SIGABRT"; case SIGFPE: return "SIGFPE"; case SIGXCPU: return "SIGXCPU";
    case SIGALRM: return "SIGALRM"; case SIGKILL: return "SIGKILL"; case SIGTRAP: return "SIGTRAP";
    default: return "SIG?";
  }
}

static int g_wall_limit = 120;

static void run_case (const std::vector<uint32_t> &stream)
{
  memset (R, 0, offsetof (VResult, desc) + 1);
  R->desc_len = 0;
  R->desc[0] = 0;
  VChoices c = { stream.data (), stream.size (), 0 };
  if (!vprop_fork) {
    vprop_case (&c, R);
  } else {
    fflush (NULL);
    pid_t pid = fork ();
    if (pid < 0) { perror ("fork"); exit (2); }
    if (pid == 0) {
      struct rlimit rl;
      rl.rlim_cur = vprop_cpu_limit_s ? vprop_cpu_limit_s : 20;
      rl.rlim_max = rl.rlim_cur + 2;
      setrlimit (RLIMIT_CPU, &rl);
      rl.rlim_cur = rl.rlim_max = 0;
      setrlimit (RLIMIT_CORE, &rl);
      alarm (g_wall_limit);
      vprop_case (&c, R);
      fflush (NULL);
      _exit (0);
    }
    int st = 0;
    while (waitpid (pid, &st, 0) < 0 && errno == EINTR) {}
    if ((WIFSIGNALED (st) || (WIFEXITED (st) && WEXITSTATUS (st) != 0)) && !strncmp (R->stage, "@notmine:", 9)) {
      /* the harness declared that a crash in this stage belongs to another property (e.g. the first compile of C17 is
         C05's business): counted as excluded, not as a pass of anything */
      R->verdict = V_PASS; R->nontrivial = 0; R->excluded++;
    } else if (WIFSIGNALED (st) && WTERMSIG (st) == SIGALRM) {
      /* wall-clock limit (machine load): inconclusive, never a violation; non-termination is judged by the CPU-time limit (SIGXCPU) */
      R->verdict = V_DISCARD; R->nontrivial = 0; S.wall_timeouts++;
    } else if (WIFSIGNALED (st)) {
      char sig[V_SIG_MAX];
      snprintf (sig, sizeof sig, "crash:%s:%s", signame (WTERMSIG (st)), R->stage);
      R->verdict = V_PASS;    // let v_fail record it
      v_fail (R, sig, "child terminated by %s during stage '%s'", signame (WTERMSIG (st)), R->stage);
    } else if (WIFEXITED (st) && WEXITSTATUS (st) != 0) {
      char sig[V_SIG_MAX];
      snprintf (sig, sizeof sig, "crash:exit%d:%s", WEXITSTATUS (st), R->stage);
      R->verdict = V_PASS;
      v_fail (R, sig, "child exited with status %d during stage '%s'", WEXITSTATUS (st), R->stage);
    }
  }
  if (R->verdict == V_FAIL) {
    const char *id = v_known_match (R->sig);
    if (id) { R->verdict = V_KNOWN; snprintf (R->known_id, sizeof R->known_id, "%s", id); }
  }
}

static void account (bool shrinking)
{
  if (shrinking) { S.shrink_evals++; return; }
  S.evaluations++;
  S.sub_evals += R->sub_evals;
  S.sub_nontrivial += R->sub_nontrivial;
  S.excluded += R->excluded;
  if (R->verdict == V_DISCARD) S.discards++;
  if (R->verdict == V_KNOWN) {
    auto &k = S.known[R->known_id];
    if (k.first++ == 0) k.second = std::string (R->sig) + " | " + R->msg + "\n" + R->desc;
  }
  if (R->nontrivial) {
    S.nontrivial++;
    S.distinct.insert (R->hash);
    for (int k = 0; k < V_NCLASS; k++) if (R->classes & (1u << k)) S.class_counts[k]++;
    uint64_t e = S.nontrivial;
    if (S.samples.size () < 8 && (e <= 2 || (e & (e - 1)) == 0)) S.samples.push_back (R->desc);
  }
}

static void write_replay (const char *path, const char *mode, const std::vector<uint32_t> &stream, const VResult &r)
{
  FILE *f = fopen (path, "w");
  if (!f) { perror (path); return; }
  fprintf (f, "orcverif-case v1\nproperty %s\nmode %s\nstream", vprop_id, mode);
  for (uint32_t x : stream) fprintf (f, " %u", x);
  fprintf (f, "\nsig %s\n", r.sig);
  fprintf (f, "# message: ");
  for (const char *p = r.msg; *p; p++) { fputc (*p, f); if (*p == '\n') fputs ("# ", f); }
  fprintf (f, "\n# case:\n# ");
  for (const char *p = r.desc; *p; p++) { fputc (*p, f); if (*p == '\n' && p[1]) fputs ("# ", f); }
  fprintf (f, "\n");
  fclose (f);
}

static bool read_replay (const char *path, std::vector<uint32_t> &stream)
{
  FILE *f = fopen (path, "r");
  if (!f) { perror (path); return false; }
  char *line = NULL; size_t cap = 0; bool ok = false;
  while (getline (&line, &cap, f) > 0) {
    if (strncmp (line, "stream", 6) == 0) {
      char *p = line + 6;
      for (;;) {
        char *e; unsigned long v = strtoul (p, &e, 10);
        if (e == p) break;
        stream.push_back ((uint32_t) v); p = e;
      }
      ok = true;
    }
  }
  free (line); fclose (f);
  return ok;
}

static void write_stats (const char *path, const char *mode, double wall, uint64_t seed)
{
  FILE *f = fopen (path, "w");
  if (!f) { perror (path); return; }
  fprintf (f, "{\n \"property\": \"%s\", \"mode\": \"%s\", \"seed\": %llu, \"wall_s\": %.3f,\n", vprop_id, mode,
      (unsigned long long) seed, wall);
  fprintf (f, " \"evaluations\": %llu, \"shrink_evaluations\": %llu, \"discards\": %llu, \"nontrivial\": %llu,\n",
      (unsigned long long) S.evaluations, (unsigned long long) S.shrink_evals, (unsigned long long) S.discards,
      (unsigned long long) S.nontrivial);
  fprintf (f, " \"wall_timeouts\": %llu,\n", (unsigned long long) S.wall_timeouts);
  fprintf (f, " \"sub_evaluations\": %llu, \"sub_nontrivial\": %llu, \"excluded\": %llu, \"unstable\": %llu,\n",
      (unsigned long long) S.sub_evals, (unsigned long long) S.sub_nontrivial, (unsigned long long) S.excluded,
      (unsigned long long) S.unstable);
  {
    std::string hp = std::string (path) + ".hashes";
    FILE *hf = fopen (hp.c_str (), "wb");
    if (hf) { for (uint64_t h : S.distinct) fwrite (&h, 8, 1, hf); fclose (hf); }
  }
  fprintf (f, " \"distinct_nontrivial\": %zu,\n \"classes\": {", S.distinct.size ());
  { bool first = true;
    for (int k = 0; k < V_NCLASS && vprop_class_names[k]; k++) {
      fprintf (f, "%s\"%s\": %llu", first ? "" : ", ", vprop_class_names[k], (unsigned long long) S.class_counts[k]); first = false; } }
  fprintf (f, "},\n \"samples\": [");
  for (size_t i = 0; i < S.samples.size (); i++) fprintf (f, "%s\"%s\"", i ? ", " : "", json_escape (S.samples[i]).c_str ());
  fprintf (f, "],\n \"known\": {");
  { bool first = true;
    for (auto &k : S.known) { fprintf (f, "%s\"%s\": {\"count\": %llu, \"example\": \"%s\"}", first ? "" : ", ", k.first.c_str (),
        (unsigned long long) k.second.first, json_escape (k.second.second).c_str ()); first = false; } }
  fprintf (f, "},\n \"completed\": %s, \"failed\": %s", g_completed ? "true" : "false", g_failed ? "true" : "false");
  if (g_failed) {
    fprintf (f, ",\n \"failure\": {\"sig\": \"%s\", \"msg\": \"%s\", \"desc\": \"%s\", \"stream_len\": %zu}",
        json_escape (g_fail_result.sig).c_str (), json_escape (g_fail_result.msg).c_str (),
        json_escape (g_fail_result.desc).c_str (), g_fail_stream.size ());
  }
  fprintf (f, ",\n \"all_failures\": [");
  for (size_t i = 0; i < all_fails.size (); i++) fprintf (f, "%s\"%s\"", i ? ",\n  " : "", json_escape (all_fails[i]).c_str ());
  fprintf (f, "]\n}\n");
  fclose (f);
}

static double now_s ()
{
  struct timeval tv; gettimeofday (&tv, NULL);
  return tv.tv_sec + tv.tv_usec * 1e-6;
}

int main (int argc, char **argv)
{
  const char *mode = "rc", *out = NULL, *replay_out = NULL, *file = NULL, *tier = "quick";
  uint64_t cases = 1000, seed = 1, shard = 0, nshards = 1;
  int max_size = 200, times = 3;
  uint64_t shrink_cap = 3000; double shrink_time_s = 40;
  double budget_s = 0;           // enum/rc: stop generating after this many seconds (inconclusive, not failure)
  for (int i = 1; i < argc; i++) {
    std::string a = argv[i];
    auto next = [&] () -> const char * { if (i + 1 >= argc) { fprintf (stderr, "missing value for %s\n", a.c_str ()); exit (2); } return argv[++i]; };
    if (a == "--mode") mode = next ();
    else if (a == "--cases") cases = strtoull (next (), NULL, 10);
    else if (a == "--max-size") max_size = atoi (next ());
    else if (a == "--seed") seed = strtoull (next (), NULL, 10);
    else if (a == "--out") out = next ();
    else if (a == "--replay-out") replay_out = next ();
    else if (a == "--file") file = next ();
    else if (a == "--times") times = atoi (next ());
    else if (a == "--tier") tier = next ();
    else if (a == "--shard") shard = strtoull (next (), NULL, 10);
    else if (a == "--nshards") nshards = strtoull (next (), NULL, 10);
    else if (a == "--budget") budget_s = atof (next ());
    else if (a == "--keep-going") keep_going = true;
    else if (a == "--shrink-cap") shrink_cap = strtoull (next (), NULL, 10);
    else if (a == "--shrink-time") shrink_time_s = atof (next ());
    else if (a == "--wall-limit") g_wall_limit = atoi (next ());
    else if (a == "--known") { std::string kv = next (); size_t p = kv.find ('='); if (p != std::string::npos) v_known_add (kv.substr (0, p).c_str (), kv.substr (p + 1).c_str ()); }
    else if (a == "--exclude") v_exclude_add (next ());
    else if (a == "--set") v_arg_add (next ());
    else { fprintf (stderr, "unknown argument %s\n", a.c_str ()); return 2; }
  }
  v_arg_add ((std::string ("tier=") + tier).c_str ());
  R = (VResult *) mmap (NULL, sizeof (VResult), PROT_READ | PROT_WRITE, MAP_SHARED | MAP_ANONYMOUS, -1, 0);
  if (R == MAP_FAILED) { perror ("mmap"); return 2; }
  vprop_init (argc, argv);
  double t0 = now_s ();

  if (!strcmp (mode, "replay")) {
    std::vector<uint32_t> stream;
    if (!file || !read_replay (file, stream)) { fprintf (stderr, "cannot read replay file\n"); return 2; }
    int fails = 0, known = 0;
    for (int t = 0; t < times; t++) {
      run_case (stream);
      if (R->verdict == V_FAIL) fails++;
      if (R->verdict == V_KNOWN) known++;
      printf ("replay %d/%d: %s sig=%s\n", t + 1, times,
          R->verdict == V_FAIL ? "FAIL" : R->verdict == V_KNOWN ? "KNOWN" : R->verdict == V_DISCARD ? "DISCARD" : "PASS", R->sig);
      if (t == 0) { printf ("%s\n", R->desc); if (R->msg[0]) printf ("message: %s\n", R->msg); }
    }
    if (known == times) { printf ("REPLAY-KNOWN %s\n", R->known_id); return 3; }
    if (fails == times) { printf ("REPLAY-FAIL %s\n", R->sig); return 1; }
    if (fails + known > 0) { printf ("REPLAY-UNSTABLE\n"); return 4; }
    printf ("REPLAY-PASS\n");
    return 0;
  }

  if (!strcmp (mode, "enum")) {
    uint64_t count = vprop_enum_count (tier);
    std::vector<uint32_t> buf (4096);
    for (uint64_t i = shard; i < count; i += nshards) {
      if (budget_s > 0 && now_s () - t0 > budget_s) { g_completed = false; break; }
      size_t n = vprop_enum_stream (i, buf.data (), buf.size ());
      std::vector<uint32_t> stream (buf.begin (), buf.begin () + n);
      run_case (stream);
      account (false);
      if (R->verdict == V_FAIL) {
        if (keep_going) {
          if (all_fails.size () < 2000) all_fails.push_back (std::to_string (i) + " | " + R->sig + " | " + R->msg);
          if (!g_failed) { g_fail_stream = stream; g_fail_result = *R; }
          g_failed = true;
          continue;
        }
        g_failed = true; g_fail_stream = stream; g_fail_result = *R;
        break;
      }
    }
  } else {
    char params[256];
    snprintf (params, sizeof params, "seed=%llu max_success=%llu max_size=%d max_discard_ratio=100 noshrink=0",
        (unsigned long long) seed, (unsigned long long) cases, max_size);
    setenv ("RC_PARAMS", params, 1);
    auto elem = rc::gen::oneOf (rc::gen::resize (rc::kNominalSize, rc::gen::arbitrary<uint32_t> ()),
                                rc::gen::arbitrary<uint32_t> ());
    auto gen = rc::gen::container<std::vector<uint32_t>> (elem);
    bool budget_hit = false;
    double t_fail = 0;
    // stderr of rapidcheck (counterexample dump of a huge vector) is not useful: our replay file is.
    rc::check ("property holds for every choice stream", [&] () {
      if (budget_hit) return;
      if (!g_failed && budget_s > 0 && now_s () - t0 > budget_s) { budget_hit = true; g_completed = false; return; }
      const auto stream = *gen;
      // bound the shrink phase: after the cap every candidate "passes", which makes rapidcheck
      // settle on the smallest failing stream seen so far (kept in g_fail_stream)
      if (g_failed && (S.shrink_evals > shrink_cap || now_s () - t_fail > shrink_time_s)) return;
      run_case (stream);
      account (g_failed);
      if (R->verdict == V_FAIL) {
        if (!g_failed) t_fail = now_s ();
        g_failed = true; g_fail_stream = stream; g_fail_result = *R;
        RC_FAIL (std::string (R->sig));
      }
    });
  }

  // positional post-shrink: zero elements / cut the tail (keeps the meaning of the other positions)
  if (g_failed && !keep_going && strcmp (mode, "rc") == 0) {
    std::vector<uint32_t> best = g_fail_stream;
    std::string want = g_fail_result.sig;
    auto fails = [&] (const std::vector<uint32_t> &st) {
      run_case (st); S.shrink_evals++;
      return R->verdict == V_FAIL && want == R->sig;
    };
    double tps = now_s ();
    bool improved = true;
    int rounds = 0;
    while (improved && rounds++ < 4 && now_s () - tps < 60) {
      improved = false;
      // cut the tail
      size_t lo = 0, hi = best.size ();
      while (lo < hi) {
        size_t mid = (lo + hi) / 2;
        std::vector<uint32_t> t (best.begin (), best.begin () + mid);
        if (fails (t)) { hi = mid; g_fail_result = *R; } else lo = mid + 1;
      }
      if (hi < best.size ()) {
        std::vector<uint32_t> t (best.begin (), best.begin () + hi);
        if (fails (t)) { best = t; g_fail_result = *R; improved = true; }
      }
      for (size_t i = 0; i < best.size () && now_s () - tps < 60; i++) {
        if (best[i] == 0) continue;
        std::vector<uint32_t> t = best;
        t[i] = 0;
        if (fails (t)) { best = t; g_fail_result = *R; improved = true; continue; }
        if (best[i] > 16) { t[i] = best[i] % 16; if (fails (t)) { best = t; g_fail_result = *R; improved = true; } }
      }
    }
    // make sure g_fail_result describes `best`
    run_case (best);
    if (R->verdict == V_FAIL) { g_fail_stream = best; g_fail_result = *R; }
  }

  double wall = now_s () - t0;
  if (g_failed && replay_out) write_replay (replay_out, mode, g_fail_stream, g_fail_result);
  if (out) write_stats (out, mode, wall, seed);
  if (g_failed) { printf ("FALSIFIED sig=%s\n%s\n", g_fail_result.sig, g_fail_result.msg); return 1; }
  return 0;
}
