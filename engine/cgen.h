/* Compile the C source Orc generates for a program with the system C compiler and load it.
 * Shared by C04 (generated C == emulation), C18 (float paths) and C07 helpers. */
#ifndef VERIF_CGEN_H
#define VERIF_CGEN_H
#include "prog.h"
#ifdef __cplusplus
extern "C" {
#endif

typedef void (*CgFn) (OrcExecutor *);
enum { CG_FULL = 0,     /* target flags 0: complete function `name (OrcExecutor *ex)` */
       CG_BARE = 1,     /* ORC_TARGET_C_BARE: body, wrapped like orcc's _backup_ function */
       CG_NOEXEC = 2,   /* ORC_TARGET_C_BARE|ORC_TARGET_C_NOEXEC: body over named arguments (orcc's DISABLE_ORC function),
                           wrapped in a function that unpacks an OrcExecutor into those names */
       CG_NVARIANTS = 3 };

typedef struct {
  void *handle;
  CgFn fn;
  char *source;          /* the complete C file (malloc'd) */
  char err[1500];        /* compiler diagnostics or reason */
} CgUnit;

/* p: program built from ps (ps_build), not yet compiled or compiled for anything.
 * returns 0 ok; 1 Orc's C target refused the program (u->err has the result name); 2 the C compiler rejected the source;
 * 3 environment problem (cannot write/dlopen). */
int cg_make (OrcProgram *p, const ProgSpec *ps, int variant, const char *cc_opt, const char *scratch_dir, CgUnit *u);
void cg_close (CgUnit *u);
const char *cg_variant_name (int variant);

#ifdef __cplusplus
}
#endif
#endif
