#include "refprog.h"
#include "refsem.h"
#include <stdlib.h>
#include <math.h>
#include <xmmintrin.h>

typedef struct { uint64_t v; uint8_t fr, nan, nanw, thr, spec; } RV;

int refprog_is_float_op (const VOp *op) { return (op->flags & (VOP_FSRC | VOP_FDEST)) != 0; }

static uint64_t trunc_to (uint64_t v, int size) { return size >= 8 ? v : (v & ((1ULL << (8 * size)) - 1)); }
static uint64_t lane_get (uint64_t v, int lane, int lsize) { return trunc_to (v >> (8 * lane * lsize), lsize); }
static uint8_t mask_get (uint8_t m, int lane, int lsize) { return (uint8_t) ((m >> (lane * lsize)) & ((1u << lsize) - 1)); }
static uint64_t splat (uint64_t v, int lsize, int lanes)
{
  uint64_t o = 0;
  int k;
  v = trunc_to (v, lsize);
  for (k = 0; k < lanes; k++) o |= v << (8 * k * lsize);
  return o;
}

/* ---- float lanes ---- */
static uint32_t flush32 (uint32_t x) { return (x & 0x7f800000u) == 0 ? (x & 0x80000000u) : x; }
static uint64_t flush64 (uint64_t x) { return (x & 0x7ff0000000000000ULL) == 0 ? (x & 0x8000000000000000ULL) : x; }
static int isnan32 (uint32_t x) { return (x & 0x7f800000u) == 0x7f800000u && (x & 0x007fffffu); }
static int isnan64 (uint64_t x) { return (x & 0x7ff0000000000000ULL) == 0x7ff0000000000000ULL && (x & 0x000fffffffffffffULL); }
static int isspecial32 (uint32_t x) { uint32_t e = x & 0x7f800000u; return e == 0 || e == 0x7f800000u; }
static int isspecial64 (uint64_t x) { uint64_t e = x & 0x7ff0000000000000ULL; return e == 0 || e == 0x7ff0000000000000ULL; }
static float f32 (uint32_t b) { float f; memcpy (&f, &b, 4); return f; }
static uint32_t b32 (float f) { uint32_t b; memcpy (&b, &f, 4); return b; }
static double f64 (uint64_t b) { double f; memcpy (&f, &b, 8); return f; }
static uint64_t b64 (double f) { uint64_t b; memcpy (&b, &f, 8); return b; }

enum { L_OK = 0, L_NAN = 1, L_FREE = 2 };
typedef struct { uint64_t bits; int st; int thr; int spec; } Lane;

/* returns 1 if `name` is a float/double opcode handled here */
static int float_lane (const char *name, const Lane *a, const Lane *b, Lane *o, RefOut *out)
{
  volatile float r32; volatile double r64;
  size_t len = strlen (name);
  int dbl;
  memset (o, 0, sizeof *o);
  o->thr = a->thr | (b ? b->thr : 0);
  if (!strcmp (name, "andf") || !strcmp (name, "orf")) {
    if (a->st != L_OK || b->st != L_OK) { o->st = L_FREE; return 1; }
    o->bits = name[0] == 'a' ? (a->bits & b->bits) : (a->bits | b->bits);
    o->bits &= 0xffffffffu;
    return 1;
  }
  if (!strcmp (name, "convlf")) { if (a->st != L_OK) { o->st = L_FREE; return 1; } r32 = (float) (int32_t) (uint32_t) a->bits; o->bits = b32 (r32); return 1; }
  if (!strcmp (name, "convwf")) { if (a->st != L_OK) { o->st = L_FREE; return 1; } r32 = (float) (int16_t) (uint16_t) a->bits; o->bits = b32 (r32); return 1; }
  if (!strcmp (name, "convld")) { if (a->st != L_OK) { o->st = L_FREE; return 1; } r64 = (double) (int32_t) (uint32_t) a->bits; o->bits = b64 (r64); return 1; }
  if (!strcmp (name, "convfl")) {
    uint32_t x = (uint32_t) a->bits;
    float f;
    if (a->st != L_OK || isnan32 (x)) { o->st = L_FREE; o->spec = 1; return 1; }
    f = f32 (x);
    if (f >= 2147483648.0f) { o->bits = 0x7fffffffu; out->n_saturated++; o->spec = 1; }
    else if (f < -2147483648.0f) { o->bits = 0x80000000u; out->n_saturated++; o->spec = 1; }
    else o->bits = (uint32_t) (int32_t) f;
    if (isspecial32 (x)) o->spec = 1;
    return 1;
  }
  if (!strcmp (name, "convdl")) {
    uint64_t x = a->bits;
    double d;
    if (a->st != L_OK || isnan64 (x)) { o->st = L_FREE; o->spec = 1; return 1; }
    d = f64 (x);
    if (d >= 2147483648.0) { o->bits = 0x7fffffffu; out->n_saturated++; o->spec = 1; }
    else if (d <= -2147483649.0) { o->bits = 0x80000000u; out->n_saturated++; o->spec = 1; }
    else o->bits = (uint32_t) (int32_t) d;
    if (isspecial64 (x)) o->spec = 1;
    return 1;
  }
  if (!strcmp (name, "convfd")) {
    uint32_t x;
    if (a->st == L_FREE) { o->st = L_FREE; return 1; }
    x = flush32 ((uint32_t) a->bits);
    if (a->st == L_NAN || isnan32 (x)) { o->st = L_NAN; o->spec = 1; return 1; }
    if (x != (uint32_t) a->bits) { out->n_flushed++; }
    if (isspecial32 ((uint32_t) a->bits)) o->spec = 1;
    r64 = (double) f32 (x);
    o->bits = b64 (r64);
    return 1;
  }
  if (!strcmp (name, "convdf")) {
    uint64_t x;
    uint32_t rb;
    if (a->st == L_FREE) { o->st = L_FREE; return 1; }
    x = flush64 (a->bits);
    if (a->st == L_NAN || isnan64 (x)) { o->st = L_NAN; o->spec = 1; return 1; }
    if (isspecial64 (a->bits)) o->spec = 1;
    r32 = (float) f64 (x);
    rb = b32 (r32);
    if ((rb & 0x7fffffffu) == 0x00800000u) { o->thr = 1; out->n_threshold++; }
    if (flush32 (rb) != rb) { out->n_flushed++; o->spec = 1; }
    if (isspecial32 (rb)) o->spec = 1;
    o->bits = flush32 (rb);
    return 1;
  }
  if (len < 4) return 0;
  dbl = name[len - 1] == 'd';
  if (name[len - 1] != 'f' && !dbl) return 0;
  {
    char base[16];
    int binary, cmp, mm, isop;
    if (len - 1 >= sizeof base) return 0;
    memcpy (base, name, len - 1); base[len - 1] = 0;
    isop = !strcmp (base, "add") || !strcmp (base, "sub") || !strcmp (base, "mul") || !strcmp (base, "div") || !strcmp (base, "sqrt")
        || !strcmp (base, "min") || !strcmp (base, "max") || !strcmp (base, "cmpeq") || !strcmp (base, "cmplt") || !strcmp (base, "cmple");
    if (!isop) return 0;
    binary = strcmp (base, "sqrt") != 0;
    cmp = !strncmp (base, "cmp", 3);
    mm = !strcmp (base, "min") || !strcmp (base, "max");
    if (a->st == L_FREE || (binary && b->st == L_FREE)) { o->st = L_FREE; return 1; }
    if (!dbl) {
      uint32_t xa = flush32 ((uint32_t) a->bits), xb = binary ? flush32 ((uint32_t) b->bits) : 0, rb;
      int nan = a->st == L_NAN || isnan32 (xa) || (binary && (b->st == L_NAN || isnan32 (xb)));
      float fa, fb;
      if (xa != (uint32_t) a->bits || (binary && xb != (uint32_t) b->bits)) { out->n_flushed++; o->spec = 1; }
      if (isspecial32 (xa) || (binary && isspecial32 (xb))) o->spec = 1;
      if (cmp) {
        if (nan) { o->bits = 0; return 1; }
        fa = f32 (xa); fb = f32 (xb);
        o->bits = (base[3] == 'e' ? fa == fb : base[4] == 't' ? fa < fb : fa <= fb) ? 0xffffffffu : 0;
        return 1;
      }
      if (nan) { o->st = L_NAN; return 1; }
      fa = f32 (xa); fb = f32 (xb);
      if (mm) {
        if (fa == fb && xa != xb) { o->st = L_FREE; return 1; }     /* +0 / -0: either one */
        o->bits = base[1] == 'i' ? (fa < fb ? xa : xb) : (fa > fb ? xa : xb);
        return 1;
      }
      switch (base[0]) {
        case 'a': r32 = fa + fb; break;
        case 's': if (base[1] == 'u') r32 = fa - fb; else r32 = sqrtf (fa); break;
        case 'm': r32 = fa * fb; break;
        default: r32 = fa / fb; break;
      }
      rb = b32 (r32);
      if (isnan32 (rb)) { o->st = L_NAN; o->spec = 1; return 1; }
      if ((rb & 0x7fffffffu) == 0x00800000u && (base[0] == 'm' || base[0] == 'd')) { o->thr = 1; out->n_threshold++; }
      if (flush32 (rb) != rb) { out->n_flushed++; o->spec = 1; }
      if (isspecial32 (rb)) o->spec = 1;
      o->bits = flush32 (rb);
      return 1;
    } else {
      uint64_t xa = flush64 (a->bits), xb = binary ? flush64 (b->bits) : 0, rb;
      int nan = a->st == L_NAN || isnan64 (xa) || (binary && (b->st == L_NAN || isnan64 (xb)));
      double fa, fb;
      if (xa != a->bits || (binary && xb != b->bits)) { out->n_flushed++; o->spec = 1; }
      if (isspecial64 (xa) || (binary && isspecial64 (xb))) o->spec = 1;
      if (cmp) {
        if (nan) { o->bits = 0; return 1; }
        fa = f64 (xa); fb = f64 (xb);
        o->bits = (base[3] == 'e' ? fa == fb : base[4] == 't' ? fa < fb : fa <= fb) ? ~0ULL : 0;
        return 1;
      }
      if (nan) { o->st = L_NAN; return 1; }
      fa = f64 (xa); fb = f64 (xb);
      if (mm) {
        if (fa == fb && xa != xb) { o->st = L_FREE; return 1; }
        o->bits = base[1] == 'i' ? (fa < fb ? xa : xb) : (fa > fb ? xa : xb);
        return 1;
      }
      switch (base[0]) {
        case 'a': r64 = fa + fb; break;
        case 's': if (base[1] == 'u') r64 = fa - fb; else r64 = sqrt (fa); break;
        case 'm': r64 = fa * fb; break;
        default: r64 = fa / fb; break;
      }
      rb = b64 (r64);
      if (isnan64 (rb)) { o->st = L_NAN; o->spec = 1; return 1; }
      if ((rb & 0x7fffffffffffffffULL) == 0x0010000000000000ULL && (base[0] == 'm' || base[0] == 'd')) { o->thr = 1; out->n_threshold++; }
      if (flush64 (rb) != rb) { out->n_flushed++; o->spec = 1; }
      if (isspecial64 (rb)) o->spec = 1;
      o->bits = flush64 (rb);
      return 1;
    }
  }
}

static int float_dest_width (const VOp *op) { return op->dsz[0]; }

void refprog_free (RefOut *out, const ProgSpec *ps)
{
  int i;
  for (i = 0; i < ps->nvars; i++) { free (out->val[i]); free (out->free_el[i]); free (out->nan_el[i]); free (out->nan_mask[i]); free (out->thr_el[i]); }
  memset (out, 0, sizeof *out);
}

int refprog_run (const ProgSpec *ps, const RunCfg *rc, const Arena *pristine, RefOut *out)
{
  static RV vals[PS_MAXVARS];
  int acc_free[PS_MAXVARS];
  uint64_t acc[PS_MAXVARS];
  int rows = ps->is2d ? rc->m : 1, r, j, k, l;
  long i;
  unsigned saved_csr = _mm_getcsr ();
  memset (out, 0, sizeof *out);
  memset (acc, 0, sizeof acc); memset (acc_free, 0, sizeof acc_free);
  out->rows = rows; out->n = rc->n;
  _mm_setcsr (0x1f80);
  for (j = 0; j < ps->nvars; j++) {
    const PVar *v = &ps->vars[j];
    if (v->kind == VK_DEST) {
      size_t ne = (size_t) rows * (size_t) (rc->n > 0 ? rc->n : 0) + 1;
      out->val[j] = (unsigned char *) calloc (ne, (size_t) v->size);
      out->free_el[j] = (unsigned char *) calloc (ne, 1);
      out->nan_el[j] = (unsigned char *) calloc (ne, 1);
      out->nan_mask[j] = (unsigned char *) calloc (ne, 1);
      out->thr_el[j] = (unsigned char *) calloc (ne, 1);
      /* elements no instruction writes keep what the arena holds */
      for (r = 0; r < rows; r++)
        if (rc->n > 0) memcpy (out->val[j] + (size_t) r * (size_t) rc->n * (size_t) v->size, pristine->a[j].base + (long) r * pristine->a[j].stride, (size_t) rc->n * (size_t) v->size);
    }
  }
  for (r = 0; r < rows; r++) {
    for (i = 0; i < rc->n; i++) {
      for (j = 0; j < ps->nins; j++) {
        const PInsn *in = &ps->ins[j];
        const VOp *op = in->op;
        int mult = (in->flags & ORC_INSTRUCTION_FLAG_X2) ? 2 : (in->flags & ORC_INSTRUCTION_FLAG_X4) ? 4 : 1;
        RV sv[3], dv[2];
        memset (sv, 0, sizeof sv); memset (dv, 0, sizeof dv);
        for (k = 0; k < 3 && op->ssz[k]; k++) {
          const PVar *v = &ps->vars[in->s[k]];
          int is_scalar = (op->flags & VOP_SCALAR) && k >= 1;
          if ((op->flags & VOP_LOAD) && k == 0) continue;
          switch (v->kind) {
            case VK_SRC: case VK_DEST: {
              const ArenaArr *a = &pristine->a[in->s[k]];
              uint64_t x = 0;
              memcpy (&x, a->base + (long) r * a->stride + i * v->size, (size_t) v->size);
              sv[k].v = x;
              break;
            }
            case VK_CONST: sv[k].v = is_scalar ? v->cval : splat (v->cval, op->ssz[k], mult); break;
            case VK_PARAM: sv[k].v = is_scalar ? rc->pval[in->s[k]] : splat (rc->pval[in->s[k]], op->ssz[k], mult); break;
            default: sv[k] = vals[in->s[k]]; break;
          }
        }
        if (op->flags & VOP_LOAD) {
          const ArenaArr *a = &pristine->a[in->s[0]];
          int ok = 0;
          if (sv[1].fr || sv[1].nan || sv[2].fr || sv[2].nan) { snprintf (out->why, sizeof out->why, "load offset depends on an unpinned value"); out->unsupported = 1; goto done; }
          if (mult > 1 && ps_plain_ldst (op)) {
            /* a prefixed loadX reads one element of the array's own (2x / 4x) size */
            uint64_t x = 0;
            memcpy (&x, a->base + (long) r * a->stride + i * ps->vars[in->s[0]].size, (size_t) ps->vars[in->s[0]].size);
            dv[0].v = x; ok = 1;
          } else
          dv[0].v = ref_load (op->name, a->base + (long) r * a->stride, i, (int32_t) sv[1].v, (int32_t) sv[2].v, &ok);
          if (!ok) { snprintf (out->why, sizeof out->why, "no load semantics for %s", op->name); out->unsupported = 1; goto done; }
        } else if (op->flags & VOP_ACC) {
          uint64_t o = 0, s[3] = { sv[0].v, sv[1].v, sv[2].v };
          if (ref_accumulate (op->name, acc[in->d[0]], s, &o)) { snprintf (out->why, sizeof out->why, "no semantics for %s", op->name); out->unsupported = 1; goto done; }
          acc[in->d[0]] = o;
          if (sv[0].fr || sv[0].nan || sv[1].fr || sv[1].nan) acc_free[in->d[0]] = 1;
          continue;
        } else if (op->flags & VOP_STORE) {
          dv[0] = sv[0];
        } else if ((op->flags & VOP_COPY) && !refprog_is_float_op (op)) {
          dv[0] = sv[0];
          if (op->dsz[0] != op->ssz[0]) { dv[0].v = trunc_to (dv[0].v, op->dsz[0] * mult); }
        } else if (refprog_is_float_op (op)) {
          for (l = 0; l < mult; l++) {
            Lane la, lb, lo;
            int dw = float_dest_width (op);
            memset (&la, 0, sizeof la); memset (&lb, 0, sizeof lb);
            la.bits = lane_get (sv[0].v, l, op->ssz[0]);
            la.st = mask_get (sv[0].fr, l, op->ssz[0]) ? L_FREE : mask_get (sv[0].nan, l, op->ssz[0]) ? (sv[0].nanw == op->ssz[0] ? L_NAN : L_FREE) : L_OK;
            la.thr = sv[0].thr;
            if (op->ssz[1]) {
              lb.bits = lane_get (sv[1].v, l, op->ssz[1]);
              lb.st = mask_get (sv[1].fr, l, op->ssz[1]) ? L_FREE : mask_get (sv[1].nan, l, op->ssz[1]) ? (sv[1].nanw == op->ssz[1] ? L_NAN : L_FREE) : L_OK;
              lb.thr = sv[1].thr;
            }
            if (!float_lane (op->name, &la, op->ssz[1] ? &lb : NULL, &lo, out)) { snprintf (out->why, sizeof out->why, "no float semantics for %s", op->name); out->unsupported = 1; goto done; }
            dv[0].v |= trunc_to (lo.bits, dw) << (8 * l * dw);
            if (lo.st == L_FREE) dv[0].fr |= (uint8_t) (((1u << dw) - 1) << (l * dw));
            if (lo.st == L_NAN) { dv[0].nan |= (uint8_t) (((1u << dw) - 1) << (l * dw)); dv[0].nanw = (uint8_t) dw; }
            dv[0].thr |= (uint8_t) lo.thr;
            dv[0].spec |= (uint8_t) (lo.spec | (lo.st != L_OK));
          }
          dv[0].spec |= sv[0].spec | sv[1].spec;
        } else {
          for (l = 0; l < mult; l++) {
            uint64_t ls[3], ld[2] = { 0, 0 };
            int tainted = 0;
            for (k = 0; k < 3; k++) {
              int is_scalar = (op->flags & VOP_SCALAR) && k >= 1;
              if (!op->ssz[k]) { ls[k] = 0; continue; }
              if (is_scalar) { ls[k] = sv[k].v; if (sv[k].fr || sv[k].nan) tainted = 1; }
              else { ls[k] = lane_get (sv[k].v, l, op->ssz[k]); if (mask_get (sv[k].fr, l, op->ssz[k]) || mask_get (sv[k].nan, l, op->ssz[k])) tainted = 1; }
            }
            if (ref_eval (op->name, ls, ld)) { snprintf (out->why, sizeof out->why, "no semantics for %s", op->name); out->unsupported = 1; goto done; }
            for (k = 0; k < 2 && op->dsz[k]; k++) {
              dv[k].v |= trunc_to (ld[k], op->dsz[k]) << (8 * l * op->dsz[k]);
              if (tainted) dv[k].fr |= (uint8_t) (((1u << op->dsz[k]) - 1) << (l * op->dsz[k]));
            }
          }
          for (k = 0; k < 2; k++) { dv[k].thr = sv[0].thr | sv[1].thr | sv[2].thr; dv[k].spec = sv[0].spec | sv[1].spec | sv[2].spec; }
        }
        for (k = 0; k < 2 && op->dsz[k]; k++) {
          const PVar *v = &ps->vars[in->d[k]];
          if (v->kind == VK_TEMP) vals[in->d[k]] = dv[k];
          else if (v->kind == VK_DEST) {
            size_t el = (size_t) r * (size_t) rc->n + (size_t) i;
            uint64_t x = trunc_to (dv[k].v, v->size);
            memcpy (out->val[in->d[k]] + el * (size_t) v->size, &x, (size_t) v->size);
            out->free_el[in->d[k]][el] = dv[k].fr != 0;
            out->nan_mask[in->d[k]][el] = dv[k].fr ? 0 : dv[k].nan;
            out->nan_el[in->d[k]][el] = dv[k].nanw;
            out->thr_el[in->d[k]][el] = dv[k].thr;
            if (dv[k].spec) out->n_special++;
          }
        }
      }
    }
  }
  for (j = 0; j < ps->nvars; j++) {
    const PVar *v = &ps->vars[j];
    if (v->kind == VK_DEST) {
      size_t ne = (size_t) rows * (size_t) (rc->n > 0 ? rc->n : 0), e;
      out->n_elems += (long) ne;
      for (e = 0; e < ne; e++) { if (out->free_el[j][e]) out->n_free++; if (out->nan_mask[j][e]) out->n_nan++; }
    }
    out->acc[j] = acc[j]; out->acc_free[j] = acc_free[j];
  }
done:
  _mm_setcsr (saved_csr);
  return out->unsupported ? -1 : 0;
}

int refprog_compare (const ProgSpec *ps, const RunCfg *rc, const RefOut *ref, const Arena *run, const OrcExecutor *ex,
    char *msg, size_t max, int *threshold)
{
  int j, r;
  long i;
  if (threshold) *threshold = 0;
  for (j = 0; j < ps->nvars; j++) {
    const PVar *v = &ps->vars[j];
    if (v->kind == VK_DEST) {
      const ArenaArr *a = &run->a[j];
      for (r = 0; r < ref->rows; r++)
        for (i = 0; i < ref->n; i++) {
          size_t el = (size_t) r * (size_t) ref->n + (size_t) i;
          uint64_t got = 0, want = 0;
          uint8_t nm = ref->nan_mask[j][el];
          if (ref->free_el[j][el]) continue;
          memcpy (&got, a->base + (long) r * a->stride + i * v->size, (size_t) v->size);
          memcpy (&want, ref->val[j] + el * (size_t) v->size, (size_t) v->size);
          if (nm) {
            int w = ref->nan_el[j][el], l, bad = 0;
            for (l = 0; l * w < v->size; l++) {
              uint64_t gl = lane_get (got, l, w), wl = lane_get (want, l, w);
              if (mask_get (nm, l, w)) { if (w == 4 ? !isnan32 ((uint32_t) gl) : !isnan64 (gl)) bad = 1; }
              else if (gl != wl) bad = 1;
            }
            if (!bad) continue;
            snprintf (msg, max, "dest %s row %d element %ld: got 0x%llx where float arithmetic with a NaN operand must give a NaN (lane width %d, NaN lanes mask 0x%x, other lanes 0x%llx)",
                v->name, r, i, (unsigned long long) got, w, nm, (unsigned long long) want);
            if (threshold) *threshold = ref->thr_el[j][el];
            return 1;
          }
          if (got != want) {
            snprintf (msg, max, "dest %s row %d element %ld: got 0x%llx, reference 0x%llx (n=%d)", v->name, r, i,
                (unsigned long long) got, (unsigned long long) want, rc->n);
            if (threshold) *threshold = ref->thr_el[j][el];
            return 1;
          }
        }
    } else if (v->kind == VK_ACC && ex) {
      unsigned mask = v->size == 2 ? 0xffffu : 0xffffffffu;
      unsigned got = (unsigned) ex->accumulators[v->orcvar - ORC_VAR_A1] & mask;
      if (ref->acc_free[j]) continue;
      if (got != ((unsigned) ref->acc[j] & mask)) {
        snprintf (msg, max, "accumulator %s: got 0x%x, reference 0x%x (n=%d m=%d)", v->name, got, (unsigned) ref->acc[j] & mask, rc->n, rc->m);
        return 1;
      }
    }
  }
  return 0;
}

/* differential comparison of two paths (x against y) under the reference's freedoms: elements the reference leaves free
 * are skipped, must-be-NaN lanes only need to be NaN on both sides, everything else must be bit-identical. */
int refprog_diff (const ProgSpec *ps, const RunCfg *rc, const RefOut *ref, const Arena *x, const OrcExecutor *exx,
    const Arena *y, const OrcExecutor *exy, char *msg, size_t max, int *threshold)
{
  int j, r;
  long i;
  if (threshold) *threshold = 0;
  for (j = 0; j < ps->nvars; j++) {
    const PVar *v = &ps->vars[j];
    if (v->kind == VK_DEST) {
      const ArenaArr *ax = &x->a[j], *ay = &y->a[j];
      for (r = 0; r < ref->rows; r++)
        for (i = 0; i < ref->n; i++) {
          size_t el = (size_t) r * (size_t) ref->n + (size_t) i;
          uint64_t gx = 0, gy = 0;
          uint8_t nm = ref->nan_mask[j][el];
          memcpy (&gx, ax->base + (long) r * ax->stride + i * v->size, (size_t) v->size);
          memcpy (&gy, ay->base + (long) r * ay->stride + i * v->size, (size_t) v->size);
          if (gx == gy || ref->free_el[j][el]) continue;
          if (nm) {
            int w = ref->nan_el[j][el], l, bad = 0;
            for (l = 0; l * w < v->size; l++) {
              uint64_t lx = lane_get (gx, l, w), ly = lane_get (gy, l, w);
              if (mask_get (nm, l, w)) { if (w == 4 ? !(isnan32 ((uint32_t) lx) && isnan32 ((uint32_t) ly)) : !(isnan64 (lx) && isnan64 (ly))) bad = 1; }
              else if (lx != ly) bad = 1;
            }
            if (!bad) continue;
          }
          {
            uint64_t want = 0;
            memcpy (&want, ref->val[j] + el * (size_t) v->size, (size_t) v->size);
            snprintf (msg, max, "dest %s row %d element %ld: 0x%llx vs 0x%llx (independent reference: 0x%llx%s, n=%d)", v->name, r, i,
                (unsigned long long) gx, (unsigned long long) gy, (unsigned long long) want, nm ? ", NaN lanes" : "", rc->n);
          }
          if (threshold) *threshold = ref->thr_el[j][el];
          return 1;
        }
    } else if (v->kind == VK_ACC && exx && exy) {
      unsigned mask = v->size == 2 ? 0xffffu : 0xffffffffu;
      int slot = v->orcvar - ORC_VAR_A1;
      if (ref->acc_free[j]) continue;
      if (((unsigned) exx->accumulators[slot] & mask) != ((unsigned) exy->accumulators[slot] & mask)) {
        snprintf (msg, max, "accumulator %s: 0x%x vs 0x%x (n=%d m=%d)", v->name, (unsigned) exx->accumulators[slot] & mask,
            (unsigned) exy->accumulators[slot] & mask, rc->n, rc->m);
        return 1;
      }
    }
  }
  return 0;
}
