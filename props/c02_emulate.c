/* C02 - every opcode means what the reference says (emulation vs independent reference interpreter).
 *
 * case = program (one opcode in one operand-kind/prefix/in-place/2-D form, or a random integer program)
 *        x run configurations, executed ONLY through orc_executor_emulate.
 * oracle = engine/refsem.c (written from doc/opcode_table.xml, independent of opcodes.h) applied element by
 *          element by a small program interpreter over the ProgSpec: every destination element and every
 *          accumulator must match; nothing else in the arrays may change.
 * The first enumerated case cross-checks the three opcode tables (library, /verif's own, documentation).
 */
#include "../engine/prog.h"
#include "../engine/refsem.h"
#include <stdlib.h>

const char *vprop_id = "C02";
int vprop_fork = 1;
int vprop_cpu_limit_s = 60;
const char *vprop_class_names[V_NCLASS] = {
  "single_opcode", "random_program", "x2x4", "two_d", "accumulator", "special_load", "const_operand", "param_operand",
  "exhaustive_pairs", "n_lt_16", "n_ge_16", "in_place", "var64", "table_check", "library_has_opcodes_beyond_reference", NULL
};

static int int_ops[256], n_int_ops;

void vprop_init (int argc, char **argv)
{
  int i;
  (void) argc; (void) argv;
  orc_init ();
  for (i = 0; i < v_noptab; i++) {
    const VOp *op = &v_optab[i];
    if (op->flags & VOP_INVARIANT) continue;
    if (op->flags & (VOP_FSRC | VOP_FDEST)) continue;
    int_ops[n_int_ops++] = i;
  }
}

/* ---- enumeration: index 0 = table check; then every (opcode, form) ---- */
static uint64_t enum_prefix[260];

uint64_t vprop_enum_count (const char *tier)
{
  int i;
  uint64_t tot = 1;
  (void) tier;
  for (i = 0; i < n_int_ops; i++) { enum_prefix[i] = tot; tot += (uint64_t) ps_single_forms (&v_optab[int_ops[i]]); }
  enum_prefix[n_int_ops] = tot;
  return tot;
}

size_t vprop_enum_stream (uint64_t idx, uint32_t *out, size_t max)
{
  int i = 0, k;
  size_t n = 0;
  if (!enum_prefix[n_int_ops]) vprop_enum_count ("quick");
  if (idx == 0) { out[0] = 2; return 1; }
  while (i + 1 < n_int_ops && enum_prefix[i + 1] <= idx) i++;
  out[n++] = 1;
  out[n++] = (uint32_t) i;
  out[n++] = (uint32_t) (idx - enum_prefix[i]);
  out[n++] = 1;                    /* systematic */
  for (k = 0; k < 400 && n < max; k++) out[n++] = (uint32_t) v_mix64 (idx * 2654435761ULL + (uint64_t) k);
  return n;
}

/* ---- table cross-check ---- */
static void table_check (VResult *r)
{
  OrcOpcodeSet *set = orc_opcode_set_get ("sys");
  int i, k;
  v_desc (r, "# C02 table check: library opcode table vs /verif table vs doc/opcode_table.xml\n");
  r->nontrivial = 1; r->classes |= 1u << 13; r->hash = 0x7ab1e;
  if (!set) { v_fail (r, "table:no-sys-set", "opcode set sys not registered"); return; }
  if (set->n_opcodes < v_noptab) { v_fail (r, "table:count", "library has %d sys opcodes, the reference knows %d: an opcode disappeared", set->n_opcodes, v_noptab); return; }
  if (set->n_opcodes > v_noptab) {
    /* opcodes appended after the ones the reference knows are not judged (no reference semantics): reported, not a violation */
    v_desc (r, "# %d opcode(s) beyond the reference table are NOT covered by this check, first: %s\n", set->n_opcodes - v_noptab, set->opcodes[v_noptab].name);
    r->classes |= 1u << 14;
  }
  for (i = 0; i < v_noptab; i++) {
    const VOp *v = &v_optab[i];
    OrcStaticOpcode *o = &set->opcodes[i];
    unsigned lf = 0;
    if (strcmp (o->name, v->name)) { v_fail (r, "table:order", "opcode %d is '%s' in the library, '%s' expected (bytecode numbering depends on the order)", i, o->name, v->name); return; }
    if (o->flags & ORC_STATIC_OPCODE_ACCUMULATOR) lf |= VOP_ACC;
    if (o->flags & ORC_STATIC_OPCODE_FLOAT_SRC) lf |= VOP_FSRC;
    if (o->flags & ORC_STATIC_OPCODE_FLOAT_DEST) lf |= VOP_FDEST;
    if (o->flags & ORC_STATIC_OPCODE_SCALAR) lf |= VOP_SCALAR;
    if (o->flags & ORC_STATIC_OPCODE_LOAD) lf |= VOP_LOAD;
    if (o->flags & ORC_STATIC_OPCODE_STORE) lf |= VOP_STORE;
    if (o->flags & ORC_STATIC_OPCODE_INVARIANT) lf |= VOP_INVARIANT;
    if (o->flags & ORC_STATIC_OPCODE_ITERATOR) lf |= VOP_ITER;
    if (o->flags & ORC_STATIC_OPCODE_COPY) lf |= VOP_COPY;
    if (lf != v->flags) { v_fail (r, "table:flags", "opcode %s: library flags 0x%x, expected 0x%x", v->name, lf, v->flags); return; }
    for (k = 0; k < 2; k++) if (o->dest_size[k] != v->dsz[k]) { v_fail (r, "table:size", "opcode %s dest[%d] size %d, expected %d", v->name, k, o->dest_size[k], v->dsz[k]); return; }
    for (k = 0; k < 3; k++) if (o->src_size[k] != v->ssz[k]) { v_fail (r, "table:size", "opcode %s src[%d] size %d, expected %d", v->name, k, o->src_size[k], v->ssz[k]); return; }
    if (!o->emulateN) { v_fail (r, "table:emulate", "opcode %s has no emulation function", v->name); return; }
    {
      int ds, s1, s2, sc;
      if (ref_doc_sizes (v->name, &ds, &s1, &s2, &sc)) { v_fail (r, "table:doc", "opcode %s is not documented in doc/opcode_table.xml", v->name); return; }
      if (ds != v->dsz[0] || s1 != v->ssz[0] || (s2 != v->ssz[1] && !(v->flags & VOP_LOAD && s2 == 4 && v->ssz[1] == 4))) {
        v_fail (r, "table:doc", "opcode %s: documented sizes %d/%d/%d, library %d/%d/%d", v->name, ds, s1, s2, v->dsz[0], v->ssz[0], v->ssz[1]);
        return;
      }
    }
  }
  if (ref_doc_count () != v_noptab) v_fail (r, "table:doc", "the transcribed documentation table lists %d opcodes, the reference table %d", ref_doc_count (), v_noptab);
}

/* ---- reference interpreter over a ProgSpec ---- */

static uint64_t trunc_to (uint64_t v, int size) { return size >= 8 ? v : (v & ((1ULL << (8 * size)) - 1)); }

static uint64_t lane_get (uint64_t v, int lane, int lsize) { return trunc_to (v >> (8 * lane * lsize), lsize); }

static uint64_t splat (uint64_t v, int lsize, int lanes)
{
  uint64_t o = 0;
  int k;
  v = trunc_to (v, lsize);
  for (k = 0; k < lanes; k++) o |= v << (8 * k * lsize);
  return o;
}

/* returns 0 ok, 1 mismatch (message written) */
static int ref_compare (const ProgSpec *ps, const RunCfg *rc, const Arena *run, const Arena *pristine,
    const OrcExecutor *ex, char *msg, size_t max)
{
  uint64_t acc[PS_MAXVARS];
  static uint64_t vals[PS_MAXVARS];
  int rows = ps->is2d ? rc->m : 1, r, j, k, l;
  long i;
  memset (acc, 0, sizeof acc);
  for (r = 0; r < rows; r++) {
    for (i = 0; i < rc->n; i++) {
      for (j = 0; j < ps->nins; j++) {
        const PInsn *in = &ps->ins[j];
        const VOp *op = in->op;
        int mult = (in->flags & ORC_INSTRUCTION_FLAG_X2) ? 2 : (in->flags & ORC_INSTRUCTION_FLAG_X4) ? 4 : 1;
        uint64_t sv[3] = { 0, 0, 0 }, dv[2] = { 0, 0 };
        int scalar_raw[3] = { 0, 0, 0 };
        /* source values */
        for (k = 0; k < 3 && op->ssz[k]; k++) {
          const PVar *v = &ps->vars[in->s[k]];
          int is_scalar = (op->flags & VOP_SCALAR) && k >= 1;
          if ((op->flags & VOP_LOAD) && k == 0) continue;      /* handled by ref_load */
          switch (v->kind) {
            case VK_SRC: case VK_DEST: {
              const ArenaArr *a = &pristine->a[in->s[k]];
              uint64_t x = 0;
              memcpy (&x, a->base + (long) r * a->stride + i * v->size, (size_t) v->size);
              sv[k] = x;
              break;
            }
            case VK_CONST: sv[k] = is_scalar ? v->cval : splat (v->cval, op->ssz[k], mult); scalar_raw[k] = 1; break;
            case VK_PARAM: sv[k] = is_scalar ? rc->pval[in->s[k]] : splat (rc->pval[in->s[k]], op->ssz[k], mult); scalar_raw[k] = 1; break;
            default: sv[k] = vals[in->s[k]]; break;
          }
        }
        (void) scalar_raw;
        if (op->flags & VOP_LOAD) {
          const ArenaArr *a = &pristine->a[in->s[0]];
          int ok = 0;
          int32_t p1 = (int32_t) sv[1], p2 = (int32_t) sv[2];
          if (mult > 1 && ps_plain_ldst (op)) {
            /* a prefixed loadX reads one element of the array's own (2x / 4x) size */
            uint64_t x = 0;
            memcpy (&x, a->base + (long) r * a->stride + i * ps->vars[in->s[0]].size, (size_t) ps->vars[in->s[0]].size);
            dv[0] = x; ok = 1;
          } else
          dv[0] = ref_load (op->name, a->base + (long) r * a->stride, i, p1, p2, &ok);
          if (!ok) { snprintf (msg, max, "reference has no load semantics for %s", op->name); return 1; }
        } else if (op->flags & VOP_ACC) {
          uint64_t out = 0, s[3] = { sv[0], sv[1], sv[2] };
          if (ref_accumulate (op->name, acc[in->d[0]], s, &out)) { snprintf (msg, max, "reference has no semantics for %s", op->name); return 1; }
          acc[in->d[0]] = out;
          continue;
        } else if (op->flags & VOP_STORE) {
          dv[0] = sv[0];
        } else {
          for (l = 0; l < mult; l++) {
            uint64_t ls[3], ld[2] = { 0, 0 };
            for (k = 0; k < 3; k++) {
              int is_scalar = (op->flags & VOP_SCALAR) && k >= 1;
              ls[k] = op->ssz[k] ? (is_scalar ? sv[k] : lane_get (sv[k], l, op->ssz[k])) : 0;
            }
            if (ref_eval (op->name, ls, ld)) { snprintf (msg, max, "reference has no semantics for %s", op->name); return 1; }
            for (k = 0; k < 2 && op->dsz[k]; k++) dv[k] |= trunc_to (ld[k], op->dsz[k]) << (8 * l * op->dsz[k]);
          }
        }
        /* destinations */
        for (k = 0; k < 2 && op->dsz[k]; k++) {
          const PVar *v = &ps->vars[in->d[k]];
          if (v->kind == VK_TEMP) vals[in->d[k]] = dv[k];
          else if (v->kind == VK_DEST) {
            const ArenaArr *a = &run->a[in->d[k]];
            uint64_t got = 0;
            memcpy (&got, a->base + (long) r * a->stride + i * v->size, (size_t) v->size);
            /* a destination written several times keeps the last value: only the final writer is compared */
            {
              int later = 0, jj, kk;
              for (jj = j + 1; jj < ps->nins; jj++)
                for (kk = 0; kk < 2 && ps->ins[jj].op->dsz[kk]; kk++)
                  if (ps->ins[jj].d[kk] == in->d[k]) later = 1;
              if (later) continue;
            }
            if (got != trunc_to (dv[k], v->size)) {
              snprintf (msg, max, "insn %d (%s%s) dest %s row %d element %ld: emulation gives 0x%llx, reference 0x%llx "
                  "(operands 0x%llx 0x%llx 0x%llx)", j, mult > 1 ? (mult == 2 ? "x2 " : "x4 ") : "", op->name, v->name, r, i,
                  (unsigned long long) got, (unsigned long long) trunc_to (dv[k], v->size),
                  (unsigned long long) sv[0], (unsigned long long) sv[1], (unsigned long long) sv[2]);
              return 1;
            }
          }
        }
      }
    }
  }
  for (j = 0; j < ps->nvars; j++) {
    const PVar *v = &ps->vars[j];
    if (v->kind == VK_ACC) {
      unsigned mask = v->size == 2 ? 0xffffu : 0xffffffffu;
      unsigned got = (unsigned) ex->accumulators[v->orcvar - ORC_VAR_A1] & mask;
      if (got != ((unsigned) acc[j] & mask)) {
        snprintf (msg, max, "accumulator %s: emulation gives 0x%x, reference 0x%x (n=%d m=%d)", v->name, got, (unsigned) acc[j] & mask, rc->n, rc->m);
        return 1;
      }
    }
  }
  return 0;
}

static int run_one (OrcProgram *p, ProgSpec *ps, RunCfg *rc, VResult *r)
{
  Arena run, pristine;
  OrcExecutor ex;
  char msg[1024];
  int bad = 0;
  if (arena_build (&run, ps, rc, 0) || arena_build (&pristine, ps, rc, 0)) { arena_free (&run); arena_free (&pristine); return 0; }
  exec_setup (&ex, p, NULL, ps, rc, &run);
  v_stage (r, "emulate");
  orc_executor_emulate (&ex);
  v_stage (r, "reference");
  if (ref_compare (ps, rc, &run, &pristine, &ex, msg, sizeof msg)) {
    char sig[V_SIG_MAX];
    snprintf (sig, sizeof sig, "semantics%s op=%s", ps->const_two_lanes ? "-const-two-lane-sizes" : "",
        msg[0] == 'i' ? ps->ins[atoi (msg + 5)].op->name : ps->ins[0].op->name);
    v_fail (r, sig, "emulation != reference: %s", msg);
    bad = 1;
  } else if (arena_check_untouched (&run, ps, rc, msg, sizeof msg)) {
    char sig[V_SIG_MAX];
    snprintf (sig, sizeof sig, "stray-write op=%s", ps->ins[0].op->name);
    v_fail (r, sig, "emulation changed memory it is not entitled to: %s", msg);
    bad = 1;
  }
  arena_free (&run); arena_free (&pristine);
  return bad;
}

static const int sys_n[] = { 1, 2, 3, 4, 5, 7, 8, 9, 15, 16, 17, 18, 31, 32, 33, 47, 48, 49, 50 };

void vprop_case (VChoices *c, VResult *r)
{
  static ProgSpec ps;
  static RunCfg rc;
  GenOpts go;
  RunOpts ro;
  OrcProgram *p;
  OrcCompileResult res;
  int mode, single, systematic = 0, nruns, i;
  uint64_t h;

  mode = (int) vc_pick (c, 3);
  if (mode == 2) { table_check (r); return; }
  single = mode == 1;
  gen_opts_default (&go);
  go.allow_float = 0;
  go.max_insns = 24;
  if (single) {
    go.single_opcode = int_ops[vc_pick (c, (uint32_t) n_int_ops)];
    go.single_form = (int) vc_pick (c, (uint32_t) ps_single_forms (&v_optab[go.single_opcode]));
    systematic = (int) vc_pick (c, 2);
  }
  ps_generate (c, &go, &ps, r);
  v_desc (r, "# C02 %s\n", single ? "single-opcode" : "random-program");
  ps_print (&ps, r);
  h = ps_hash (&ps);

  v_stage (r, "compile (no target: emulation only)");
  p = ps_build (&ps);
  res = orc_program_compile_full (p, NULL, 0);
  v_desc (r, "# compile result: %s\n", v_result_name (res));
  if (ORC_COMPILE_RESULT_IS_FATAL (res) || !p->orccode) {
    /* a well-typed program must at least be emulatable */
    v_fail (r, "not-emulatable", "well-typed program rejected: %s (%s)", v_result_name (res), orc_program_get_error (p) ? orc_program_get_error (p) : "");
    orc_program_free (p);
    r->hash = h;
    return;
  }
  memset (&ro, 0, sizeof ro);
  ro.n_max = 120; ro.m_max = 4; ro.big_n = 0; ro.placement_mask = 1;
  nruns = systematic ? (int) (sizeof sys_n / sizeof sys_n[0]) : 3 + (int) vc_pick (c, 6);
  for (i = 0; i < nruns; i++) {
    rc_generate (c, &ps, &ro, &rc);
    if (systematic && !ps.const_n) { rc.n = sys_n[i]; if (ps.is2d) rc.m = 1 + (i % 3); }
    /* boundary-heavy data for the systematic runs */
    if (systematic) { int v; for (v = 0; v < ps.nvars; v++) if (ps.vars[v].kind == VK_SRC || ps.vars[v].kind == VK_DEST) rc.a[v].fill = (i & 1) ? FILL_BOUNDARY : (i % 3 == 0 ? FILL_MINMAX : FILL_RANDOM); }
    h = v_hash_bytes (h, &rc.n, sizeof rc.n);
    r->sub_evals += (uint64_t) rc.n * (uint64_t) (rc.m > 0 ? rc.m : 0);
    if (rc.n > 0 && rc.m > 0) { r->sub_nontrivial += (uint64_t) rc.n * (uint64_t) rc.m; r->classes |= rc.n < 16 ? 1u << 9 : 1u << 10; }
    if (run_one (p, &ps, &rc, r)) { rc_print (&ps, &rc, r); break; }
  }
  if (r->verdict != V_FAIL && single && systematic && !ps.const_n) {
    const VOp *op = ps.ins[0].op;
    int narrow = op->ssz[0] == 1 && (op->ssz[1] == 0 || op->ssz[1] == 1) && !ps.has_special_load;
    int unary16 = op->ssz[0] == 2 && op->ssz[1] == 0;
    if (narrow || unary16) {
      ro.exhaustive_pairs = 1;
      rc_generate (c, &ps, &ro, &rc);
      r->classes |= 1u << 8;
      r->sub_evals += 65536; r->sub_nontrivial += 65536;
      if (run_one (p, &ps, &rc, r)) rc_print (&ps, &rc, r);
    }
  }
  orc_program_free (p);
  r->hash = h;
  r->nontrivial = r->sub_nontrivial > 0;
  r->classes |= single ? 1u << 0 : 1u << 1;
  if (ps.has_x) r->classes |= 1u << 2;
  if (ps.is2d) r->classes |= 1u << 3;
  if (ps.has_acc) r->classes |= 1u << 4;
  if (ps.has_special_load) r->classes |= 1u << 5;
  if (ps.count[VK_CONST]) r->classes |= 1u << 6;
  if (ps.count[VK_PARAM]) r->classes |= 1u << 7;
  if (ps.has_inplace) r->classes |= 1u << 11;
  if (ps.has_64) r->classes |= 1u << 12;
}
