/* C18 - float opcodes: IEEE results with flush-to-zero, identical on every path.
 *
 * paths   : orc_executor_emulate, native avx, native sse (default flags), gcc -O2 compiled generated C (orcc's backup body)
 * oracle  : engine/refprog.c - host IEEE-754 arithmetic (round to nearest even, MXCSR forced to default) on explicitly
 *           flushed inputs with explicitly flushed outputs, comparisons -> all-ones/zero, min/max, saturating truncating
 *           float->int conversions; with the freedoms the property grants (NaN payloads: any NaN; min/max of numerically
 *           equal operands: either; NaN -> integer: not judged).  Every path is compared with the reference, element by
 *           element, bit for bit.
 * enumerated stage: every float/double opcode x every operand form (array/constant/parameter, x1/x2, in place, 2-D) x
 *           the full cross product of a structured operand table (zeros, denormals, threshold neighbours, powers of two,
 *           integers near 2^24/2^31/2^53, rounding ties, infinities, quiet/signalling NaNs, pseudo-random normals),
 *           in blocks of BLK x BLK operand pairs.
 * generated stage: float-only random programs (1..10 instructions, conversions, compares, x2) on arrays drawn from the
 *           same tables, random n and misalignment.
 */
#include "../engine/cgen.h"
#include "../engine/refprog.h"
#include "../engine/tramp.h"
#include <stdlib.h>

const char *vprop_id = "C18";
int vprop_fork = 1;
int vprop_cpu_limit_s = 120;
const char *vprop_class_names[V_NCLASS] = {
  "enumerated_block", "random_program", "double_ops", "x2", "const_or_param_operand", "path_avx", "path_sse", "path_c",
  "has_nan_lanes", "has_free_lanes", "has_flushed", "has_saturated", "has_threshold", "two_d", "misaligned", NULL
};

/* ---- operand tables ---- */
#define MAXT 400
static uint32_t T32[MAXT]; static int nT32;
static uint64_t T64[MAXT]; static int nT64;
static uint32_t TI32[MAXT]; static int nTI32;
static uint32_t TI16[64]; static int nTI16;

static void add32 (uint32_t x) { int i; for (i = 0; i < nT32; i++) if (T32[i] == x) return; if (nT32 < MAXT) T32[nT32++] = x; }
static void add64 (uint64_t x) { int i; for (i = 0; i < nT64; i++) if (T64[i] == x) return; if (nT64 < MAXT) T64[nT64++] = x; }
static void addi (uint32_t x) { int i; for (i = 0; i < nTI32; i++) if (TI32[i] == x) return; if (nTI32 < MAXT) TI32[nTI32++] = x; }

static void build_tables (void)
{
  static const uint32_t pos32[] = {
    0x00000000, 0x00000001, 0x00000002, 0x00400000, 0x007fffff, 0x00800000, 0x00800001, 0x00800002, 0x00c00000, 0x00ffffff,
    0x01000000, 0x01800000, 0x0d800000, 0x1e800000, 0x1f800000, 0x20000000, 0x20000001, 0x1fffffff, 0x33800000, 0x34000000,
    0x3e800000, 0x3eaaaaab, 0x3effffff, 0x3f000000, 0x3f000001, 0x3f7fffff, 0x3f800000, 0x3f800001, 0x3fc00000, 0x3fffffff,
    0x40000000, 0x40200000, 0x40400000, 0x40600000, 0x40a00000, 0x3dcccccd, 0x41200000, 0x447a0000, 0x4b000000, 0x4b000001,
    0x4b7fffff, 0x4b800000, 0x4b800001, 0x4effffff, 0x4f000000, 0x4f000001, 0x4f7fffff, 0x4f800000, 0x5effffff, 0x5f000000,
    0x5f800000, 0x5d5e0b6b, 0x7e800000, 0x7f000000, 0x7f7fffff, 0x7f800000, 0x7f800001, 0x7fa00000, 0x7fc00000, 0x7fc12345,
    0x7fffffff, 0x3f7ffffe, 0x00fffffe, 0x3f400000, 0x3fa00000, 0x1a000000, 0x1a800000, 0x65000000, 0x64800000, 0x00200000
  };
  static const uint64_t pos64[] = {
    0x0000000000000000ULL, 0x0000000000000001ULL, 0x0008000000000000ULL, 0x000fffffffffffffULL, 0x0010000000000000ULL,
    0x0010000000000001ULL, 0x0018000000000000ULL, 0x001fffffffffffffULL, 0x0020000000000000ULL, 0x1ff0000000000000ULL,
    0x2000000000000000ULL, 0x2000000000000001ULL, 0x1fffffffffffffffULL, 0x3690000000000000ULL, 0x36a0000000000000ULL,
    0x380fffffffffffffULL, 0x3810000000000000ULL, 0x3810000000000001ULL, 0x3fd0000000000000ULL, 0x3fd5555555555555ULL,
    0x3fdfffffffffffffULL, 0x3fe0000000000000ULL, 0x3fe0000000000001ULL, 0x3fefffffffffffffULL, 0x3ff0000000000000ULL,
    0x3ff0000000000001ULL, 0x3ff8000000000000ULL, 0x4000000000000000ULL, 0x4004000000000000ULL, 0x4008000000000000ULL,
    0x400c000000000000ULL, 0x4014000000000000ULL, 0x3fb999999999999aULL, 0x4024000000000000ULL, 0x4330000000000000ULL,
    0x433fffffffffffffULL, 0x4340000000000000ULL, 0x4340000000000001ULL, 0x41dfffffffc00000ULL, 0x41dfffffffe00000ULL,
    0x41dffffffff00000ULL, 0x41e0000000000000ULL, 0x41e0000000100000ULL, 0x41e0000000200000ULL, 0x41efffffffe00000ULL,
    0x43e0000000000000ULL, 0x47efffffe0000000ULL, 0x47efffffefffffffULL, 0x47effffff0000000ULL, 0x47f0000000000000ULL,
    0x36a0000000000001ULL, 0x369fffffffffffffULL, 0x5fe0000000000000ULL, 0x7fe0000000000000ULL, 0x7fefffffffffffffULL,
    0x7ff0000000000000ULL, 0x7ff0000000000001ULL, 0x7ff4000000000000ULL, 0x7ff8000000000000ULL, 0x7ff8000012345678ULL,
    0x7fffffffffffffffULL, 0x3feffffffffffffeULL, 0x001ffffffffffffeULL, 0x3cb0000000000000ULL, 0x3ca0000000000000ULL,
    0x4035000000000000ULL, 0x3fe8000000000000ULL, 0x3ff4000000000000ULL, 0x1000000000000000ULL, 0x0004000000000000ULL
  };
  static const uint32_t ints[] = {
    0, 1, 2, 3, 0xffffffffu, 0xfffffffeu, 127, 128, 255, 256, 32767, 32768, 65535, 65536, 0x00ffffffu, 0x01000000u, 0x01000001u,
    0x01000002u, 0x01000003u, 0x02000001u, 0x02000003u, 0x7fffff80u, 0x7fffffbfu, 0x7fffffc0u, 0x7fffffffu, 0x80000000u, 0x80000001u,
    0x80000040u, 0x80000041u, 0xff000000u, 0xfeffffffu, 0xfefffffeu, 0x3fffffffu, 0x40000000u, 0x12345678u, 0xdeadbeefu, 0x00800001u,
    0x00ffffffu, 0x7f800000u, 0x7fc00000u, 0x3f800000u, 1000000, 16777217, 33554433, 33554434, 0xfe000001u, 0xfdffffffu
  };
  size_t i;
  uint64_t h = 0x1234567;
  for (i = 0; i < sizeof pos32 / sizeof pos32[0]; i++) { add32 (pos32[i]); add32 (pos32[i] | 0x80000000u); }
  for (i = 0; i < sizeof pos64 / sizeof pos64[0]; i++) { add64 (pos64[i]); add64 (pos64[i] | 0x8000000000000000ULL); }
  for (i = 0; i < sizeof ints / sizeof ints[0]; i++) addi (ints[i]);
  /* pseudo-random normals (fixed): moderate and extreme exponents */
  for (i = 0; i < 20; i++) {
    uint32_t e;
    h = v_mix64 (h + i);
    e = i < 12 ? 100 + (uint32_t) (h % 56) : 1 + (uint32_t) (h % 254);
    add32 (((uint32_t) (h >> 63) << 31) | (e << 23) | (uint32_t) ((h >> 8) & 0x7fffff));
    add64 ((h & 0x8000000000000000ULL) | ((uint64_t) (i < 12 ? 990 + (h >> 4) % 70 : 1 + (h >> 4) % 2046) << 52) | (v_mix64 (h) & 0xfffffffffffffULL));
    addi ((uint32_t) v_mix64 (h ^ 0x55));
  }
  {
    static const int16_t w[] = { 0, 1, -1, 2, 127, 128, 255, 256, 32767, -32768, -32767, 1000, -1000, 12345, -2, 3, 16384, -16384, 257, -256 };
    for (i = 0; i < sizeof w / sizeof w[0]; i++) TI16[nTI16++] = (uint16_t) w[i];
  }
}

static int float_ops[64], n_float_ops;

void vprop_init (int argc, char **argv)
{
  int i;
  (void) argc; (void) argv;
  orc_init ();
  build_tables ();
  for (i = 0; i < v_noptab; i++) if (refprog_is_float_op (&v_optab[i]) && n_float_ops < 64) float_ops[n_float_ops++] = i;
}

#define BLK 64
/* enumeration: (opcode, form, block) ; stream = [1, opcode_k, form, bi, bj] */
static uint64_t enum_prefix[65];
static int op_table_len (const VOp *op, int k)
{
  int sz = op->ssz[k];
  int isfloat_src = (op->flags & VOP_FSRC) != 0;
  if (!sz) return 1;
  if (!isfloat_src) return sz == 2 ? nTI16 : nTI32;
  return sz == 8 ? nT64 : nT32;
}
static int nblocks (int len) { return (len + BLK - 1) / BLK; }
static int quick_tier;
static uint64_t gcd64 (uint64_t a, uint64_t b) { while (b) { uint64_t t = a % b; a = b; b = t; } return a; }
uint64_t vprop_enum_count (const char *tier)
{
  int k;
  uint64_t tot = 0;
  quick_tier = !strcmp (tier, "quick");
  for (k = 0; k < n_float_ops; k++) {
    const VOp *op = &v_optab[float_ops[k]];
    int forms = ps_single_forms (op);
    uint64_t blocks = (uint64_t) nblocks (op_table_len (op, 0)) * (uint64_t) nblocks (op_table_len (op, 1));
    enum_prefix[k] = tot;
    tot += (uint64_t) forms * blocks;
  }
  enum_prefix[n_float_ops] = tot;
  if (v_arg ("print_count", NULL)) fprintf (stderr, "C18 enumeration: %llu cases over %d opcodes\n", (unsigned long long) tot, n_float_ops);
  return tot;
}
size_t vprop_enum_stream (uint64_t i, uint32_t *out, size_t max)
{
  int k;
  (void) max;
  {
    /* the quick tier works through a budgeted prefix: walk the enumeration in a fixed scrambled order so that the prefix is an even
       sample over opcodes, forms and blocks (a bijection: the multiplier is coprime to the count) */
    uint64_t count = enum_prefix[n_float_ops], mul = 2654435761ULL;
    while (count && (mul % count == 0 || gcd64 (mul, count) != 1)) mul += 2;
    if (count) i = (i * mul) % count;
  }
  for (k = 0; k < n_float_ops; k++) if (i < enum_prefix[k + 1]) break;
  {
    const VOp *op = &v_optab[float_ops[k]];
    uint64_t rel = i - enum_prefix[k];
    int nb1 = nblocks (op_table_len (op, 1)), nb0 = nblocks (op_table_len (op, 0));
    uint64_t blocks = (uint64_t) nb0 * (uint64_t) nb1;
    out[0] = 1; out[1] = (uint32_t) k; out[2] = (uint32_t) (rel / blocks);
    out[3] = (uint32_t) ((rel % blocks) / (uint64_t) nb1); out[4] = (uint32_t) ((rel % blocks) % (uint64_t) nb1);
    return 5;
  }
}

static uint64_t table_value (const VOp *op, int k, int idx)
{
  int sz = op->ssz[k];
  int isfloat_src = (op->flags & VOP_FSRC) != 0;
  if (!isfloat_src) return sz == 2 ? TI16[idx % nTI16] : TI32[idx % nTI32];
  return sz == 8 ? T64[idx % nT64] : T32[idx % nT32];
}

/* ---- filling ---- */
typedef struct { int mode; const VOp *op; int bi, bj, len0, len1; VChoices *c; uint64_t seed; int src_of_var[PS_MAXVARS]; int scalar_partner; } FillPlan;

static uint64_t rand_lane (int lsize, uint64_t h)
{
  if (lsize == 8) return (h & 3) ? T64[(h >> 2) % (uint64_t) nT64] : v_float_value (8, (uint32_t) (h >> 8));
  return (h & 3) ? T32[(h >> 2) % (uint64_t) nT32] : (uint32_t) v_float_value (4, (uint32_t) (h >> 8));
}

static void fill_arena (Arena *a, const ProgSpec *ps, const RunCfg *rc, const FillPlan *fp)
{
  int v, r;
  long i;
  int rows = ps->is2d ? rc->m : 1;
  for (v = 0; v < ps->nvars; v++) {
    const PVar *pv = &ps->vars[v];
    if (pv->kind != VK_SRC && pv->kind != VK_DEST) continue;
    for (r = 0; r < rows; r++)
      for (i = 0; i < rc->n; i++) {
        unsigned char *p = a->a[v].base + (long) r * a->a[v].stride + i * pv->size;
        uint64_t x = 0;
        if (fp->mode == 1) {
          int k = fp->src_of_var[v];
          int lanes, l;
          long e = (long) r * rc->n + i;
          if (k < 0) continue;
          lanes = pv->size / fp->op->ssz[k];
          for (l = 0; l < lanes; l++) {
            /* element e of operand 0 walks the block's first index, of operand 1 the second; lanes of an x2 element take
               neighbouring pairs so that both lanes see different operands */
            long q = e * lanes + l;
            int idx = fp->scalar_partner ? (k == 0 ? fp->bi : fp->bj) * BLK + (int) (q % BLK)      /* the other operand is a scalar: walk the block */
                : k == 0 ? fp->bi * BLK + (int) ((q / BLK) % BLK) : fp->bj * BLK + (int) (q % BLK);
            x |= (table_value (fp->op, k, idx) & (fp->op->ssz[k] == 8 ? ~0ULL : ((1ULL << (8 * fp->op->ssz[k])) - 1))) << (8 * l * fp->op->ssz[k]);
          }
        } else {
          uint64_t h = v_mix64 (fp->seed ^ ((uint64_t) v << 48) ^ ((uint64_t) r << 32) ^ (uint64_t) i);
          if (pv->size == 8) x = (h & 1) ? rand_lane (8, h >> 1) : (rand_lane (4, h >> 1) | (rand_lane (4, v_mix64 (h)) << 32));
          else if (pv->size == 4) x = rand_lane (4, h >> 1);
          else x = (h >> 3) & 0xffff;
        }
        memcpy (p, &x, (size_t) pv->size);
      }
  }
}

static int run_path (const char *path, void *fn, OrcProgram *p, const ProgSpec *ps, const RunCfg *rc, const FillPlan *fp,
    const RefOut *ref, VResult *r, int emulate, CgFn cfn)
{
  Arena a;
  OrcExecutor ex;
  char msg[900], sig[V_SIG_MAX];
  int thr = 0, bad = 0;
  if (arena_build (&a, ps, rc, 0)) return 0;
  fill_arena (&a, ps, rc, fp);
  exec_setup (&ex, p, NULL, ps, rc, &a);
  v_stage (r, "run %s", path);
  if (emulate) orc_executor_emulate (&ex);
  else if (cfn) cfn (&ex);
  else v_shielded_call (fn, &ex);
  v_stage (r, "compare %s", path);
  if (refprog_compare (ps, rc, ref, &a, &ex, msg, sizeof msg, &thr)) {
    int native = !emulate && !cfn;
    snprintf (sig, sizeof sig, "float:%s%s op=%s", thr ? "ftz-threshold:" : "", thr && native ? "native" : path, ps->ins[0].op->name);
    v_fail (r, sig, "%s differs from the IEEE/flush-to-zero reference: %s", path, msg);
    bad = 1;
  }
  arena_free (&a);
  return bad;
}

void vprop_case (VChoices *c, VResult *r)
{
  static ProgSpec ps;
  static RunCfg rc;
  static RefOut ref;
  FillPlan fp;
  GenOpts go;
  RunOpts ro;
  OrcProgram *pe, *pa, *ps_, *pc;
  OrcCompileResult ra, rs;
  CgUnit u;
  Arena pristine;
  const char *scratch = v_arg ("scratch", "/verif/_work/scratch");
  int enumerated = vc_pick (c, 2) == 1, i, have_c, k = 0, nrounds, round, round_var, round_k;
  uint64_t h;

  memset (&fp, 0, sizeof fp);
  memset (&ro, 0, sizeof ro);
  for (i = 0; i < PS_MAXVARS; i++) fp.src_of_var[i] = -1;
  if (enumerated) {
    const VOp *op = &v_optab[float_ops[vc_pick (c, (uint32_t) n_float_ops)]];
    int form = (int) vc_pick (c, (uint32_t) ps_single_forms (op));
    int j;
    ps_single (op, form, &ps);
    fp.mode = 1; fp.op = op;
    fp.len0 = op_table_len (op, 0); fp.len1 = op_table_len (op, 1);
    fp.bi = (int) vc_pick (c, (uint32_t) nblocks (fp.len0)); fp.bj = (int) vc_pick (c, (uint32_t) nblocks (fp.len1));
    for (j = 0; j < 3 && op->ssz[j]; j++) {
      const PVar *pv = &ps.vars[ps.ins[0].s[j]];
      if (pv->kind == VK_SRC || pv->kind == VK_DEST) fp.src_of_var[ps.ins[0].s[j]] = j;
    }
    /* n: one block of operand pairs (per row) */
    memset (&rc, 0, sizeof rc);
    {
      int lanes = ps.has_x ? 2 : 1;
      rc.n = BLK * BLK / lanes;
      rc.m = 1;
      if (ps.is2d) { rc.m = 4; rc.n = BLK * BLK / lanes / 4; }
    }
    for (i = 0; i < ps.nvars; i++) {
      PVar *pv = &ps.vars[i];
      if (pv->kind == VK_SRC || pv->kind == VK_DEST) {
        rc.a[i].misalign = ((fp.bi + fp.bj + i) % 3) * pv->size;
        rc.a[i].extra_stride = ((fp.bi + i) % 2) * 16;
        rc.a[i].fill = FILL_ZERO;
      } else if (pv->kind == VK_PARAM) {
        /* scalar operand: one value of the block's range per case (the block index selects it) */
        int kk = ps.ins[0].s[1] == i ? 1 : 0;
        rc.pval[i] = table_value (op, kk, (kk ? fp.bj : fp.bi) * BLK + (fp.bi * 7 + fp.bj * 13) % BLK);
      } else if (pv->kind == VK_CONST) {
        int kk = ps.ins[0].s[1] == i ? 1 : 0;
        pv->cval = table_value (op, kk, (kk ? fp.bj : fp.bi) * BLK + (fp.bi * 11 + fp.bj * 5) % BLK);
      }
    }
    r->classes |= 1u << 0;
  } else {
    gen_opts_default (&go);
    go.allow_float = 2; go.allow_int = 0; go.allow_acc = 0; go.allow_special_loads = 0; go.max_insns = 10; go.allow_flags = 0;
    ps_generate (c, &go, &ps, r);
    ro.n_max = 90; ro.m_max = 3; ro.placement_mask = 1;
    rc_generate (c, &ps, &ro, &rc);
    fp.mode = 2; fp.seed = ((uint64_t) vc_u32 (c) << 32) | vc_u32 (c);
    r->classes |= 1u << 1;
  }
  v_desc (r, "# C18 %s\n", enumerated ? "enumerated operand block" : "random float program");
  if (enumerated) v_desc (r, "# operand block (%d,%d) of the %d x %d table product, %d x %d pairs\n", fp.bi, fp.bj, fp.len0, fp.len1, BLK, BLK);
  ps_print (&ps, r);
  rc_print (&ps, &rc, r);
  if (ps.nins == 0) { r->verdict = V_DISCARD; return; }
  if (ps.const_two_lanes && v_excluded ("const-two-lane-sizes")) { r->excluded++; r->verdict = V_DISCARD; return; }

  /* a scalar PARAMETER operand of an enumerated case takes every value of its block in turn (the programs are compiled once);
     a scalar constant is baked into the code and keeps the one value chosen above */
  nrounds = 1; round_var = -1; round_k = 0;
  if (enumerated) {
    int j;
    for (j = 1; j >= 0; j--) if (fp.op->ssz[j] && ps.vars[ps.ins[0].s[j]].kind == VK_PARAM) { round_var = ps.ins[0].s[j]; round_k = j; }
    for (j = 0; j < 2; j++) if (fp.op->ssz[j] && (ps.vars[ps.ins[0].s[j]].kind == VK_PARAM || ps.vars[ps.ins[0].s[j]].kind == VK_CONST)) fp.scalar_partner = 1;
    if (fp.scalar_partner) { rc.n = BLK / (ps.has_x ? 2 : 1); if (ps.is2d) { rc.m = 4; rc.n = (rc.n + 3) / 4; } }
    if (round_var >= 0) {
      int len = round_k ? fp.len1 : fp.len0, base = (round_k ? fp.bj : fp.bi) * BLK;
      nrounds = len - base < BLK ? len - base : BLK;
      if (nrounds < 1) nrounds = 1;
      v_desc (r, "# the parameter operand takes the %d values of its block in turn\n", nrounds);
    }
  }
  pe = ps_build (&ps);       /* ps_build fills orcvar: needed before anything else */

  /* paths */
  v_stage (r, "@notmine: compile");
  orc_program_compile_full (pe, NULL, 0);      /* emulation only */
  pa = ps_build (&ps); ra = orc_program_compile_full (pa, orc_target_get_by_name ("avx"), orc_target_get_default_flags (orc_target_get_by_name ("avx")));
  ps_ = ps_build (&ps); rs = orc_program_compile_full (ps_, orc_target_get_by_name ("sse"), orc_target_get_default_flags (orc_target_get_by_name ("sse")));
  pc = ps_build (&ps);
  have_c = cg_make (pc, &ps, CG_BARE, "-O2", scratch, &u) == 0;
  for (round = 0; round < nrounds && r->verdict != V_FAIL; round++) {
  if (round_var >= 0) rc.pval[round_var] = table_value (fp.op, round_k, (round_k ? fp.bj : fp.bi) * BLK + round);
  /* reference */
  if (arena_build (&pristine, &ps, &rc, 0)) break;
  fill_arena (&pristine, &ps, &rc, &fp);
  v_stage (r, "reference");
  if (refprog_run (&ps, &rc, &pristine, &ref)) {
    v_desc (r, "# reference does not model this program: %s\n", ref.why);
    arena_free (&pristine); refprog_free (&ref, &ps);
    if (round == 0) r->verdict = V_DISCARD;
    break;
  }
  arena_free (&pristine);
  v_stage (r, "paths");
  k = 0;
  if (!run_path ("emulation", NULL, pe, &ps, &rc, &fp, &ref, r, 1, NULL)) k++;
  if (r->verdict != V_FAIL && have_c) { r->classes |= 1u << 7; if (!run_path ("generated-c", NULL, pc, &ps, &rc, &fp, &ref, r, 0, u.fn)) k++; }
  if (v_excluded ("ftz-threshold")) {
    /* known finding (native flush-to-zero judges tininess before rounding): elements whose computation passed through a result
       exactly on the smallest normal are not compared on the native paths; counted as excluded */
    int j;
    for (j = 0; j < ps.nvars; j++)
      if (ps.vars[j].kind == VK_DEST && ref.thr_el[j]) {
        size_t e, ne = (size_t) ref.rows * (size_t) (ref.n > 0 ? ref.n : 0);
        for (e = 0; e < ne; e++) if (ref.thr_el[j][e] && !ref.free_el[j][e]) { ref.free_el[j][e] = 1; r->excluded++; }
      }
  }
  if (r->verdict != V_FAIL && ORC_COMPILE_RESULT_IS_SUCCESSFUL (ra)) { r->classes |= 1u << 5; if (!run_path ("avx", (void *) pa->code_exec, pa, &ps, &rc, &fp, &ref, r, 0, NULL)) k++; }
  if (r->verdict != V_FAIL && ORC_COMPILE_RESULT_IS_SUCCESSFUL (rs)) { r->classes |= 1u << 6; if (!run_path ("sse", (void *) ps_->code_exec, ps_, &ps, &rc, &fp, &ref, r, 0, NULL)) k++; }

  if (ps.has_64) r->classes |= 1u << 2;
  if (ps.has_x) r->classes |= 1u << 3;
  if (ps.count[VK_CONST] + ps.count[VK_PARAM]) r->classes |= 1u << 4;
  if (ref.n_nan) r->classes |= 1u << 8;
  if (ref.n_free) r->classes |= 1u << 9;
  if (ref.n_flushed) r->classes |= 1u << 10;
  if (ref.n_saturated) r->classes |= 1u << 11;
  if (ref.n_threshold) r->classes |= 1u << 12;
  if (ps.is2d) r->classes |= 1u << 13;
  for (i = 0; i < ps.nvars; i++) if ((ps.vars[i].kind == VK_SRC || ps.vars[i].kind == VK_DEST) && rc.a[i].misalign) r->classes |= 1u << 14;
  r->sub_evals += (uint64_t) ref.n_elems * (uint64_t) k;
  r->sub_nontrivial += (uint64_t) ref.n_special * (uint64_t) k;
  if (ref.n_special > 0 && k >= 2) r->nontrivial = 1;
  if (r->verdict == V_FAIL && round_var >= 0) v_desc (r, "# failing round %d: parameter = 0x%llx\n", round, (unsigned long long) rc.pval[round_var]);
  refprog_free (&ref, &ps);
  }
  h = ps_hash (&ps) ^ rc_hash (&rc, &ps) ^ ((uint64_t) fp.bi << 20) ^ ((uint64_t) fp.bj << 8) ^ fp.seed;
  r->hash = h;
  v_stage (r, "cleanup");
  if (have_c) cg_close (&u);
  orc_program_free (pe); orc_program_free (pa); orc_program_free (ps_); orc_program_free (pc);
}
