/* C19 - the default target is the best backend the CPU really supports.
 *
 * case = (presented CPU: every combination of MMX, SSE2, SSE3, SSSE3, SSE4.1, SSE4.2, XSAVE, OSXSAVE, AVX, AVX2,
 *         XCR0.SSE, XCR0.AVX; vendor Intel/AMD/other) x (override variable unset / ORC_TARGET or ORC_BACKEND naming
 *         mmx, sse, avx, c, neon, an unknown name, the empty string).  Each case runs in a fresh forked child that
 *         has not initialised Orc yet; the CPU is presented through the ORC_VERIF_CPUID hook.
 * oracle = truth table written from the SDM bit definitions (see expected_* below); a one-instruction program
 *          compiled through the default path must produce the right result whatever was selected.
 */
#include "../engine/vcase.h"
#include <orc/orc.h>
#include <stdlib.h>

const char *vprop_id = "C19";
int vprop_fork = 1;
int vprop_cpu_limit_s = 20;
const char *vprop_class_names[V_NCLASS] = {
  "expect_avx", "expect_sse", "expect_mmx", "expect_none", "override_set", "override_executable", "override_not_executable",
  "override_unknown", "var_ORC_TARGET", "var_ORC_BACKEND", "vendor_intel", "vendor_amd", "vendor_other", "differs_from_host", NULL
};

void vprop_init (int argc, char **argv) { (void) argc; (void) argv; /* no orc_init here: every child starts uninitialised */ }

enum { F_MMX, F_SSE2, F_SSE3, F_SSSE3, F_SSE41, F_SSE42, F_XSAVE, F_OSXSAVE, F_AVX, F_AVX2, F_XCR0_SSE, F_XCR0_AVX, F_N };
static const char *overrides[] = { NULL, "mmx", "sse", "avx", "c", "neon", "nosuchbackend", "" };
#define N_OVR 8

/* stream: [features(12 bits), vendor, override index, variable] */
uint64_t vprop_enum_count (const char *tier)
{
  if (!strcmp (tier, "thorough")) return 4096ULL * 3 * N_OVR * 2;
  return 4096ULL * 6;         /* quick: every feature set, once without override and with five hashed (vendor, override, variable) choices */
}

size_t vprop_enum_stream (uint64_t idx, uint32_t *out, size_t max)
{
  (void) max;
  if (!strcmp (v_arg ("tier", "quick"), "thorough")) {
    out[0] = (uint32_t) (idx % 4096); idx /= 4096;
    out[1] = (uint32_t) (idx % 3); idx /= 3;
    out[2] = (uint32_t) (idx % N_OVR); idx /= N_OVR;
    out[3] = (uint32_t) (idx % 2);
  } else {
    uint64_t h = v_mix64 (idx);
    out[0] = (uint32_t) (idx % 4096);
    out[1] = (uint32_t) (h % 3);
    out[2] = idx < 4096 ? 0 : 1 + (uint32_t) ((h >> 8) % (N_OVR - 1));
    out[3] = (uint32_t) ((h >> 16) % 2);
  }
  return 4;
}

void vprop_case (VChoices *c, VResult *r)
{
  uint32_t f = vc_pick (c, 4096), vendor = vc_pick (c, 3), ovr = vc_pick (c, N_OVR), var = vc_pick (c, 2);
  uint32_t l1edx = 0, l1ecx = 0, l7ebx = 0, xcr0 = 1, l0ecx;
  char env[256];
  int mmx_exec, sse_exec, avx_exec, i;
  const char *expect_default, *got_default;
  OrcTarget *tm, *ts, *ta, *def;
#define HAS(b) ((f >> (b)) & 1)
  if (HAS (F_MMX)) l1edx |= 1u << 23;
  if (HAS (F_SSE2)) l1edx |= (1u << 26) | (1u << 25);
  if (HAS (F_SSE3)) l1ecx |= 1u << 0;
  if (HAS (F_SSSE3)) l1ecx |= 1u << 9;
  if (HAS (F_SSE41)) l1ecx |= 1u << 19;
  if (HAS (F_SSE42)) l1ecx |= 1u << 20;
  if (HAS (F_XSAVE)) l1ecx |= 1u << 26;
  if (HAS (F_OSXSAVE)) l1ecx |= 1u << 27;
  if (HAS (F_AVX)) l1ecx |= 1u << 28;
  if (HAS (F_AVX2)) l7ebx |= 1u << 5;
  if (HAS (F_XCR0_SSE)) xcr0 |= 1u << 1;
  if (HAS (F_XCR0_AVX)) xcr0 |= 1u << 2;
  l0ecx = vendor == 0 ? 0x6c65746e /* "ntel" */ : vendor == 1 ? 0x444d4163 /* "cAMD" */ : 0x20202020;
  snprintf (env, sizeof env, "0.ecx=%x,1.edx=%x,1.ecx=%x,7.ebx=%x,7.ecx=0,7.edx=0,xcr0=%x,80000001.ecx=0,80000001.edx=0",
      l0ecx, l1edx, l1ecx, l7ebx, xcr0);
  setenv ("ORC_VERIF_CPUID", env, 1);
  unsetenv ("ORC_TARGET"); unsetenv ("ORC_BACKEND"); unsetenv ("ORC_CODE"); unsetenv ("ORC_DEBUG");
  if (overrides[ovr]) setenv (var ? "ORC_BACKEND" : "ORC_TARGET", overrides[ovr], 1);

  /* truth table (Intel SDM vol.2 CPUID, vol.1 14.3 "Detection of AVX") */
  mmx_exec = HAS (F_MMX);
  sse_exec = HAS (F_SSE2);
  avx_exec = HAS (F_AVX) && HAS (F_AVX2) && HAS (F_XSAVE) && HAS (F_OSXSAVE) && HAS (F_XCR0_SSE) && HAS (F_XCR0_AVX);
  expect_default = avx_exec ? "avx" : sse_exec ? "sse" : mmx_exec ? "mmx" : NULL;

  v_desc (r, "# C19 presented CPU: mmx=%d sse2=%d sse3=%d ssse3=%d sse4.1=%d sse4.2=%d xsave=%d osxsave=%d avx=%d avx2=%d xcr0=%x vendor=%s\n"
      "# override: %s%s%s\n# expected: mmx_exec=%d sse_exec=%d avx_exec=%d default=%s\n",
      HAS (F_MMX), HAS (F_SSE2), HAS (F_SSE3), HAS (F_SSSE3), HAS (F_SSE41), HAS (F_SSE42), HAS (F_XSAVE), HAS (F_OSXSAVE), HAS (F_AVX), HAS (F_AVX2), xcr0,
      vendor == 0 ? "intel" : vendor == 1 ? "amd" : "other",
      overrides[ovr] ? (var ? "ORC_BACKEND=" : "ORC_TARGET=") : "(none)", overrides[ovr] ? "\"" : "", overrides[ovr] ? overrides[ovr] : "",
      mmx_exec, sse_exec, avx_exec, expect_default ? expect_default : "(none: emulation)");
  r->hash = v_hash_bytes (f * 1000003u + vendor * 101u + ovr * 7u + var, env, strlen (env));
  r->nontrivial = 1;

  v_stage (r, "orc_init");
  orc_init ();
  tm = orc_target_get_by_name ("mmx"); ts = orc_target_get_by_name ("sse"); ta = orc_target_get_by_name ("avx");
  if (!tm || !ts || !ta) { v_fail (r, "target-missing", "an x86 target is not registered"); return; }
  if (!!tm->executable != mmx_exec) { v_fail (r, "executable:mmx", "mmx marked executable=%d, the presented CPU says %d", tm->executable, mmx_exec); return; }
  if (!!ts->executable != sse_exec) { v_fail (r, "executable:sse", "sse marked executable=%d, the presented CPU says %d", ts->executable, sse_exec); return; }
  if (!!ta->executable != avx_exec) { v_fail (r, "executable:avx", "avx marked executable=%d, the presented CPU (AVX=%d AVX2=%d XSAVE=%d OSXSAVE=%d XCR0=%x) says %d",
      ta->executable, HAS (F_AVX), HAS (F_AVX2), HAS (F_XSAVE), HAS (F_OSXSAVE), xcr0, avx_exec); return; }
  /* default flags never claim a feature the CPU lacks */
  {
    unsigned sf = orc_target_get_default_flags (ts), af = orc_target_get_default_flags (ta), mf = orc_target_get_default_flags (tm);
    unsigned os_avx = HAS (F_XSAVE) && HAS (F_OSXSAVE) && HAS (F_XCR0_SSE) && HAS (F_XCR0_AVX);
    struct { unsigned flag; int have; const char *name; } sse_bits[] = {
      { ORC_TARGET_SSE_SSE2, HAS (F_SSE2), "SSE2" }, { ORC_TARGET_SSE_SSE3, HAS (F_SSE3), "SSE3" }, { ORC_TARGET_SSE_SSSE3, HAS (F_SSSE3), "SSSE3" },
      { ORC_TARGET_SSE_SSE4_1, HAS (F_SSE41), "SSE4.1" }, { ORC_TARGET_SSE_SSE4_2, HAS (F_SSE42), "SSE4.2" },
      { ORC_TARGET_AVX_AVX, HAS (F_AVX) && (int) os_avx, "AVX" }, { ORC_TARGET_AVX_AVX2, HAS (F_AVX) && HAS (F_AVX2) && (int) os_avx, "AVX2" },
      { ORC_TARGET_SSE_SSE4A, 0, "SSE4A" }, { ORC_TARGET_SSE_SSE5, 0, "SSE5" } };
    for (i = 0; i < 9; i++) {
      if ((sf & sse_bits[i].flag) && !sse_bits[i].have) { v_fail (r, "flags:sse", "sse default flags claim %s which the presented CPU lacks (flags 0x%x)", sse_bits[i].name, sf); return; }
      if ((af & sse_bits[i].flag) && !sse_bits[i].have) { v_fail (r, "flags:avx", "avx default flags claim %s which the presented CPU lacks (flags 0x%x)", sse_bits[i].name, af); return; }
    }
    if ((mf & ORC_TARGET_MMX_MMX) && !HAS (F_MMX)) { v_fail (r, "flags:mmx", "mmx default flags claim MMX (0x%x)", mf); return; }
    if ((mf & ORC_TARGET_MMX_MMXEXT) && !HAS (F_SSE2)) { v_fail (r, "flags:mmx", "mmx default flags claim MMXEXT without SSE (0x%x)", mf); return; }
    if ((mf & ORC_TARGET_MMX_SSSE3) && !HAS (F_SSSE3)) { v_fail (r, "flags:mmx", "mmx default flags claim SSSE3 (0x%x)", mf); return; }
    if ((mf & ORC_TARGET_MMX_SSE4_1) && !HAS (F_SSE41)) { v_fail (r, "flags:mmx", "mmx default flags claim SSE4.1 (0x%x)", mf); return; }
    if (mf & (ORC_TARGET_MMX_3DNOW | ORC_TARGET_MMX_3DNOWEXT)) { v_fail (r, "flags:mmx", "mmx default flags claim 3DNow! (0x%x)", mf); return; }
  }
  def = orc_target_get_default ();
  got_default = def ? orc_target_get_name (def) : NULL;
  {
    const char *want = expect_default;
    int named_exec = 0;
    if (overrides[ovr]) {
      if (!strcmp (overrides[ovr], "mmx") && mmx_exec) { want = "mmx"; named_exec = 1; }
      if (!strcmp (overrides[ovr], "sse") && sse_exec) { want = "sse"; named_exec = 1; }
      if (!strcmp (overrides[ovr], "avx") && avx_exec) { want = "avx"; named_exec = 1; }
    }
    v_desc (r, "# library: default=%s mmx.exec=%d sse.exec=%d avx.exec=%d\n", got_default ? got_default : "(null)", tm->executable, ts->executable, ta->executable);
    if (named_exec || !overrides[ovr]) {
      if ((want == NULL) != (got_default == NULL) || (want && strcmp (want, got_default))) {
        char sig[V_SIG_MAX];
        snprintf (sig, sizeof sig, "default-target:%s", overrides[ovr] ? (var ? "override-ORC_BACKEND" : "override-ORC_TARGET") : "no-override");
        v_fail (r, sig, "default target is %s, expected %s", got_default ? got_default : "(none)", want ? want : "(none)");
        return;
      }
    } else {
      /* unknown or not executable here: the default path must stay on something that runs here */
      if (def && !def->executable) {
        v_fail (r, "default-target:override-not-executable", "override \"%s\" made the default target %s, which is not executable on the presented CPU", overrides[ovr], got_default);
        return;
      }
    }
    if (named_exec) r->classes |= 1u << 5;
    else if (overrides[ovr]) r->classes |= (!strcmp (overrides[ovr], "mmx") || !strcmp (overrides[ovr], "sse") || !strcmp (overrides[ovr], "avx") || !strcmp (overrides[ovr], "c") || !strcmp (overrides[ovr], "neon")) ? 1u << 6 : 1u << 7;
  }
  /* whatever was selected: the default compile path gives a function that runs here and is right */
  {
    OrcProgram *p = orc_program_new_dss (2, 2, 2);
    OrcExecutor ex;
    orc_int16 a[40], b[40], d[40];
    OrcCompileResult res;
    orc_program_set_name (p, "c19_add");
    orc_program_append (p, "addw", ORC_VAR_D1, ORC_VAR_S1, ORC_VAR_S2);
    v_stage (r, "compile default path");
    res = orc_program_compile (p);
    for (i = 0; i < 40; i++) { a[i] = (orc_int16) (i * 311 - 5000); b[i] = (orc_int16) (i * i * 13 + 7); d[i] = 0x5555; }
    memset (&ex, 0, sizeof ex);
    orc_executor_set_program (&ex, p);
    orc_executor_set_n (&ex, 37);
    orc_executor_set_array (&ex, ORC_VAR_D1, d); orc_executor_set_array (&ex, ORC_VAR_S1, a); orc_executor_set_array (&ex, ORC_VAR_S2, b);
    v_stage (r, "run default path (compile result 0x%x, default target %s)", res, got_default ? got_default : "none");
    orc_executor_run (&ex);
    for (i = 0; i < 40; i++) {
      orc_int16 want = i < 37 ? (orc_int16) (a[i] + b[i]) : 0x5555;
      if (d[i] != want) { v_fail (r, "default-path-result", "element %d is %d, expected %d (compile result 0x%x)", i, d[i], want, res); break; }
    }
    orc_program_free (p);
  }
  r->classes |= expect_default == NULL ? 1u << 3 : !strcmp (expect_default, "avx") ? 1u << 0 : !strcmp (expect_default, "sse") ? 1u << 1 : 1u << 2;
  if (overrides[ovr]) r->classes |= (1u << 4) | (var ? 1u << 9 : 1u << 8);
  r->classes |= 1u << (10 + vendor);
  if (!avx_exec) r->classes |= 1u << 13;
}
