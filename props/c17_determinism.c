/* C17 - compilation is deterministic and independent of history.
 *
 * case = program P (full generator: floats, 64-bit, special loads, accumulators, 2-D, x2/x4) x target (avx, sse, mmx,
 *        altivec, neon, mips, c64x-c, c) x flags (default or a variation) x debug levels x a history of other
 *        compiles / code hand-offs / frees between the compilations of P.
 * oracle (metamorphic: the history, the debug level and the placement must not matter):
 *   compile #0 of P in the fresh child   -> result R0, machine code B0 (orccode->code[0..code_size)), listing A0
 *   history (0..14 other compiles for random targets, kept, freed or handed off; P#0 kept alive or freed)
 *   compile #1 of a freshly built P, at another debug level -> R1 == R0, B1 == B0 byte for byte, A1 == A0
 *   reset + compile #2 of the same program object (in 2 of 3 cases after compiling that object for another target) -> again equal
 *   x86 with flags within the machine's features: code #0 (old placement) and code #2 (new placement) run on identical inputs
 *   give bit-identical outputs (floats included), and running the same code twice gives the same outputs.
 * A crash inside compile #0 is not a determinism question (C05 owns it): such cases are counted as excluded.
 */
#include "../engine/prog.h"
#include "../engine/tramp.h"
#include <stdlib.h>
#include <orc/orcdebug.h>

const char *vprop_id = "C17";
int vprop_fork = 1;
int vprop_cpu_limit_s = 60;
const char *vprop_class_names[V_NCLASS] = {
  "x86_target", "non_native_target", "placement_differs", "debug_level_differs", "history_ge_4", "ran_both_placements",
  "compile_failed_consistently", "non_default_flags", "p0_freed_before_recompile", "float_program", "same_object_compiled_for_other_target_in_between", NULL
};

static const char *tnames[8] = { "avx", "sse", "mmx", "altivec", "neon", "mips", "c64x-c", "c" };

/* what an earlier compilation left in freed heap blocks is part of the history too: before each of the three compilations the
   blocks the compiler is about to get from malloc (code buffer, compiler object, listing buffers) are handed out once, filled with
   a pattern of their own and freed again, so that any byte the compiler emits or reads without having written it differs between
   the compilations in a reproducible way (the same stream gives the same patterns in a replay) */
static void heap_poison (unsigned char pattern)
{
  static const size_t sizes[] = { 65536, sizeof (OrcCompiler), 32768, 16384, 8192, 4096, 2048, 1024, 512, 256, 128, 64, 32 };
  void *blk[13][3];
  size_t i, k;
  for (i = 0; i < sizeof sizes / sizeof sizes[0]; i++)
    for (k = 0; k < 3; k++) { blk[i][k] = malloc (sizes[i]); if (blk[i][k]) memset (blk[i][k], pattern, sizes[i]); }
  for (i = 0; i < sizeof sizes / sizeof sizes[0]; i++)
    for (k = 0; k < 3; k++) free (blk[i][k]);
}

static void quiet_print (int level, const char *file, const char *func, int line, const char *fmt, va_list args)
{
  /* format it (argument evaluation and formatting are part of what a debug level changes), then drop it */
  char buf[2048];
  (void) level; (void) file; (void) func; (void) line;
  vsnprintf (buf, sizeof buf, fmt, args);
}

void vprop_init (int argc, char **argv)
{
  (void) argc; (void) argv;
  orc_init ();
  orc_debug_set_print_function (quiet_print);
}
uint64_t vprop_enum_count (const char *tier) { (void) tier; return 0; }
size_t vprop_enum_stream (uint64_t i, uint32_t *out, size_t max) { (void) i; (void) out; (void) max; return 0; }

typedef struct { OrcCompileResult res; unsigned char *code; int code_size; char *asm_text; void *exec; } Snap;

static void snap_take (Snap *s, OrcProgram *p, OrcCompileResult res)
{
  memset (s, 0, sizeof *s);
  s->res = res;
  if (p->orccode && p->orccode->code && ORC_COMPILE_RESULT_IS_SUCCESSFUL (res)) {
    s->code_size = p->orccode->code_size;
    s->code = (unsigned char *) malloc ((size_t) s->code_size + 1);
    memcpy (s->code, p->orccode->code, (size_t) s->code_size);
    s->exec = (void *) p->orccode->exec;
  }
  if (p->asm_code) s->asm_text = strdup (p->asm_code);
}

static int snap_diff (const Snap *a, const Snap *b, char *msg, size_t max)
{
  if (a->res != b->res) { snprintf (msg, max, "compile result %s vs %s", v_result_name (a->res), v_result_name (b->res)); return 1; }
  if (a->code_size != b->code_size) { snprintf (msg, max, "code size %d vs %d bytes", a->code_size, b->code_size); return 2; }
  if (a->code_size && memcmp (a->code, b->code, (size_t) a->code_size)) {
    int k;
    for (k = 0; k < a->code_size && a->code[k] == b->code[k]; k++) {}
    snprintf (msg, max, "machine code differs at byte %d of %d: 0x%02x vs 0x%02x", k, a->code_size, a->code[k], b->code[k]);
    return 3;
  }
  if ((a->asm_text == NULL) != (b->asm_text == NULL)) { snprintf (msg, max, "listing present in one compilation only"); return 4; }
  if (a->asm_text && strcmp (a->asm_text, b->asm_text)) {
    const char *x = a->asm_text, *y = b->asm_text;
    int line = 1;
    while (*x && *x == *y) { if (*x == '\n') line++; x++; y++; }
    snprintf (msg, max, "listing differs at line %d: '%.60s' vs '%.60s'", line, x, y);
    return 4;
  }
  return 0;
}

static unsigned flags_for (VChoices *c, int t, OrcTarget *target, int *nondefault, int *runnable)
{
  unsigned dflt = orc_target_get_default_flags (target), f = dflt;
  uint32_t v = vc_pick (c, 12);
  *nondefault = 0; *runnable = t < 3;
  if (v < 6) return f;
  *nondefault = 1;
  if (t < 2) {
    uint32_t lvl = v - 6;
    if (lvl >= 1) f &= ~(unsigned) ORC_TARGET_SSE_SSE4_2;
    if (lvl >= 2) f &= ~(unsigned) ORC_TARGET_SSE_SSE4_1;
    if (lvl >= 3) f &= ~(unsigned) ORC_TARGET_SSE_SSSE3;
    if (lvl >= 4) f &= ~(unsigned) ORC_TARGET_SSE_SSE3;
    if (lvl == 0) f |= ORC_TARGET_SSE_FRAME_POINTER;
    if (lvl == 5) f |= ORC_TARGET_SSE_SHORT_JUMPS;
  } else if (t == 2) {
    uint32_t lvl = v - 6;
    if (lvl >= 1) f &= ~(unsigned) ORC_TARGET_MMX_SSE4_1;
    if (lvl >= 2) f &= ~(unsigned) ORC_TARGET_MMX_SSSE3;
    if (lvl == 0) f |= ORC_TARGET_MMX_FRAME_POINTER;
    if (lvl == 5) f |= ORC_TARGET_MMX_SHORT_JUMPS;
  } else {
    /* non-native back ends only print: any combination of their low flag bits is a configuration */
    f = dflt ^ (vc_pick (c, 64));
  }
  return f;
}

static int run_on (void *exec, OrcCode *code, ProgSpec *ps, RunCfg *rc, Arena *a, OrcExecutor *ex)
{
  if (arena_build (a, ps, rc, 0)) return -1;
  exec_setup (ex, NULL, code, ps, rc, a);
  v_shielded_call (exec, ex);
  return 0;
}

void vprop_case (VChoices *c, VResult *r)
{
  static ProgSpec ps, other;
  static RunCfg rc;
  GenOpts go;
  OrcProgram *p0, *p1, *pool[16];
  OrcCode *held[16], *code0 = NULL;
  OrcTarget *target;
  Snap s0, s1, s2;
  char msg[600], sig[V_SIG_MAX];
  int t, nondefault, runnable, lvl0, lvl1, lvl2, nhist, i, npool = 0, nheld = 0, free_p0, d;
  unsigned flags;
  OrcCompileResult res;

  t = vc_chance (c, 1, 2) ? (int) vc_pick (c, 3) : (int) vc_pick (c, 8);
  target = orc_target_get_by_name (tnames[t]);
  flags = flags_for (c, t, target, &nondefault, &runnable);
  lvl0 = (int) vc_pick (c, 6); lvl1 = (int) vc_pick (c, 6); lvl2 = (int) vc_pick (c, 6);
  gen_opts_default (&go);
  go.allow_float = 1;
  if (vc_chance (c, 1, 3)) {
    go.single_opcode = (int) vc_pick (c, (uint32_t) v_noptab);
    go.single_form = (int) vc_pick (c, (uint32_t) ps_single_forms (&v_optab[go.single_opcode]));
  }
  ps_generate (c, &go, &ps, r);
  v_desc (r, "# C17 target=%s flags=0x%x debug levels %d,%d,%d\n", tnames[t], flags, lvl0, lvl1, lvl2);
  ps_print (&ps, r);
  r->classes |= t < 3 ? 1u << 0 : 1u << 1;
  if (nondefault) r->classes |= 1u << 7;
  if (ps.has_float) r->classes |= 1u << 9;

  /* compile #0 in the fresh process */
  orc_debug_set_level (lvl0);
  v_stage (r, "@notmine: first compile target=%s", tnames[t]);
  p0 = ps_build (&ps);
  heap_poison (0x00);
  res = orc_program_compile_full (p0, target, flags);
  snap_take (&s0, p0, res);
  v_stage (r, "history");
  v_desc (r, "# compile #0: %s, %d bytes at %p\n", v_result_name (res), s0.code_size, s0.exec);

  /* history */
  free_p0 = vc_chance (c, 1, 3);
  if (free_p0) { orc_program_free (p0); p0 = NULL; r->classes |= 1u << 8; }
  else if (ORC_COMPILE_RESULT_IS_SUCCESSFUL (res) && vc_chance (c, 1, 2)) { code0 = orc_program_take_code (p0); orc_program_free (p0); p0 = NULL; }
  nhist = (int) vc_pick (c, 15);
  for (i = 0; i < nhist; i++) {
    uint32_t op = vc_pick (c, 6);
    if (op <= 2 && npool < 16) {
      GenOpts g2;
      OrcProgram *q;
      int t2 = (int) vc_pick (c, 8);
      gen_opts_default (&g2);
      g2.allow_float = 1; g2.max_insns = 10;
      if (vc_chance (c, 2, 3)) { g2.single_opcode = (int) vc_pick (c, (uint32_t) v_noptab); g2.single_form = (int) vc_pick (c, 64) % ps_single_forms (&v_optab[g2.single_opcode]); }
      ps_generate (c, &g2, &other, r);
      v_stage (r, "@notmine: history compile %s for %s", other.ins[0].op->name, tnames[t2]);
      q = ps_build (&other);
      orc_debug_set_level ((int) vc_pick (c, 6));
      orc_program_compile_full (q, orc_target_get_by_name (tnames[t2]), orc_target_get_default_flags (orc_target_get_by_name (tnames[t2])));
      v_stage (r, "history");
      pool[npool++] = q;
    } else if (op == 3 && npool > 0) {
      int k = (int) vc_pick (c, (uint32_t) npool);
      orc_program_free (pool[k]); pool[k] = pool[--npool];
    } else if (op == 4 && npool > 0 && nheld < 16) {
      int k = (int) vc_pick (c, (uint32_t) npool);
      if (pool[k]->orccode) held[nheld++] = orc_program_take_code (pool[k]);
      orc_program_free (pool[k]); pool[k] = pool[--npool];
    } else if (op == 5 && nheld > 0) {
      int k = (int) vc_pick (c, (uint32_t) nheld);
      orc_code_free (held[k]); held[k] = held[--nheld];
    }
  }
  if (nhist >= 4) r->classes |= 1u << 4;

  /* compile #1: a freshly built P */
  orc_debug_set_level (lvl1);
  v_stage (r, "second compile target=%s", tnames[t]);
  p1 = ps_build (&ps);
  heap_poison (0xa5);
  res = orc_program_compile_full (p1, target, flags);
  snap_take (&s1, p1, res);
  v_desc (r, "# compile #1: %s, %d bytes at %p\n", v_result_name (res), s1.code_size, s1.exec);
  d = snap_diff (&s0, &s1, msg, sizeof msg);
  if (d) {
    snprintf (sig, sizeof sig, "recompile-differs:%s target=%s", d == 1 ? "result" : d <= 3 ? "code" : "listing", tnames[t]);
    v_fail (r, sig, "compile #0 vs compile #1 of the same program (debug level %d vs %d, %d history operations): %s", lvl0, lvl1, nhist, msg);
    return;
  }
  /* compile #2: reset the same object and compile again; in two cases out of three the object is first compiled for ANOTHER target
     in between (a compile must not leave anything behind in the program object that changes a later compile) */
  orc_debug_set_level (lvl2);
  if (vc_pick (c, 3) != 0) {
    int t3 = (int) vc_pick (c, 8);
    OrcTarget *other = orc_target_get_by_name (tnames[t3]);
    v_stage (r, "@notmine: reset + compile for %s in between", tnames[t3]);
    orc_program_reset (p1);
    orc_program_compile_full (p1, other, orc_target_get_default_flags (other));
    v_desc (r, "# the same object is compiled for %s before the third compile\n", tnames[t3]);
    r->classes |= 1u << 10;
  }
  v_stage (r, "reset + third compile target=%s", tnames[t]);
  orc_program_reset (p1);
  heap_poison (0x5a);
  res = orc_program_compile_full (p1, target, flags);
  snap_take (&s2, p1, res);
  d = snap_diff (&s0, &s2, msg, sizeof msg);
  if (d) {
    snprintf (sig, sizeof sig, "reset-recompile-differs:%s target=%s", d == 1 ? "result" : d <= 3 ? "code" : "listing", tnames[t]);
    v_fail (r, sig, "compile #0 vs reset + compile #2 (debug level %d vs %d): %s", lvl0, lvl2, msg);
    return;
  }
  if (lvl0 != lvl1 || lvl0 != lvl2) r->classes |= 1u << 3;
  if (s0.exec && s2.exec && (s0.exec != s2.exec || s0.exec != s1.exec)) r->classes |= 1u << 2;
  if (!ORC_COMPILE_RESULT_IS_SUCCESSFUL (s0.res)) r->classes |= 1u << 6;
  r->sub_evals = 2;

  /* run: both placements, same inputs, bit-identical outputs; same code twice */
  if (runnable && ORC_COMPILE_RESULT_IS_SUCCESSFUL (s0.res) && (flags & ~orc_target_get_default_flags (target) & 0xfff) == 0
      && !(ps.ldres_shared || ps.acc_nonarray)) {
    RunOpts ro;
    int runs = 1 + (int) vc_pick (c, 3), k;
    OrcCode *cnew = p1->orccode, *cold = code0 ? code0 : (p0 ? p0->orccode : NULL);
    memset (&ro, 0, sizeof ro);
    ro.n_max = 70; ro.m_max = 3; ro.placement_mask = 1;
    for (k = 0; k < runs; k++) {
      Arena a1, a2, a3;
      OrcExecutor e1, e2, e3;
      int have_old;
      rc_generate (c, &ps, &ro, &rc);
      v_stage (r, "run new placement");
      if (run_on ((void *) cnew->exec, cnew, &ps, &rc, &a1, &e1)) break;
      if (run_on ((void *) cnew->exec, cnew, &ps, &rc, &a2, &e2)) { arena_free (&a1); break; }
      if (arena_compare (&a1, &a2, &ps, &rc, &e1, &e2, msg, sizeof msg)) {
        snprintf (sig, sizeof sig, "rerun-differs target=%s", tnames[t]);
        rc_print (&ps, &rc, r);
        v_fail (r, sig, "running the same code twice on the same inputs: %s", msg);
      }
      have_old = cold != NULL;
      if (have_old && r->verdict != V_FAIL) {
        v_stage (r, "run old placement");
        if (!run_on ((void *) cold->exec, cold, &ps, &rc, &a3, &e3)) {
          if (arena_compare (&a1, &a3, &ps, &rc, &e1, &e3, msg, sizeof msg)) {
            snprintf (sig, sizeof sig, "placement-changes-result target=%s", tnames[t]);
            rc_print (&ps, &rc, r);
            v_fail (r, sig, "code at %p and identical code at %p give different outputs: %s", (void *) cold->exec, (void *) cnew->exec, msg);
          }
          arena_free (&a3);
          if (cold->exec != cnew->exec) r->classes |= 1u << 5;
        }
      }
      arena_free (&a1); arena_free (&a2);
      r->sub_evals++;
      if (r->verdict == V_FAIL) return;
    }
  }
  r->nontrivial = (r->classes & ((1u << 2) | (1u << 3) | (1u << 4))) != 0 && (s0.code_size > 0 || s0.asm_text);
  r->sub_nontrivial = r->nontrivial ? r->sub_evals : 0;
  r->hash = v_hash_bytes (ps_hash (&ps) ^ (uint64_t) t * 977 ^ flags, &nhist, sizeof nhist);
  v_stage (r, "cleanup");
  for (i = 0; i < npool; i++) orc_program_free (pool[i]);
  for (i = 0; i < nheld; i++) orc_code_free (held[i]);
  if (p0) orc_program_free (p0);
  if (code0) orc_code_free (code0);
  orc_program_free (p1);
  free (s0.code); free (s1.code); free (s2.code); free (s0.asm_text); free (s1.asm_text); free (s2.asm_text);
}
