/* C06 - every fallback path still gives the emulation result.
 *
 * Fault injection by link-time wrapping (-Wl,--wrap=) of the three system calls Orc makes to obtain executable memory:
 * mkstemp64, ftruncate64, mmap64.  Calls are counted while "armed" (during orc_init and during compilation only) and the
 * calls named by the case's plan fail (EACCES / ENOSPC / ENOMEM).  orc_init runs inside the case's child process, so the
 * start-up probe is under test too.
 *
 * case = failure plan {none, the k-th call, a pair of calls, every call of one kind, every call from the k-th on}
 *        x ORC_CODE {unset, emulate, backup, debug, "backup,emulate"} x backup function registered or not
 *        x executor {program attached, code only (orc_program_take_code)} x program {has rules on the target, uses an opcode
 *        without a rule on the target (double arithmetic on mmx), exhausts the vector registers at code emission}
 *        x environment {XDG_RUNTIME_DIR/HOME/TMPDIR set to a scratch directory, unset, set to a missing directory}
 * oracle = running twice through orc_executor_run gives the bytes orc_executor_emulate gives on an identical arena (and for
 *        the add program what a C loop gives); the registered backup function (which counts its calls and emulates) is called
 *        0 times if native code ran, at most once per run otherwise (emulation instead of the backup is equally allowed by the
 *        statement), and exactly once when ORC_CODE=backup; 40 further
 *        compile/free rounds under the same plan do not increase the number of open file descriptors after the first five.
 */
#include "../engine/prog.h"
#include "../engine/tramp.h"
#include <stdlib.h>
#include <errno.h>
#include <dirent.h>
#include <unistd.h>
#include <sys/mman.h>
#include <sys/stat.h>

const char *vprop_id = "C06";
int vprop_fork = 1;
int vprop_cpu_limit_s = 30;
const char *vprop_class_names[V_NCLASS] = {
  "plan_none", "plan_single", "plan_pair", "plan_kind", "plan_from_k", "plan_kinds_from_k", "failure_injected_during_init", "failure_injected_during_compile",
  "native_used", "fallback_used", "backup_called", "code_only_executor", "orc_code_emulate", "orc_code_backup", "orc_code_debug",
  "no_rule_program", "register_exhaustion_program", "env_unset", "env_missing_dir", "init_disabled_jit", NULL
};

/* ---- wrapped system calls ---- */
void *__real_mmap64 (void *addr, size_t len, int prot, int flags, int fd, off_t off);
int __real_mkstemp64 (char *tmpl);
int __real_ftruncate64 (int fd, off_t len);

enum { K_MKSTEMP = 0, K_FTRUNCATE = 1, K_MMAP = 2 };
/* finer kinds for plan type 5: bit 0 mkstemp, 1 ftruncate, 2 executable file mapping, 3 writable file mapping, 4 anonymous mapping */
static int fine_kind;
static int armed, call_index, n_injected, n_calls_seen;
static int plan_type, plan_a, plan_b;      /* 0 none, 1 single a, 2 pair a b, 3 kind a, 4 from a on */
static char created[3000][80]; static int n_created;      /* ORC_CODE=debug keeps its temporary files: removed at the end of the case */

static int should_fail (int kind)
{
  int k;
  if (!armed) return 0;
  k = call_index++;
  n_calls_seen++;
  switch (plan_type) {
    case 1: return k == plan_a;
    case 2: return k == plan_a || k == plan_b;
    case 3: return kind == plan_a;
    case 4: return k >= plan_a;
    case 5: return k >= plan_a && (plan_b & (1 << fine_kind));
    default: return 0;
  }
}
void *__wrap_mmap64 (void *addr, size_t len, int prot, int flags, int fd, off_t off);
void *__wrap_mmap64 (void *addr, size_t len, int prot, int flags, int fd, off_t off)
{
  fine_kind = fd < 0 ? 4 : (prot & PROT_EXEC) ? 2 : 3;
  if (should_fail (K_MMAP)) { n_injected++; errno = ENOMEM; return MAP_FAILED; }
  return __real_mmap64 (addr, len, prot, flags, fd, off);
}
int __wrap_mkstemp64 (char *tmpl);
int __wrap_mkstemp64 (char *tmpl)
{
  int fd;
  fine_kind = 0;
  if (should_fail (K_MKSTEMP)) { n_injected++; errno = EACCES; return -1; }
  fd = __real_mkstemp64 (tmpl);
  if (fd >= 0 && n_created < 3000 && strlen (tmpl) < 80) snprintf (created[n_created++], sizeof created[0], "%s", tmpl);
  return fd;
}
int __wrap_ftruncate64 (int fd, off_t len);
int __wrap_ftruncate64 (int fd, off_t len)
{
  fine_kind = 1;
  if (should_fail (K_FTRUNCATE)) { n_injected++; errno = ENOSPC; return -1; }
  return __real_ftruncate64 (fd, len);
}

static int count_fds (void)
{
  DIR *d = opendir ("/proc/self/fd");
  int n = 0;
  if (!d) return -1;
  while (readdir (d)) n++;
  closedir (d);
  return n;
}

/* ---- enumeration ---- */
#define MAXK 24
#define PAIRK 14
static const int n_plans = 1 + MAXK + PAIRK * (PAIRK - 1) / 2 + 3 + 16;
static void plan_decode (int idx, int *type, int *a, int *b)
{
  *a = *b = 0;
  if (idx == 0) { *type = 0; return; }
  idx -= 1;
  if (idx < MAXK) { *type = 1; *a = idx; return; }
  idx -= MAXK;
  if (idx < PAIRK * (PAIRK - 1) / 2) {
    int i, j;
    *type = 2;
    for (i = 0; i < PAIRK; i++) for (j = i + 1; j < PAIRK; j++) { if (idx-- == 0) { *a = i; *b = j; return; } }
  }
  idx -= PAIRK * (PAIRK - 1) / 2;
  if (idx < 3) { *type = 3; *a = idx; return; }
  idx -= 3;
  if (idx < 16) { *type = 4; *a = idx; return; }
  idx -= 16;
  /* from the k-th call on, every call of the kinds in a mask fails (k < 12, mask 1..31) */
  *type = 5; *a = (idx / 31) % 12; *b = 1 + idx % 31;
}
/* stream: [plan, orc_code, backup, executor, program, env] */
#define N_REST (5 * 2 * 2 * 3 * 3)
void vprop_init (int argc, char **argv) { (void) argc; (void) argv; /* no orc_init here: it is part of every case */ }
#define N_PLANS5 (12 * 31)
#define N_REST5 (2 * 2 * 2 * 3 * 3)     /* ORC_CODE unset or debug only: the other settings never ask for code memory */
uint64_t vprop_enum_count (const char *tier) { (void) tier; return (uint64_t) n_plans * N_REST + (uint64_t) N_PLANS5 * N_REST5; }
size_t vprop_enum_stream (uint64_t i, uint32_t *out, size_t max)
{
  uint64_t rest = i % N_REST;
  (void) max;
  if (i >= (uint64_t) n_plans * N_REST) {
    uint64_t q = i - (uint64_t) n_plans * N_REST;
    rest = q % N_REST5;
    out[0] = (uint32_t) n_plans + (uint32_t) (q / N_REST5);
    out[1] = (rest % 2) ? 3 : 0; rest /= 2;
    out[2] = (uint32_t) (rest % 2); rest /= 2;
    out[3] = (uint32_t) (rest % 2); rest /= 2;
    out[4] = (uint32_t) (rest % 3); rest /= 3;
    out[5] = (uint32_t) (rest % 3);
    return 6;
  }
  out[0] = (uint32_t) (i / N_REST);
  out[1] = (uint32_t) (rest % 5); rest /= 5;
  out[2] = (uint32_t) (rest % 2); rest /= 2;
  out[3] = (uint32_t) (rest % 2); rest /= 2;
  out[4] = (uint32_t) (rest % 3); rest /= 3;
  out[5] = (uint32_t) (rest % 3);
  return 6;
}

static int backup_calls;
static void my_backup (OrcExecutor *ex) { backup_calls++; orc_executor_emulate (ex); }

static void add_var (ProgSpec *ps, int kind, int size, const char *name)
{
  PVar *v = &ps->vars[ps->nvars++];
  memset (v, 0, sizeof *v);
  v->kind = kind; v->size = size; v->res_b = v->res_c = -1; v->orcvar = -1;
  snprintf (v->name, sizeof v->name, "%s", name);
  ps->count[kind]++;
}
static void add_ins (ProgSpec *ps, const char *op, int d, int s0, int s1)
{
  PInsn *in = &ps->ins[ps->nins++];
  memset (in, 0, sizeof *in);
  in->op = v_op_find (op);
  in->d[0] = d; in->s[0] = s0; in->s[1] = s1;
}
/* 1 source, 1 destination, 15 byte temporaries: the variables just fit the 16 vector registers and mullb then needs a scratch one */
static void build_regs_program (ProgSpec *ps)
{
  int i;
  char nm[8];
  memset (ps, 0, sizeof *ps);
  snprintf (ps->name, sizeof ps->name, "regs");
  add_var (ps, VK_SRC, 1, "s1"); ps->vars[0].plain = 1;
  add_var (ps, VK_DEST, 1, "d1");
  for (i = 0; i < 15; i++) { snprintf (nm, sizeof nm, "t%d", i + 1); add_var (ps, VK_TEMP, 1, nm); }
  for (i = 0; i < 15; i++) add_ins (ps, "copyb", 2 + i, 0, 0);
  add_ins (ps, "mullb", 2, 2, 3);
  for (i = 1; i < 15; i++) add_ins (ps, "addb", 2, 2, 2 + i);
  add_ins (ps, "copyb", 1, 2, 0);
  ps->vars[1].wrote_mem = 1;
}

void vprop_case (VChoices *c, VResult *r)
{
  static ProgSpec ps;
  static RunCfg rc;
  static const char *orc_code_vals[5] = { NULL, "emulate", "backup", "debug", "backup,emulate" };
  int plan = (int) vc_pick (c, (uint32_t) (n_plans + N_PLANS5)), oc = (int) vc_pick (c, 5), with_backup = (int) vc_pick (c, 2);
  int code_only = (int) vc_pick (c, 2), prog = (int) vc_pick (c, 3), env = (int) vc_pick (c, 3);
  const char *scratch_root = v_arg ("scratch", "/verif/_work/scratch");
  char dir[400], msg[700], sig[V_SIG_MAX];
  const char *tname;
  OrcProgram *p, *pref;
  OrcCode *code = NULL;
  OrcCompileResult res;
  Arena a1, a2;
  OrcExecutor e1, e2;
  int k, injected_init, native, expect_backup_flag, fds_a = 0, fds_b = 0, run;

  plan_decode (plan, &plan_type, &plan_a, &plan_b);
  snprintf (dir, sizeof dir, "%s/c06-%d", scratch_root, (int) getpid ());
  mkdir (dir, 0700);
  if (env == 0) { setenv ("XDG_RUNTIME_DIR", dir, 1); setenv ("HOME", dir, 1); setenv ("TMPDIR", dir, 1); }
  else if (env == 1) { unsetenv ("XDG_RUNTIME_DIR"); unsetenv ("HOME"); unsetenv ("TMPDIR"); r->classes |= 1u << 17; }
  else { setenv ("XDG_RUNTIME_DIR", "/nonexistent/verif/dir", 1); setenv ("HOME", dir, 1); unsetenv ("TMPDIR"); r->classes |= 1u << 18; }
  if (orc_code_vals[oc]) setenv ("ORC_CODE", orc_code_vals[oc], 1); else unsetenv ("ORC_CODE");
  unsetenv ("ORC_DEBUG");
  v_desc (r, "# C06 plan=%s a=%d b=%d ORC_CODE=%s backup_function=%d executor=%s program=%s env=%s\n",
      plan_type == 0 ? "none" : plan_type == 1 ? "single" : plan_type == 2 ? "pair" : plan_type == 3 ? "kind(0 mkstemp,1 ftruncate,2 mmap)" : plan_type == 4 ? "from-k-on" :
      "from call a on every call of the kinds in mask b (1 mkstemp, 2 ftruncate, 4 exec file map, 8 write file map, 16 anonymous map)",
      plan_a, plan_b, orc_code_vals[oc] ? orc_code_vals[oc] : "(unset)", with_backup, code_only ? "code-only" : "attached",
      prog == 0 ? "addw (rules everywhere)" : prog == 1 ? "addd for mmx (no rule)" : "register exhaustion on avx",
      env == 0 ? "dirs=scratch" : env == 1 ? "dirs unset" : "XDG missing dir");
  r->classes |= 1u << plan_type;
  if (oc == 1 || oc == 4) r->classes |= 1u << 12;
  if (oc == 2 || oc == 4) r->classes |= 1u << 13;
  if (oc == 3) r->classes |= 1u << 14;

  /* 1. library start-up under the plan */
  v_stage (r, "orc_init under fault plan");
  armed = 1; call_index = 0;
  orc_init ();
  armed = 0;
  injected_init = n_injected;
  if (injected_init) r->classes |= 1u << 6;
  v_desc (r, "# orc_init made %d calls, %d failed by injection\n", n_calls_seen, n_injected);

  /* 2. program */
  if (prog == 0) { ps_single (v_op_find ("addw"), 0, &ps); tname = "sse"; }
  else if (prog == 1) { ps_single (v_op_find ("addd"), 0, &ps); tname = "mmx"; r->classes |= 1u << 15; }
  else { build_regs_program (&ps); tname = "avx"; r->classes |= 1u << 16; }
  p = ps_build (&ps);
  if (with_backup) orc_program_set_backup_function (p, my_backup);
  v_stage (r, "compile under fault plan");
  armed = 1;
  res = orc_program_compile_for_target (p, orc_target_get_by_name (tname));
  armed = 0;
  if (n_injected > injected_init) r->classes |= 1u << 7;
  v_desc (r, "# compile for %s -> %s; calls so far %d, injected %d\n", tname, v_result_name (res), n_calls_seen, n_injected);
  if (ORC_COMPILE_RESULT_IS_FATAL (res)) { v_fail (r, "fatal-result", "a valid program got the fatal result %s under the fault plan", v_result_name (res)); goto cleanup; }
  native = ORC_COMPILE_RESULT_IS_SUCCESSFUL (res);
  if (native) r->classes |= 1u << 8; else r->classes |= 1u << 9;
  expect_backup_flag = with_backup && (oc == 2 || oc == 4);

  /* reference: a separate object that is only emulated */
  pref = ps_build (&ps);
  orc_program_compile_full (pref, NULL, 0);

  if (code_only) { code = orc_program_take_code (p); r->classes |= 1u << 11; }
  {
    RunOpts ro;
    uint32_t fixed[40];
    VChoices fc = { fixed, 40, 0 };
    for (k = 0; k < 40; k++) fixed[k] = (uint32_t) v_mix64 ((uint64_t) plan * 131 + (uint64_t) k);
    memset (&ro, 0, sizeof ro);
    ro.n_max = 60; ro.m_max = 2; ro.placement_mask = 1;
    rc_generate (&fc, &ps, &ro, &rc);
  }
  for (run = 0; run < 2 && r->verdict != V_FAIL; run++) {
    int before = backup_calls;
    if (arena_build (&a1, &ps, &rc, 0) || arena_build (&a2, &ps, &rc, 0)) break;
    exec_setup (&e1, code_only ? NULL : p, code, &ps, &rc, &a1);
    exec_setup (&e2, pref, NULL, &ps, &rc, &a2);
    v_stage (r, "orc_executor_run (%s, run %d)", code_only ? "code-only" : "attached", run);
    orc_executor_run (&e1);
    orc_executor_emulate (&e2);
    v_stage (r, "compare");
    if (arena_compare (&a1, &a2, &ps, &rc, &e1, &e2, msg, sizeof msg)) {
      snprintf (sig, sizeof sig, "wrong-result:%s", native ? "native" : "fallback");
      v_fail (r, sig, "orc_executor_run (%s) does not give the emulation result: %s", native ? "native code" : "fallback path", msg);
    } else if (prog == 0) {
      /* independent of the emulator: d1 = s1 + s2 on 16-bit elements */
      int i;
      const ArenaArr *d = &a1.a[ps.ins[0].d[0]], *s0 = &a1.a[ps.ins[0].s[0]], *s1 = &a1.a[ps.ins[0].s[1]];
      for (i = 0; i < rc.n; i++) {
        uint16_t x, y, z;
        memcpy (&x, s0->base + 2 * i, 2); memcpy (&y, s1->base + 2 * i, 2); memcpy (&z, d->base + 2 * i, 2);
        if ((uint16_t) (x + y) != z) { v_fail (r, "wrong-result:addw", "element %d: %u + %u gave %u", i, x, y, z); break; }
      }
    }
    if (r->verdict != V_FAIL && with_backup) {
      int calls = backup_calls - before;
      if (calls) r->classes |= 1u << 10;
      if (native && !expect_backup_flag && calls != 0) v_fail (r, "backup:called-although-native", "compile succeeded but the backup function was called %d time(s)", calls);
      else if (calls > 1) v_fail (r, "backup:not-once", "the backup function was called %d times in one run", calls);
      else if (expect_backup_flag && oc == 2 && calls != 1) v_fail (r, "backup:flag-ignored", "ORC_CODE=%s with a registered backup function: it was called %d times in one run", orc_code_vals[oc], calls);
    }
    arena_free (&a1); arena_free (&a2);
    r->sub_evals++;
  }
  if (code) orc_code_free (code);
  orc_program_free (pref);

  /* 3. descriptors: further compile/free rounds under the same plan */
  if (r->verdict != V_FAIL) {
    v_stage (r, "descriptor loop");
    for (k = 0; k < 45; k++) {
      OrcProgram *q = ps_build (&ps);
      armed = 1;
      orc_program_compile_for_target (q, orc_target_get_by_name (tname));
      armed = 0;
      orc_program_free (q);
      if (k == 4) fds_a = count_fds ();
    }
    fds_b = count_fds ();
    v_desc (r, "# open descriptors after 5 rounds: %d, after 45 rounds: %d\n", fds_a, fds_b);
    if (fds_b > fds_a) v_fail (r, "descriptor-leak", "open file descriptors grew from %d to %d over 40 compile/free rounds under the fault plan", fds_a, fds_b);
  }
  r->nontrivial = 1;
  r->sub_nontrivial = r->sub_evals;
  r->hash = ((uint64_t) plan << 20) ^ ((uint64_t) oc << 12) ^ ((uint64_t) with_backup << 10) ^ ((uint64_t) code_only << 8) ^ ((uint64_t) prog << 4) ^ (uint64_t) env;
cleanup:
  v_stage (r, "cleanup");
  orc_program_free (p);
  for (k = 0; k < n_created; k++) unlink (created[k]);
  rmdir (dir);
}
