/* C13 - bytecode round trip preserves the program.
 *
 * case = valid program (random well-typed, integer and float opcodes, all parameter classes, 2-D, fixed sizes,
 *        declared alignments, boundary values in the variable-length integer fields, long names)
 * oracle = p -> bc1 -> p2 -> bc2 :  bc2 == bc1 byte for byte; p2 equals p in every field the property lists;
 *          emulating p and p2 on the same inputs gives the same destination bytes and accumulators.
 */
#include "../engine/prog.h"
#include <stdlib.h>
#include <orc/orcbytecode.h>

const char *vprop_id = "C13";
int vprop_fork = 1;
int vprop_cpu_limit_s = 30;
const char *vprop_class_names[V_NCLASS] = {
  "const64", "float_param", "int64_param", "double_param", "two_d", "x2x4", "length_field_ge_255", "declared_align",
  "accumulator", "float_ops", "insns_ge_20", "fixed_n_fields", "long_name", "large_field_ge_65535", NULL
};

void vprop_init (int argc, char **argv) { (void) argc; (void) argv; orc_init (); }
uint64_t vprop_enum_count (const char *tier) { (void) tier; return 0; }
size_t vprop_enum_stream (uint64_t i, uint32_t *out, size_t max) { (void) i; (void) out; (void) max; return 0; }

static const int boundary_fields[] = { 1, 2, 16, 100, 253, 254, 255, 256, 257, 1000, 65533, 65534 };

static uint64_t trunc_to (uint64_t v, int size) { return size >= 8 ? v : (v & ((1ULL << (8 * size)) - 1)); }

static int compare_programs (OrcProgram *a, OrcProgram *b, char *msg, size_t max)
{
  int i, k;
#define FIELD(f) if (a->f != b->f) { snprintf (msg, max, "field %s: %d before, %d after the round trip", #f, (int) a->f, (int) b->f); return 1; }
  FIELD (is_2d); FIELD (constant_n); FIELD (n_multiple); FIELD (n_minimum); FIELD (n_maximum); FIELD (constant_m);
  FIELD (n_insns); FIELD (n_src_vars); FIELD (n_dest_vars); FIELD (n_param_vars); FIELD (n_const_vars); FIELD (n_temp_vars); FIELD (n_accum_vars);
#undef FIELD
  if ((a->name == NULL) != (b->name == NULL) || (a->name && strcmp (a->name, b->name))) {
    snprintf (msg, max, "program name changed: '%.40s' -> '%.40s'", a->name ? a->name : "(null)", b->name ? b->name : "(null)");
    return 1;
  }
  for (i = 0; i < ORC_N_VARIABLES; i++) {
    OrcVariable *va = &a->vars[i], *vb = &b->vars[i];
    if (va->size != vb->size) { snprintf (msg, max, "variable slot %d: size %d -> %d", i, va->size, vb->size); return 1; }
    if (va->size == 0) continue;
    if (va->vartype != vb->vartype) { snprintf (msg, max, "variable slot %d: class %d -> %d", i, va->vartype, vb->vartype); return 1; }
    if ((va->vartype == ORC_VAR_TYPE_SRC || va->vartype == ORC_VAR_TYPE_DEST) && va->alignment != vb->alignment) {
      snprintf (msg, max, "variable slot %d: alignment %d -> %d", i, va->alignment, vb->alignment); return 1;
    }
    if (va->vartype == ORC_VAR_TYPE_CONST && trunc_to ((uint64_t) va->value.i, va->size) != trunc_to ((uint64_t) vb->value.i, vb->size)) {
      snprintf (msg, max, "constant slot %d (size %d): value 0x%llx -> 0x%llx", i, va->size, (unsigned long long) va->value.i, (unsigned long long) vb->value.i); return 1;
    }
    if (va->vartype == ORC_VAR_TYPE_PARAM && va->param_type != vb->param_type) {
      snprintf (msg, max, "parameter slot %d: parameter class %d -> %d (0 int, 1 float, 2 int64, 3 double)", i, va->param_type, vb->param_type); return 1;
    }
  }
  for (i = 0; i < a->n_insns; i++) {
    OrcInstruction *ia = &a->insns[i], *ib = &b->insns[i];
    if (ia->opcode != ib->opcode) { snprintf (msg, max, "instruction %d: opcode %s -> %s", i, ia->opcode->name, ib->opcode ? ib->opcode->name : "?"); return 1; }
    if (ia->flags != ib->flags) { snprintf (msg, max, "instruction %d (%s): flags 0x%x -> 0x%x", i, ia->opcode->name, ia->flags, ib->flags); return 1; }
    for (k = 0; k < ORC_STATIC_OPCODE_N_DEST; k++)
      if (ia->opcode->dest_size[k] && ia->dest_args[k] != ib->dest_args[k]) { snprintf (msg, max, "instruction %d (%s): dest %d operand %d -> %d", i, ia->opcode->name, k, ia->dest_args[k], ib->dest_args[k]); return 1; }
    for (k = 0; k < ORC_STATIC_OPCODE_N_SRC; k++)
      if (ia->opcode->src_size[k] && ia->src_args[k] != ib->src_args[k]) { snprintf (msg, max, "instruction %d (%s): source %d operand %d -> %d", i, ia->opcode->name, k, ia->src_args[k], ib->src_args[k]); return 1; }
  }
  return 0;
}

void vprop_case (VChoices *c, VResult *r)
{
  static ProgSpec ps;
  static RunCfg rc;
  GenOpts go;
  RunOpts ro;
  OrcProgram *p, *p2;
  OrcBytecode *bc1, *bc2;
  char msg[1024];
  int i, big_field = 0, large = 0;
  uint32_t sel;

  gen_opts_default (&go);
  go.allow_float = (int) vc_pick (c, 2);
  go.max_insns = 60;
  ps_generate (c, &go, &ps, r);
  /* boundary encodings of the variable-length integer fields */
  sel = vc_pick (c, 8);
  if (sel >= 4 && !(ps.has_special_load && sel != 7)) {
    int v = boundary_fields[vc_pick (c, sizeof boundary_fields / sizeof boundary_fields[0])];
    if (sel == 7 && vc_chance (c, 1, 8)) { v = 65535 + (int) vc_pick (c, 70000); large = 1; }
    switch (sel) {
      case 4: ps.const_n = v; ps.n_mult = ps.n_min = ps.n_max = 0; break;
      case 5: ps.n_max = v; if (ps.n_min > v) ps.n_min = 0; break;
      case 6: ps.n_min = v; ps.n_max = 0; ps.const_n = 0; if (ps.n_mult) ps.n_min -= ps.n_min % ps.n_mult; if (!ps.n_min) ps.n_min = ps.n_mult; break;
      default: if (ps.is2d) ps.const_m = v; else if (!ps.has_special_load) ps.const_n = v, ps.n_mult = ps.n_min = ps.n_max = 0; break;
    }
    if (v >= 255) big_field = 1;
  }
  /* name lengths 0, 1, 254, 255, 256 ... */
  {
    static const int lens[] = { 5, 1, 30, 253, 254, 255, 256, 300 };
    int len = lens[vc_pick (c, 8)];
    if (len < (int) sizeof ps.name) { for (i = 0; i < len; i++) ps.name[i] = (char) ('a' + i % 26); ps.name[len] = 0; }
    else snprintf (ps.name, sizeof ps.name, "vprog");      /* long names are set on the OrcProgram below */
    ps_print (&ps, r);
    p = ps_build (&ps);
    if (len >= (int) sizeof ps.name) {
      char *nm = (char *) malloc ((size_t) len + 1);
      for (i = 0; i < len; i++) nm[i] = (char) ('a' + i % 26);
      nm[len] = 0;
      orc_program_set_name (p, nm);
      free (nm);
      v_desc (r, "# program name replaced by a %d character name\n", len);
      if (len >= 255) { big_field = 1; r->classes |= 1u << 12; }
    }
  }
  v_desc (r, "# C13 round trip\n");

  v_stage (r, large ? "encode large-field" : "encode");
  bc1 = orc_bytecode_from_program (p);
  v_stage (r, "decode");
  p2 = orc_program_new_from_static_bytecode (bc1->bytecode);
  v_stage (r, "re-encode");
  bc2 = orc_bytecode_from_program (p2);
  v_stage (r, "compare");
  if (bc1->length != bc2->length || memcmp (bc1->bytecode, bc2->bytecode, (size_t) bc1->length)) {
    int k = 0;
    while (k < bc1->length && k < bc2->length && bc1->bytecode[k] == bc2->bytecode[k]) k++;
    if (compare_programs (p, p2, msg, sizeof msg) == 0) snprintf (msg, sizeof msg, "(program fields compare equal)");
    v_fail (r, "reencode-differs", "serialising the reconstruction gives different bytes (length %d vs %d, first difference at byte %d); %s",
        bc1->length, bc2->length, k, msg);
  } else if (compare_programs (p, p2, msg, sizeof msg)) {
    v_fail (r, "field-differs", "reconstructed program differs: %s", msg);
  }
  if (r->verdict == V_FAIL && strstr (r->msg, "parameter class 3 -> 2")) snprintf (r->sig, V_SIG_MAX, "double-param-becomes-int64");

  /* behaviour: emulate both on the same inputs */
  if (r->verdict != V_FAIL) {
    OrcCompileResult r1 = orc_program_compile_full (p, NULL, 0), r2 = orc_program_compile_full (p2, NULL, 0);
    if (r1 != r2) v_fail (r, "compile-differs", "compile result %s before, %s after the round trip", v_result_name (r1), v_result_name (r2));
    else if (p->orccode && p2->orccode) {
      memset (&ro, 0, sizeof ro);
      ro.n_max = 70; ro.m_max = 3; ro.placement_mask = 1;
      for (i = 0; i < 3 && r->verdict != V_FAIL; i++) {
        Arena a1, a2;
        OrcExecutor e1, e2;
        rc_generate (c, &ps, &ro, &rc);
        if (!ps.const_n && rc.n > 2000) rc.n = 2000;
        /* boundary values in the n/m fields make huge runs: the behavioural comparison is bounded */
        if ((double) rc.n * (double) (rc.m > 0 ? rc.m : 1) * (double) ps.nins > 3e6) break;
        if (arena_build (&a1, &ps, &rc, 0) || arena_build (&a2, &ps, &rc, 0)) { arena_free (&a1); arena_free (&a2); break; }
        exec_setup (&e1, p, NULL, &ps, &rc, &a1);
        exec_setup (&e2, p2, NULL, &ps, &rc, &a2);
        v_stage (r, "emulate original");
        orc_executor_emulate (&e1);
        v_stage (r, "emulate reconstruction");
        orc_executor_emulate (&e2);
        if (arena_compare (&a2, &a1, &ps, &rc, &e2, &e1, msg, sizeof msg)) {
          v_fail (r, "behaviour-differs", "reconstructed program computes something else: %s", msg);
          rc_print (&ps, &rc, r);
        }
        r->sub_evals++;
        arena_free (&a1); arena_free (&a2);
      }
    }
  }
  r->hash = v_hash_bytes (ps_hash (&ps), bc1->bytecode, (size_t) bc1->length);
  orc_bytecode_free (bc1); orc_bytecode_free (bc2);
  orc_program_free (p); orc_program_free (p2);

  for (i = 0; i < ps.nvars; i++) {
    const PVar *v = &ps.vars[i];
    if (v->kind == VK_CONST && v->size == 8) r->classes |= 1u << 0;
    if (v->kind == VK_PARAM && v->ptype == PT_FLOAT) r->classes |= 1u << 1;
    if (v->kind == VK_PARAM && v->ptype == PT_INT64) r->classes |= 1u << 2;
    if (v->kind == VK_PARAM && v->ptype == PT_DOUBLE) r->classes |= 1u << 3;
    if ((v->kind == VK_SRC || v->kind == VK_DEST) && v->align) r->classes |= 1u << 7;
  }
  if (ps.is2d) r->classes |= 1u << 4;
  if (ps.has_x) r->classes |= 1u << 5;
  if (big_field) r->classes |= 1u << 6;
  if (ps.has_acc) r->classes |= 1u << 8;
  if (ps.has_float) r->classes |= 1u << 9;
  if (ps.nins >= 20) r->classes |= 1u << 10;
  if (ps.const_n || ps.n_mult || ps.n_min || ps.n_max || ps.const_m) r->classes |= 1u << 11;
  if (large) r->classes |= 1u << 13;
  r->nontrivial = ps.nins >= 1 && (r->classes & 0x7f) != 0;
}
