/* C14 - grammar-based half: near-valid .orc files with structured mutations, judged by the same oracle
 * as the libFuzzer target (c14_check_text in props/c14_parse_fuzz.c, which aborts on an oracle failure;
 * the driver turns the abort of the forked child into a falsified case). */
#include "../engine/prog.h"
#include <stdlib.h>

int c14_check_text (const char *text);
extern int c14_last_n_errors;

const char *vprop_id = "C14";
int vprop_fork = 1;
int vprop_cpu_limit_s = 30;
const char *vprop_class_names[V_NCLASS] = {
  "unmutated", "token_deleted", "token_duplicated", "directive_before_function", "many_tokens", "over_100_insns",
  "over_limit_vars", "unknown_opcode", "bad_number", "no_final_newline", "crlf", "long_line", "line_deleted", "two_functions",
  "garbage_bytes", "exact_single_bad_line", NULL
};

void vprop_init (int argc, char **argv) { (void) argc; (void) argv; orc_init (); }
uint64_t vprop_enum_count (const char *tier) { (void) tier; return 0; }
size_t vprop_enum_stream (uint64_t i, uint32_t *out, size_t max) { (void) i; (void) out; (void) max; return 0; }

#define MAXL 600
#define TXT (1 << 18)
static char *lines[MAXL];
static int nlines;

static void split_lines (char *text)
{
  char *p = text;
  nlines = 0;
  while (*p && nlines < MAXL - 200) {
    char *e = strchr (p, '\n');
    lines[nlines++] = p;
    if (!e) break;
    *e = 0;
    p = e + 1;
  }
}

static void insert_line (int at, char *l)
{
  int k;
  if (nlines >= MAXL - 1) return;
  if (at > nlines) at = nlines;
  for (k = nlines; k > at; k--) lines[k] = lines[k - 1];
  lines[at] = l;
  nlines++;
}

void vprop_case (VChoices *c, VResult *r)
{
  static ProgSpec ps, ps2;
  static char text[TXT], out[TXT], scratch[64][4096];
  GenOpts go;
  int nmut, m, i, ns = 0, crlf = 0, final_nl = 1, expect_error = 0;
  size_t len = 0;

  gen_opts_default (&go);
  go.allow_float = 1;
  go.max_insns = 30;
  ps_generate (c, &go, &ps, r);
  snprintf (ps.name, sizeof ps.name, "f%u", vc_pick (c, 1000));
  len = (size_t) ps_sprint_orc (&ps, text, sizeof text / 2);
  if (vc_chance (c, 1, 4)) {
    ps_generate (c, &go, &ps2, r);
    snprintf (ps2.name, sizeof ps2.name, "g%u", vc_pick (c, 1000));
    len += (size_t) ps_sprint_orc (&ps2, text + len, sizeof text / 2 - len);
    r->classes |= 1u << 13;
  }
  split_lines (text);

  /* exact mode (one case in four): a well-formed file plus exactly ONE line that must be rejected without changing the parser's
     state, LF or CRLF endings, with or without a final newline: every error record must carry exactly that line's number */
  if (vc_pick (c, 4) == 0 && nlines > 0) {
    static const char *bad1[] = { "frobnicate d1, s1", ".frobnicate 1 2", "addbb d1, s1, s2", "x8 addb d1, s1, s2", "nosuchop",
      /* "bad numbers" in directives: a size, alignment or count that is not a number, is negative, or does not fit */
      ".source one zq1", ".temp -2 zq2", ".dest 2x zq3", ".accumulator 4.5 zq4", ".n mult banana", ".m zero",
      ".n 99999999999", ".param four zq6", ".const 0x zq7 1" };   /* (a bad alignment is reported too, but the variable is declared: it changes the state) */
    int at = 1 + (int) vc_pick (c, (uint32_t) nlines), k, want;
    int use_crlf = (int) vc_pick (c, 2), fnl = (int) vc_pick (c, 2);
    extern int c14_last_error_lines[8];
    insert_line (at, (char *) bad1[vc_pick (c, 14)]);
    want = at + 1;
    len = 0;
    for (i = 0; i < nlines && len + 4200 < sizeof out; i++)
      len += (size_t) snprintf (out + len, sizeof out - len, "%s%s", lines[i], (i == nlines - 1 && !fnl) ? "" : use_crlf ? "\r\n" : "\n");
    out[len] = 0;
    v_desc (r, "%.*s", V_DESC_MAX - 300, out);
    v_desc (r, "\n# exact mode: line %d is the only bad line (%s, %s final newline)\n", want, use_crlf ? "CRLF" : "LF", fnl ? "with" : "no");
    r->classes |= 1u << 15;
    if (!fnl) r->classes |= 1u << 9;
    if (use_crlf) r->classes |= 1u << 10;
    r->hash = v_hash_bytes (0x15, out, len);
    r->nontrivial = 1;
    v_stage (r, "parse (exact line oracle)");
    c14_check_text (out);
    if (c14_last_n_errors == 0) { v_fail (r, "exact:not-reported", "line %d cannot be parsed but no error record was returned", want); return; }
    for (k = 0; k < c14_last_n_errors && k < 8; k++)
      if (c14_last_error_lines[k] != want) {
        v_fail (r, "exact:wrong-line-number", "the only bad line is line %d but error record %d carries line number %d", want, k, c14_last_error_lines[k]);
        return;
      }
    return;
  }

  nmut = (int) vc_pick (c, 5);
  if (nmut == 0) r->classes |= 1u << 0;
  for (m = 0; m < nmut && ns < 60; m++) {
    uint32_t kind = vc_pick (c, 14);
    int li = nlines ? (int) vc_pick (c, (uint32_t) nlines) : 0;
    char *s = scratch[ns];
    if (!nlines) break;
    switch (kind) {
      case 0: {          /* delete a token */
        char *l = lines[li], *sp = strchr (l, ' ');
        if (sp) { char *e = strchr (sp + 1, ' '); snprintf (s, 4096, "%.*s%s", (int) (sp - l), l, e ? e : ""); lines[li] = s; ns++; r->classes |= 1u << 1; }
        break;
      }
      case 1: {          /* duplicate a token */
        char *l = lines[li], *sp = strrchr (l, ' ');
        if (sp) { snprintf (s, 4096, "%s,%s", l, sp); lines[li] = s; ns++; r->classes |= 1u << 2; }
        break;
      }
      case 2: {          /* a directive / an opcode before any .function */
        static const char *early[] = { ".source 1 s1", ".dest 2 d1", ".temp 4 t1", ".const 4 c1 7", ".param 4 p1", ".n 16", ".m 3",
          ".flags 2d", ".accumulator 4 a1", "addb d1, s1, s2", "x4 addb d1, s1, 3", ".floatparam 4 p1", ".backup foo", ".init bar" };
        snprintf (s, 4096, "%s", early[vc_pick (c, 14)]);
        insert_line (0, s); ns++; r->classes |= 1u << 3;
        break;
      }
      case 3: {          /* a line with many tokens */
        int nt = 1 + (int) vc_pick (c, 200), k, pos = 0;
        if (nt >= 16) expect_error = 1;
        static const char *heads[] = { ".source", ".dest", ".const", ".function", "addw", "x2", ".flags", ".n", ".param", "mergebw" };
        pos += snprintf (s + pos, 4096 - (size_t) pos, "%s", heads[vc_pick (c, 10)]);
        for (k = 0; k < nt && pos < 3900; k++) pos += snprintf (s + pos, 4096 - (size_t) pos, "%st%d", k % 3 ? ", " : " ", k % 17);
        insert_line (li + 1, s); ns++; r->classes |= 1u << 4;
        break;
      }
      case 4: {          /* more than 100 instructions */
        int extra = 100 + (int) vc_pick (c, 60), k;
        expect_error = 1;
        for (k = 0; k < extra && nlines < MAXL - 2; k++) insert_line (nlines, (char *) "copyb d1, s1");
        r->classes |= 1u << 5;
        break;
      }
      case 5: {          /* more variables of one class than a program can hold */
        static const char *decl[] = { ".source 1 xs%d", ".dest 1 xd%d", ".temp 2 xt%d", ".const 4 xc%d %d", ".param 4 xp%d", ".accumulator 4 xa%d" };
        int which = (int) vc_pick (c, 6), cnt = 17 + (int) vc_pick (c, 12), k;
        expect_error = 1;
        for (k = 0; k < cnt && ns < 62 && nlines < MAXL - 2; k++) {
          snprintf (scratch[ns], 4096, decl[which], k, k + 100);
          insert_line (1, scratch[ns]); ns++;
        }
        r->classes |= 1u << 6;
        break;
      }
      case 6: {          /* unknown opcode / directive */
        static const char *bad[] = { "frobnicate d1, s1", ".frobnicate 1 2", "addbb d1, s1, s2", "x8 addb d1, s1, s2", "x2", "x4", ".", ",", ".function", ".source", ".const 4", ".n", ".m" };
        snprintf (s, 4096, "%s", bad[vc_pick (c, 13)]);
        insert_line (li + 1, s); ns++; r->classes |= 1u << 7;
        break;
      }
      case 7: {          /* bad numbers */
        static const char *bad[] = { "addw t1, s1, 1/", "addw t1, s1, 0x", "addw t1, s1, 1e", "addw t1, s1, -", "addw t1, s1, +", "addw t1, s1, 99999999999999999999999",
          ".const 4 k1 zz", ".const 4 k2 0xg", ".const 8 k3 1.5e400L", ".n mult x", ".source x s9", ".dest -1 d9", ".temp 0 t9", ".source 3 s9", ".source 1 s9 align x", ".n 999999999999", ".m -4" };
        snprintf (s, 4096, "%s", bad[vc_pick (c, 17)]);
        insert_line (li + 1, s); ns++; r->classes |= 1u << 8;
        break;
      }
      case 8: final_nl = 0; r->classes |= 1u << 9; break;
      case 9: crlf = 1 + (int) vc_pick (c, 3); r->classes |= 1u << 10; break;
      case 10: {         /* very long line */
        int n = 1000 + (int) vc_pick (c, 3000), k;
        for (k = 0; k < n && k < 4090; k++) s[k] = (char) ("ab ,.x1#\t"[vc_pick (c, 9)]);
        s[k] = 0;
        insert_line (li + 1, s); ns++; r->classes |= 1u << 11;
        break;
      }
      case 11: {         /* delete a line */
        int k;
        for (k = li; k + 1 < nlines; k++) lines[k] = lines[k + 1];
        nlines--; r->classes |= 1u << 12;
        break;
      }
      case 12: {         /* high bytes / control characters */
        int n = 1 + (int) vc_pick (c, 40), k;
        for (k = 0; k < n; k++) { uint32_t b = 1 + vc_pick (c, 255); s[k] = (char) b; }
        s[k] = 0;
        insert_line (li + 1, s); ns++; r->classes |= 1u << 14;
        break;
      }
      default: break;
    }
  }
  len = 0;
  for (i = 0; i < nlines && len + 4200 < sizeof out; i++) {
    const char *eol = "\n";
    if (crlf == 1) eol = "\r\n"; else if (crlf == 2) eol = (i & 1) ? "\r\n" : "\n"; else if (crlf == 3) eol = (i % 3 == 0) ? "\r" : "\r\n";
    if (i == nlines - 1 && !final_nl) eol = "";
    len += (size_t) snprintf (out + len, sizeof out - len, "%s%s", lines[i], eol);
  }
  out[len] = 0;
  {
    size_t k;
    /* the C API takes a string: a NUL cannot occur; newlines inside scratch lines are fine */
    for (k = 0; k < len; k++) if (out[k] == 0) out[k] = ' ';
  }
  v_desc (r, "%.*s", V_DESC_MAX - 200, out);
  v_desc (r, "\n# mutations=%d classes=0x%x expect_error=%d lines=%d bytes=%zu\n", nmut, r->classes, expect_error, nlines, len);
  r->hash = v_hash_bytes (0x14, out, len);
  r->nontrivial = 1;
  v_stage (r, "parse+compile+free (oracle in c14_check_text)");
  c14_check_text (out);
  /* a later deletion may have removed the offending line again */
  if (r->classes & ((1u << 12) | (1u << 1))) expect_error = 0;
  /* a lone CR is not a line end for the parser: the following line becomes extra tokens of this one, so declarations can vanish */
  if (crlf == 3) expect_error = 0;
  if (expect_error && c14_last_n_errors == 0)
    v_fail (r, "limit-not-reported", "a file that exceeds a limit (instructions, variables of one class, tokens per line) parsed without any error record");
}
