/* C11 / C12 - emitter half.
 *
 * case = program (one opcode in one form, or random well-typed) x x86 target x flag set
 *        (every subset of the target's feature bits, 32/64 bit, frame pointer, short jumps).
 * The harness compiles the program and appends the returned assembly listing and the emitted
 * machine code to the file given by --set out=<path>; tools/asmcheck.py is the oracle:
 *   C12: GNU as assembles the listing; both byte strings are disassembled by objdump and must be the
 *        same instruction sequence (mnemonic, registers, memory operands, immediates, branch targets).
 *   C11: GNU as must accept the listing under an .arch setting derived only from the flag set.
 * A crash or an abort of the compiler itself is a failure of this harness' case as well.
 */
#include "../engine/prog.h"
#include <stdlib.h>
#include <fcntl.h>
#include <unistd.h>

#ifndef VPROP_ID
#define VPROP_ID "C12"
#endif
const char *vprop_id = VPROP_ID;
int vprop_fork = 1;
int vprop_cpu_limit_s = 20;
const char *vprop_class_names[V_NCLASS] = {
  "target_avx", "target_sse", "target_mmx", "bits32", "frame_pointer", "short_jumps", "single_opcode",
  "random_program", "has_branch", "two_d", "x2x4", "float", "reduced_features", "compiled", "target_neon32", "target_mips", NULL
};

static const char *tnames[5] = { "avx", "sse", "mmx", "neon", "mips" };
static const char *rec_names[5] = { "avx", "sse", "mmx", "neon", "mips" };
static int cross;                 /* --set family=cross: the non-x86 back ends whose listings llvm-mc can assemble (C12 only) */
static int ops[256], n_ops;
static const char *outpath;

void vprop_init (int argc, char **argv)
{
  int i;
  (void) argc; (void) argv;
  orc_init ();
  for (i = 0; i < v_noptab; i++) {
    if (v_optab[i].flags & VOP_INVARIANT) continue;
    ops[n_ops++] = i;
  }
  outpath = v_arg ("out", NULL);
  cross = !strcmp (v_arg ("family", "x86"), "cross");
}

/* configuration index -> flags.  feature subsets:
 *  sse: 16 subsets of {SSE3,SSSE3,SSE4_1,SSE4_2} (SSE2 always)          x bits x fp x sj = 128
 *  avx: {AVX|AVX2, AVX only} x 4 subsets of {SSE4_1? no: SSSE3..} kept full              x 8 = 16
 *  mmx: 8 subsets of {MMXEXT,SSSE3,SSE4_1} (MMX always)                  x 8  = 64 */
static int n_cfg (int t) { return t >= 3 ? 1 : t == 1 ? 128 : t == 0 ? 16 : 128; }

static unsigned cfg_flags (int t, int cfg, int *bits32, int *fp, int *sj, int *reduced)
{
  unsigned f = 0;
  int feat = cfg >> 3;
  if (t >= 3) {
    *fp = *sj = *reduced = 0;
    *bits32 = 1;
    if (t == 3) return ORC_TARGET_NEON_NEON;        /* 32-bit NEON; the 64-bit listings are outside the property's quantifier */
    return orc_target_get_default_flags (orc_target_get_by_name ("mips"));
  }
  *bits32 = cfg & 1; *fp = (cfg >> 1) & 1; *sj = (cfg >> 2) & 1;
  if (t == 1) {
    f = ORC_TARGET_SSE_SSE2;
    if (feat & 1) f |= ORC_TARGET_SSE_SSE3;
    if (feat & 2) f |= ORC_TARGET_SSE_SSSE3;
    if (feat & 4) f |= ORC_TARGET_SSE_SSE4_1;
    if (feat & 8) f |= ORC_TARGET_SSE_SSE4_2;
    *reduced = feat != 15;
    if (!*bits32) f |= ORC_TARGET_SSE_64BIT;
    if (*fp) f |= ORC_TARGET_SSE_FRAME_POINTER;
    if (*sj) f |= ORC_TARGET_SSE_SHORT_JUMPS;
  } else if (t == 0) {
    f = ORC_TARGET_SSE_SSE2 | ORC_TARGET_SSE_SSE3 | ORC_TARGET_SSE_SSSE3 | ORC_TARGET_SSE_SSE4_1 | ORC_TARGET_SSE_SSE4_2 |
        ORC_TARGET_AVX_AVX;
    if (!(feat & 1)) f |= ORC_TARGET_AVX_AVX2;
    *reduced = feat & 1;
    if (!*bits32) f |= ORC_TARGET_SSE_64BIT;
    if (*fp) f |= ORC_TARGET_SSE_FRAME_POINTER;
    if (*sj) f |= ORC_TARGET_SSE_SHORT_JUMPS;
  } else {
    f = ORC_TARGET_MMX_MMX;
    if (feat & 1) f |= ORC_TARGET_MMX_MMXEXT;
    if (feat & 2) f |= ORC_TARGET_MMX_SSSE3;
    if (feat & 4) f |= ORC_TARGET_MMX_SSE4_1;
    if (feat & 8) f |= ORC_TARGET_MMX_SSE4_2;
    *reduced = feat != 15;
    if (!*bits32) f |= ORC_TARGET_MMX_64BIT;
    if (*fp) f |= ORC_TARGET_MMX_FRAME_POINTER;
    if (*sj) f |= ORC_TARGET_MMX_SHORT_JUMPS;
  }
  return f;
}

/* enumeration: (opcode, form) x target x cfg.  quick tier: 64-bit, all feature subsets, fp/sj off, plus
 * for every form one 32-bit/fp/sj variant chosen by a hash; thorough: everything */
static uint64_t enum_prefix[260];
static int enum_thorough;
static const int quick_cfgs_per_target[3] = { 2 + 1, 16 + 2, 16 + 2 };

static int quick_cfg (int t, int k, uint64_t salt)
{
  int nfeat = t == 1 ? 16 : t == 0 ? 2 : 16;
  if (k < nfeat) return k << 3;                         /* 64-bit, no fp, no sj, feature subset k */
  /* extra variants with 32-bit / frame pointer / short jumps */
  {
    uint64_t h = v_mix64 (salt * 31 + (uint64_t) k);
    int feat = (int) (h % (uint64_t) nfeat);
    int low = 1 + (int) ((h >> 8) % 7);
    return (feat << 3) | low;
  }
}

uint64_t vprop_enum_count (const char *tier)
{
  int i;
  uint64_t tot = 0, per;
  enum_thorough = !strcmp (tier, "thorough");
  if (cross) {
    for (i = 0; i < n_ops; i++) { enum_prefix[i] = tot; tot += (uint64_t) ps_single_forms (&v_optab[ops[i]]) * 2; }
    enum_prefix[n_ops] = tot;
    return tot;
  }
  per = enum_thorough ? (uint64_t) (n_cfg (0) + n_cfg (1) + n_cfg (2))
                      : (uint64_t) (quick_cfgs_per_target[0] + quick_cfgs_per_target[1] + quick_cfgs_per_target[2]);
  for (i = 0; i < n_ops; i++) {
    enum_prefix[i] = tot;
    tot += (uint64_t) ps_single_forms (&v_optab[ops[i]]) * per;
  }
  enum_prefix[n_ops] = tot;
  return tot;
}

size_t vprop_enum_stream (uint64_t idx, uint32_t *out, size_t max)
{
  int i = 0, t, cfg;
  uint64_t rel, per, form, k;
  size_t n = 0;
  (void) max;
  if (!enum_prefix[n_ops]) vprop_enum_count (v_arg ("tier", "quick"));
  per = enum_thorough ? (uint64_t) (n_cfg (0) + n_cfg (1) + n_cfg (2))
                      : (uint64_t) (quick_cfgs_per_target[0] + quick_cfgs_per_target[1] + quick_cfgs_per_target[2]);
  while (i + 1 < n_ops && enum_prefix[i + 1] <= idx) i++;
  rel = idx - enum_prefix[i];
  if (cross) { out[n++] = 1; out[n++] = (uint32_t) i; out[n++] = (uint32_t) (rel / 2); out[n++] = (uint32_t) (rel % 2); out[n++] = 0; return n; }
  form = rel / per; k = rel % per;
  if (enum_thorough) {
    if (k < (uint64_t) n_cfg (0)) { t = 0; cfg = (int) k; }
    else if (k < (uint64_t) (n_cfg (0) + n_cfg (1))) { t = 1; cfg = (int) k - n_cfg (0); }
    else { t = 2; cfg = (int) k - n_cfg (0) - n_cfg (1); }
  } else {
    if (k < (uint64_t) quick_cfgs_per_target[0]) { t = 0; cfg = quick_cfg (0, (int) k, idx); }
    else if (k < (uint64_t) (quick_cfgs_per_target[0] + quick_cfgs_per_target[1])) { t = 1; cfg = quick_cfg (1, (int) k - quick_cfgs_per_target[0], idx); }
    else { t = 2; cfg = quick_cfg (2, (int) k - quick_cfgs_per_target[0] - quick_cfgs_per_target[1], idx); }
  }
  out[n++] = 1;
  out[n++] = (uint32_t) i;
  out[n++] = (uint32_t) form;
  out[n++] = (uint32_t) t;
  out[n++] = (uint32_t) cfg;
  return n;
}

static void emit_record (VResult *r, VChoices *c, const ProgSpec *ps, int t, unsigned flags, int bits32,
    OrcProgram *p, OrcCompileResult res)
{
  size_t cap, len = 0, i;
  char *buf;
  const char *asm_code = p->asm_code ? p->asm_code : "";
  int code_size = p->orccode ? p->orccode->code_size : 0;
  int fd;
  (void) r;
  if (!outpath) return;
  cap = strlen (asm_code) + (size_t) code_size * 2 + c->n * 11 + 8192;
  buf = (char *) malloc (cap);
  len += (size_t) snprintf (buf + len, cap - len, "@@case target=%s flags=0x%x bits=%d result=%s name=%s hash=%016llx\n@@stream",
      rec_names[t], flags, bits32 ? 32 : 64, v_result_name (res), ps->name, (unsigned long long) ps_hash (ps));
  for (i = 0; i < c->n; i++) len += (size_t) snprintf (buf + len, cap - len, " %u", c->v[i]);
  len += (size_t) snprintf (buf + len, cap - len, "\n@@prog\n");
  len += (size_t) ps_sprint_orc (ps, buf + len, cap - len);
  len += (size_t) snprintf (buf + len, cap - len, "@@asm\n%s\n@@code ", asm_code);
  for (i = 0; i < (size_t) code_size; i++) len += (size_t) snprintf (buf + len, cap - len, "%02x", p->orccode->code[i]);
  len += (size_t) snprintf (buf + len, cap - len, "\n@@end\n");
  fd = open (outpath, O_WRONLY | O_CREAT | O_APPEND, 0644);
  if (fd >= 0) {
    size_t off = 0;
    while (off < len) { ssize_t k = write (fd, buf + off, len - off); if (k <= 0) break; off += (size_t) k; }
    close (fd);
  }
  free (buf);
}

void vprop_case (VChoices *c, VResult *r)
{
  static ProgSpec ps;
  GenOpts go;
  OrcProgram *p;
  OrcTarget *target;
  OrcCompileResult res;
  int single, t, cfg, bits32, fp, sj, reduced;
  unsigned flags;
  uint64_t h;

  gen_opts_default (&go);
  go.allow_float = 1;
  single = vc_pick (c, 2) == 1;
  if (single) {
    go.single_opcode = ops[vc_pick (c, (uint32_t) n_ops)];
    go.single_form = (int) vc_pick (c, (uint32_t) ps_single_forms (&v_optab[go.single_opcode]));
  }
  t = cross ? 3 + (int) vc_pick (c, 2) : (int) vc_pick (c, 3);
  cfg = (int) vc_pick (c, (uint32_t) n_cfg (t));
  ps_generate (c, &go, &ps, r);
  target = orc_target_get_by_name (tnames[t]);
  flags = cfg_flags (t, cfg, &bits32, &fp, &sj, &reduced);

  v_desc (r, "# %s target=%s flags=0x%x bits=%d %s\n", vprop_id, rec_names[t], flags, bits32 ? 32 : 64,
      single ? "single-opcode" : "random-program");
  ps_print (&ps, r);
  h = ps_hash (&ps);
  h = v_hash_bytes (h, &t, sizeof t);
  h = v_hash_bytes (h, &flags, sizeof flags);
  r->hash = h;

  v_stage (r, "compile target=%s flags=0x%x", tnames[t], flags);
  p = ps_build (&ps);
  res = orc_program_compile_full (p, target, flags);
  v_desc (r, "# compile result: %s code_size=%d\n", v_result_name (res), p->orccode ? p->orccode->code_size : 0);
  r->classes |= t < 3 ? 1u << t : 1u << (11 + t);
  if (bits32) r->classes |= 1u << 3;
  if (fp) r->classes |= 1u << 4;
  if (sj) r->classes |= 1u << 5;
  r->classes |= single ? 1u << 6 : 1u << 7;
  if (ps.is2d) r->classes |= 1u << 9;
  if (ps.has_x) r->classes |= 1u << 10;
  if (ps.has_float) r->classes |= 1u << 11;
  if (reduced) r->classes |= 1u << 12;
  if (ORC_COMPILE_RESULT_IS_SUCCESSFUL (res) && p->asm_code && p->orccode && p->orccode->code_size > 0) {
    r->classes |= 1u << 13;
    if (strstr (p->asm_code, "\n  j")) r->classes |= 1u << 8;
    r->nontrivial = 1;
    v_stage (r, "emit");
    emit_record (r, c, &ps, t, flags, bits32, p, res);
  } else {
    r->verdict = V_DISCARD;
  }
  orc_program_free (p);
}
