/* C14 - the .orc parser is total.  libFuzzer target (byte level) with the semantic oracle inside.
 *
 * input  = arbitrary bytes (NULs removed: the API takes a C string)
 * oracle = orc_parse_code returns; result is -1 iff error records exist; every record has non-NULL
 *          source/text and 1 <= line_number <= number of lines; an error-free parse returns exactly one
 *          program per `.function` line; every returned program can be compiled (default target and no
 *          target) and freed; the error array can be released; all under ASan + UBSan.
 * The same function is called by props/c14_grammar.c (rapidcheck grammar mutations) through c14_check_text().
 */
#include <orc/orc.h>
#include <orc/orcparse.h>
#include <stdint.h>
#include <stdio.h>
#include <stdlib.h>
#include <string.h>

static unsigned long long n_exec, n_nontrivial, n_with_errors, n_with_programs, n_clean;
static unsigned char *seen_bits;            /* 2^22-bit table of input hashes that were non-trivial */
static unsigned long long n_distinct;
static char samples[6][400];
static int n_samples;
static char last_problem[512];
int c14_last_n_errors;
int c14_last_error_lines[8];

static uint64_t h64 (const unsigned char *p, size_t n)
{
  uint64_t h = 0xcbf29ce484222325ULL;
  size_t i;
  for (i = 0; i < n; i++) { h ^= p[i]; h *= 0x100000001b3ULL; }
  h ^= h >> 29; h *= 0xbf58476d1ce4e5b9ULL; h ^= h >> 32;
  return h;
}

static void dump_stats (void)
{
  const char *path = getenv ("VERIF_FUZZ_STATS");
  FILE *f;
  int i;
  size_t k;
  if (!path) return;
  f = fopen (path, "w");
  if (!f) return;
  fprintf (f, "{\"executions\": %llu, \"nontrivial\": %llu, \"distinct_nontrivial\": %llu, \"with_errors\": %llu, \"with_programs\": %llu, "
      "\"error_free_with_programs\": %llu, \"problem\": \"", n_exec, n_nontrivial, n_distinct, n_with_errors, n_with_programs, n_clean);
  for (k = 0; last_problem[k]; k++) { unsigned char ch = (unsigned char) last_problem[k]; if (ch == '"' || ch == '\\' || ch < 0x20 || ch > 0x7e) fputc ('?', f); else fputc (ch, f); }
  fprintf (f, "\", \"samples\": [");
  for (i = 0; i < n_samples; i++) {
    fprintf (f, "%s\"", i ? ", " : "");
    for (k = 0; samples[i][k]; k++) {
      unsigned char ch = (unsigned char) samples[i][k];
      if (ch == '"' || ch == '\\') fprintf (f, "\\%c", ch);
      else if (ch == '\n') fprintf (f, "\\n");
      else if (ch < 0x20 || ch > 0x7e) fprintf (f, "\\u%04x", ch);
      else fputc (ch, f);
    }
    fprintf (f, "\"");
  }
  fprintf (f, "]}\n");
  fclose (f);
}

static void problem (const char *text, const char *fmt, long a, long b)
{
  snprintf (last_problem, sizeof last_problem, fmt, a, b);
  fprintf (stderr, "C14 ORACLE FAILURE: %s\n--- input ---\n%s\n-------------\n", last_problem, text);
  dump_stats ();
  abort ();
}

/* returns number of programs; aborts on an oracle failure */
int c14_check_text (const char *text);
int c14_check_text (const char *text)
{
  OrcProgram **programs = NULL;
  OrcParseError **errors = NULL;
  int n_programs = -7, n_errors = -7, ret, i, n_lines = 1, n_functions = 0, insns = 0;
  const char *p;
  static int inited;
  if (!inited) { orc_init (); inited = 1; atexit (dump_stats); seen_bits = (unsigned char *) calloc (1u << 19, 1); }

  for (p = text; *p; p++) if (*p == '\n') n_lines++;
  for (p = text; *p;) {
    const char *q = p;
    while (*q == ' ' || *q == '\t') q++;
    if (!strncmp (q, ".function", 9) && (q[9] == ' ' || q[9] == '\t' || q[9] == 0 || q[9] == '\n' || q[9] == '\r' || q[9] == ',')) n_functions++;
    while (*p && *p != '\n') p++;
    if (*p) p++;
  }

  ret = orc_parse_code (text, &programs, &n_programs, &errors, &n_errors);
  n_exec++;
  if (n_programs < 0 || n_errors < 0) problem (text, "counts not set: n_programs=%ld n_errors=%ld", n_programs, n_errors);
  if ((ret == -1) != (n_errors > 0) || (ret != 0 && ret != -1)) problem (text, "return value %ld with %ld error records", ret, n_errors);
  for (i = 0; i < n_errors && i < 8; i++) c14_last_error_lines[i] = errors[i] ? errors[i]->line_number : -1;
  for (i = 0; i < n_errors; i++) {
    if (!errors[i]) problem (text, "error record %ld is NULL (of %ld)", i, n_errors);
    if (!errors[i]->source || !errors[i]->text) problem (text, "error record %ld has a NULL source/text", i, 0);
    if (errors[i]->line_number < 1 || errors[i]->line_number > n_lines)
      problem (text, "error record line number %ld outside 1..%ld", errors[i]->line_number, n_lines);
    (void) strlen (errors[i]->source); (void) strlen (errors[i]->text);
  }
  if (n_errors == 0 && n_programs != n_functions)
    problem (text, "error-free parse returned %ld programs for %ld .function lines", n_programs, n_functions);
  for (i = 0; i < n_programs; i++) {
    if (!programs[i]) problem (text, "program %ld is NULL", i, 0);
    insns += programs[i]->n_insns;
    if (programs[i]->n_insns < 0 || programs[i]->n_insns > ORC_N_INSNS) problem (text, "program %ld has %ld instructions", i, programs[i]->n_insns);
  }
  /* the results must be usable: compile with the default target and without target, then free */
  for (i = 0; i < n_programs; i++) {
    (void) orc_program_compile (programs[i]);
    (void) orc_program_compile_full (programs[i], NULL, 0);
  }
  c14_last_n_errors = n_errors;
  if (n_errors > 0) n_with_errors++;
  if (n_programs > 0) n_with_programs++;
  if (n_errors == 0 && n_programs > 0) n_clean++;
  if ((n_programs > 0 && insns > 0) || n_errors > 0) {
    uint64_t h = h64 ((const unsigned char *) text, strlen (text));
    uint32_t bit = (uint32_t) (h & ((1u << 22) - 1));
    n_nontrivial++;
    if (!(seen_bits[bit >> 3] & (1u << (bit & 7)))) { seen_bits[bit >> 3] |= (unsigned char) (1u << (bit & 7)); n_distinct++; }
    if (n_samples < 6 && (n_nontrivial == 1 || (n_nontrivial & (n_nontrivial - 1)) == 0) && n_errors == 0) snprintf (samples[n_samples++], sizeof samples[0], "%s", text);
  }
  for (i = 0; i < n_programs; i++) orc_program_free (programs[i]);
  free (programs);
  orc_parse_error_freev (errors);
  return n_programs;
}

#ifndef C14_NO_FUZZ_ENTRY
int LLVMFuzzerTestOneInput (const uint8_t *data, size_t size);
int LLVMFuzzerTestOneInput (const uint8_t *data, size_t size)
{
  char *text = (char *) malloc (size + 1);
  size_t i, n = 0;
  for (i = 0; i < size; i++) if (data[i]) text[n++] = (char) data[i];
  text[n] = 0;
  c14_check_text (text);
  free (text);
  return 0;
}
#endif
