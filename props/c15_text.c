/* C15 - a program written as .orc text is the program built through the API.
 *
 * case = 1..3 generated programs (full generator) + formatting choices.  Each program is
 *   (a) built through the construction API (ps_build), and
 *   (b) rendered to .orc text by the printer below - independent of Orc - with randomised spacing, tabs, blank lines,
 *       comment lines, trailing comments, LF / CRLF / mixed line endings, number spellings (decimal, hex, octal, negative,
 *       float literal, L suffix), constants either declared with .const or written as literal operands, type names and
 *       alignments, .n/.m/.flags lines - and parsed back with orc_parse_code.
 * oracle: the parse is error free and returns one program per function, in order; each parsed program equals its API twin:
 *   name, 2-D flag, n/m settings, the variables of every class in declaration order (class, size, alignment, type name,
 *   parameter type), every constant's value truncated to its size, and instruction by instruction the opcode, the x2/x4
 *   flags and every operand resolved to the same variable (constants by value and size: the parser may share equal
 *   literals); and emulating both on identical arenas gives identical destination bytes and accumulators.
 */
#include "../engine/prog.h"
#include <stdlib.h>
#include <orc/orcparse.h>

const char *vprop_id = "C15";
int vprop_fork = 1;
int vprop_cpu_limit_s = 60;
const char *vprop_class_names[V_NCLASS] = {
  "crlf", "mixed_line_endings", "comments", "literal_operands", "float_literal", "hex_literal", "negative_literal", "L_suffix",
  "type_names", "alignment", "multi_function", "n_m_directives", "x2_x4", "tabs", "two_d", "octal_size", "number_like_or_keyword_like_names", "align_zero_means_default", NULL
};

void vprop_init (int argc, char **argv) { (void) argc; (void) argv; orc_init (); }
uint64_t vprop_enum_count (const char *tier) { (void) tier; return 0; }
size_t vprop_enum_stream (uint64_t i, uint32_t *out, size_t max) { (void) i; (void) out; (void) max; return 0; }

typedef struct { char *s; size_t n, cap; VChoices *c; VResult *r; int eol_mode; } Out;
static void oput (Out *o, const char *fmt, ...)
{
  va_list ap;
  char tmp[600];
  int k;
  va_start (ap, fmt);
  k = vsnprintf (tmp, sizeof tmp, fmt, ap);
  va_end (ap);
  if (k < 0) return;
  if (o->n + (size_t) k + 1 > o->cap) { o->cap = (o->cap + (size_t) k + 1) * 2; o->s = (char *) realloc (o->s, o->cap); }
  memcpy (o->s + o->n, tmp, (size_t) k + 1);
  o->n += (size_t) k;
}
/* blank between tokens: 1..3 spaces or tabs */
static void sp (Out *o)
{
  uint32_t k = vc_pick (o->c, 8);
  if (k < 5) oput (o, " ");
  else if (k == 5) oput (o, "  ");
  else if (k == 6) { oput (o, "\t"); o->r->classes |= 1u << 13; }
  else { oput (o, " \t "); o->r->classes |= 1u << 13; }
}
/* operand separator: comma with optional blanks around it */
static void comma (Out *o)
{
  uint32_t k = vc_pick (o->c, 6);
  if (k < 3) oput (o, ", ");
  else if (k == 3) oput (o, ",");
  else if (k == 4) oput (o, ",  ");       /* a blank BEFORE the comma is outside the grammar the documentation shows; not generated */
  else oput (o, ",\t");
}
static void eol (Out *o)
{
  uint32_t k = vc_pick (o->c, 10);
  if (k == 7) { oput (o, " # trailing comment, with a comma"); o->r->classes |= 1u << 2; }
  if (k == 8) oput (o, "  ");
  if (o->eol_mode == 1 || (o->eol_mode == 2 && vc_chance (o->c, 1, 2))) oput (o, "\r\n"); else oput (o, "\n");
  k = vc_pick (o->c, 12);
  if (k == 10) { oput (o, "%s", o->eol_mode == 1 ? "\r\n" : "\n"); }
  if (k == 11) { oput (o, "# a comment line .dest 4 zz%s", o->eol_mode == 1 ? "\r\n" : "\n"); o->r->classes |= 1u << 2; }
}
static void indent (Out *o)
{
  uint32_t k = vc_pick (o->c, 8);
  if (k == 6) oput (o, "  ");
  if (k == 7) oput (o, "\t");
}
static void num (Out *o, int v)
{
  uint32_t k = vc_pick (o->c, 8);
  if (k == 6) oput (o, "0x%x", v);
  else if (k == 7 && v < 8) { oput (o, "0%o", v); o->r->classes |= 1u << 15; }
  else oput (o, "%d", v);
}

/* spelling of a constant's value; size = size of the constant */
static void const_literal (Out *o, uint64_t cval, int size, int as_operand)
{
  uint32_t k = vc_pick (o->c, 10);
  uint64_t t = size >= 8 ? cval : (cval & ((1ULL << (8 * size)) - 1));
  if (size == 8) {
    double d;
    char buf[64];
    memcpy (&d, &t, 8);
    snprintf (buf, sizeof buf, "%.17g", d);
    if (k < 3 && d == d && d - d == 0 && strtod (buf, NULL) == d && (strchr (buf, '.') || strchr (buf, 'e')) && !(t >> 63 && d == 0)) {
      oput (o, "%sL", buf); o->r->classes |= (1u << 4) | (1u << 7); return;
    }
    o->r->classes |= 1u << 7;
    if (k < 6) { oput (o, "0x%llx%c", (unsigned long long) t, (k & 1) ? 'L' : 'l'); o->r->classes |= 1u << 5; }
    else if (k == 6 && (int64_t) t < 0 && t != 0x8000000000000000ULL) { oput (o, "-0x%llxL", (unsigned long long) (-(int64_t) t)); o->r->classes |= (1u << 5) | (1u << 6); }
    else if (k < 8 && (int64_t) t < 0) { oput (o, "%lldL", (long long) (int64_t) t); o->r->classes |= 1u << 6; }
    else if ((int64_t) t >= 0) oput (o, "%lluL", (unsigned long long) t);
    else oput (o, "0x%llXL", (unsigned long long) t);
    return;
  }
  if (size == 4) {
    float f;
    uint32_t b = (uint32_t) t;
    char buf[64];
    memcpy (&f, &b, 4);
    snprintf (buf, sizeof buf, "%.9g", (double) f);
    if (k < 3 && f == f && f - f == 0 && (float) strtod (buf, NULL) == f && (strchr (buf, '.') || strchr (buf, 'e')) && !(b >> 31 && f == 0)) {
      oput (o, "%s", buf); o->r->classes |= 1u << 4; return;
    }
  }
  (void) as_operand;
  {
    /* the signed reading of the same bits, for the spellings with a sign */
    int64_t sv = size == 1 ? (int8_t) t : size == 2 ? (int16_t) t : (int32_t) t;
    uint32_t style = vc_pick (o->c, 6);
    if (k < 4) { oput (o, (k & 1) ? "0x%llx" : "0x%llX", (unsigned long long) t); o->r->classes |= 1u << 5; }
    else if (k == 4) {                  /* signed hexadecimal: -0x10, +0x10 */
      if (sv < 0) oput (o, "-0x%llx", (unsigned long long) (-sv)); else oput (o, "+0x%llx", (unsigned long long) sv);
      o->r->classes |= (1u << 5) | (1u << 6);
    } else if (k < 8) {
      if (style == 0 && sv >= 0) oput (o, "+%lld", (long long) sv);                                   /* explicit plus sign */
      else if (style == 1 && sv > -512 && sv < 512) {                                                 /* octal, with or without sign */
        if (sv < 0) oput (o, "-0%llo", (unsigned long long) (-sv)); else oput (o, "0%llo", (unsigned long long) sv);
        o->r->classes |= 1u << 15;
      } else oput (o, "%lld", (long long) sv);
      if (sv < 0) o->r->classes |= 1u << 6;
    } else oput (o, "%llu", (unsigned long long) t);
  }
}

static const char *type_names[] = { "orc_uint8", "int16_t", "float", "gint32", "double", "orc_int64", "guint8" };

static void print_program (Out *o, const ProgSpec *ps, const int *inline_const)
{
  int i, j;
  indent (o); oput (o, ".function"); sp (o); oput (o, "%s", ps->name); eol (o);
  if (ps->is2d) { indent (o); oput (o, ".flags"); sp (o); oput (o, "2d"); eol (o); o->r->classes |= 1u << 14; }
  if (ps->const_n || ps->n_mult || ps->n_min || ps->n_max) {
    o->r->classes |= 1u << 11;
    if (vc_chance (o->c, 1, 2) && !ps->const_n) {
      /* one line with several settings */
      indent (o); oput (o, ".n");
      if (ps->n_mult) { sp (o); oput (o, "mult"); sp (o); num (o, ps->n_mult); }
      if (ps->n_min) { sp (o); oput (o, "min"); sp (o); num (o, ps->n_min); }
      if (ps->n_max) { sp (o); oput (o, "max"); sp (o); num (o, ps->n_max); }
      eol (o);
    } else {
      if (ps->const_n) { indent (o); oput (o, ".n"); sp (o); num (o, ps->const_n); eol (o); }
      if (ps->n_mult) { indent (o); oput (o, ".n"); sp (o); oput (o, "mult"); sp (o); num (o, ps->n_mult); eol (o); }
      if (ps->n_min) { indent (o); oput (o, ".n"); sp (o); oput (o, "min"); sp (o); num (o, ps->n_min); eol (o); }
      if (ps->n_max) { indent (o); oput (o, ".n"); sp (o); oput (o, "max"); sp (o); num (o, ps->n_max); eol (o); }
    }
  }
  if (ps->const_m) { indent (o); oput (o, ".m"); sp (o); num (o, ps->const_m); eol (o); o->r->classes |= 1u << 11; }
  for (i = 0; i < ps->nvars; i++) {
    const PVar *v = &ps->vars[i];
    if (v->kind == VK_CONST && inline_const[i]) continue;
    indent (o);
    switch (v->kind) {
      case VK_DEST: case VK_SRC:
        oput (o, v->kind == VK_DEST ? ".dest" : ".source"); sp (o); num (o, v->size); sp (o); oput (o, "%s", v->name);
        if (v->align) { sp (o); oput (o, "align"); sp (o); num (o, v->align); o->r->classes |= 1u << 9; }
        /* "align 0" asks for the default, like alignment 0 in orc_program_add_source_full (no choice is consumed) */
        else if (v_mix64 ((uint64_t) i * 77u + (uint64_t) ps->nins * 13u + (uint64_t) v->size) % 6 == 0) { sp (o); oput (o, "align"); sp (o); oput (o, "0"); o->r->classes |= 1u << 17; }
        if (v->type_name[0]) { sp (o); oput (o, "%s", v->type_name); o->r->classes |= 1u << 8; }
        break;
      case VK_ACC:
        oput (o, ".accumulator"); sp (o); num (o, v->size); sp (o); oput (o, "%s", v->name);
        if (v->type_name[0]) { sp (o); oput (o, "%s", v->type_name); o->r->classes |= 1u << 8; }
        break;
      case VK_CONST: oput (o, ".const"); sp (o); num (o, v->size); sp (o); oput (o, "%s", v->name); sp (o); const_literal (o, v->cval, v->size, 0); break;
      case VK_PARAM:
        oput (o, v->ptype == PT_FLOAT ? ".floatparam" : v->ptype == PT_INT64 ? ".longparam" : v->ptype == PT_DOUBLE ? ".doubleparam" : ".param");
        sp (o); num (o, v->size); sp (o); oput (o, "%s", v->name);
        break;
      default: oput (o, ".temp"); sp (o); num (o, v->size); sp (o); oput (o, "%s", v->name); break;
    }
    eol (o);
  }
  for (i = 0; i < ps->nins; i++) {
    const PInsn *in = &ps->ins[i];
    int first = 1, k;
    indent (o);
    if (in->flags & ORC_INSTRUCTION_FLAG_X2) { oput (o, "x2"); sp (o); o->r->classes |= 1u << 12; }
    if (in->flags & ORC_INSTRUCTION_FLAG_X4) { oput (o, "x4"); sp (o); o->r->classes |= 1u << 12; }
    oput (o, "%s", in->op->name); sp (o);
    for (j = 0; j < 2 && in->op->dsz[j]; j++) { if (!first) comma (o); oput (o, "%s", ps->vars[in->d[j]].name); first = 0; }
    for (j = 0; j < 3 && in->op->ssz[j]; j++) {
      k = in->s[j];
      if (!first) comma (o);
      if (ps->vars[k].kind == VK_CONST && inline_const[k]) {
        /* one constant keeps ONE spelling within a program: 0x80 and -128 are the same byte, but as two literals they take two of
           the eight constant slots, and a file that is full would be rejected for a reason that has nothing to do with its meaning */
        static char memo[PS_MAXVARS][80];
        static const ProgSpec *memo_ps;
        if (memo_ps != ps) { memset (memo, 0, sizeof memo); memo_ps = ps; }
        if (!memo[k][0]) {
          size_t before = o->n;
          const_literal (o, ps->vars[k].cval, in->op->ssz[j], 1);
          snprintf (memo[k], sizeof memo[k], "%s", o->s + before);
        } else oput (o, "%s", memo[k]);
        o->r->classes |= 1u << 3;
      }
      else oput (o, "%s", ps->vars[k].name);
      first = 0;
    }
    eol (o);
  }
}

static uint64_t trunc_to (uint64_t v, int size) { return size >= 8 ? v : (v & ((1ULL << (8 * size)) - 1)); }

static int same_str (const char *a, const char *b) { if (!a) a = ""; if (!b) b = ""; return !strcmp (a, b); }

/* operand equality: same class/size/...; constants by truncated value */
static int same_var (const OrcProgram *a, int va, const OrcProgram *b, int vb, char *why, size_t max)
{
  const OrcVariable *x = &a->vars[va], *y = &b->vars[vb];
  if (x->vartype != y->vartype) { snprintf (why, max, "variable class %d vs %d", x->vartype, y->vartype); return 0; }
  if (x->size != y->size) { snprintf (why, max, "variable size %d vs %d", x->size, y->size); return 0; }
  if (x->vartype == ORC_VAR_TYPE_CONST) {
    if (trunc_to ((uint64_t) x->value.i, x->size) != trunc_to ((uint64_t) y->value.i, y->size)) {
      snprintf (why, max, "constant value 0x%llx vs 0x%llx (size %d)", (unsigned long long) x->value.i, (unsigned long long) y->value.i, x->size);
      return 0;
    }
    return 1;
  }
  if (va != vb) { snprintf (why, max, "variable index %d (%s) vs %d (%s)", va, x->name ? x->name : "?", vb, y->name ? y->name : "?"); return 0; }
  return 1;
}

static int compare_programs (const OrcProgram *a /* API */, const OrcProgram *t /* text */, char *why, size_t max)
{
  int i, j;
  if (!same_str (a->name, t->name)) { snprintf (why, max, "name '%s' vs '%s'", a->name, t->name); return 1; }
  if (a->is_2d != t->is_2d || a->constant_n != t->constant_n || a->n_multiple != t->n_multiple || a->n_minimum != t->n_minimum
      || a->n_maximum != t->n_maximum || a->constant_m != t->constant_m) {
    snprintf (why, max, "settings: 2d %d/%d n %d/%d mult %d/%d min %d/%d max %d/%d m %d/%d", a->is_2d, t->is_2d, a->constant_n, t->constant_n,
        a->n_multiple, t->n_multiple, a->n_minimum, t->n_minimum, a->n_maximum, t->n_maximum, a->constant_m, t->constant_m);
    return 1;
  }
  if (a->n_src_vars != t->n_src_vars || a->n_dest_vars != t->n_dest_vars || a->n_accum_vars != t->n_accum_vars
      || a->n_param_vars != t->n_param_vars || a->n_temp_vars != t->n_temp_vars) {
    snprintf (why, max, "variable counts src %d/%d dest %d/%d acc %d/%d param %d/%d temp %d/%d", a->n_src_vars, t->n_src_vars, a->n_dest_vars,
        t->n_dest_vars, a->n_accum_vars, t->n_accum_vars, a->n_param_vars, t->n_param_vars, a->n_temp_vars, t->n_temp_vars);
    return 1;
  }
  for (i = 0; i < ORC_N_VARIABLES; i++) {
    const OrcVariable *x = &a->vars[i], *y = &t->vars[i];
    if (x->vartype == ORC_VAR_TYPE_CONST || y->vartype == ORC_VAR_TYPE_CONST) continue;      /* by value, through the instructions */
    if (x->size == 0 && y->size == 0) continue;
    if (x->vartype != y->vartype || x->size != y->size) { snprintf (why, max, "variable %d: class/size %d/%d vs %d/%d", i, x->vartype, x->size, y->vartype, y->size); return 1; }
    if (!same_str (x->name, y->name)) { snprintf (why, max, "variable %d: name '%s' vs '%s'", i, x->name, y->name); return 1; }
    if (x->alignment != y->alignment) { snprintf (why, max, "variable %s: alignment %d vs %d", x->name, x->alignment, y->alignment); return 1; }
    if (!same_str (x->type_name, y->type_name)) { snprintf (why, max, "variable %s: type name '%s' vs '%s'", x->name, x->type_name ? x->type_name : "", y->type_name ? y->type_name : ""); return 1; }
    if (x->vartype == ORC_VAR_TYPE_PARAM && x->param_type != y->param_type) { snprintf (why, max, "parameter %s: type %d vs %d", x->name, x->param_type, y->param_type); return 1; }
  }
  if (a->n_insns != t->n_insns) { snprintf (why, max, "%d instructions vs %d", a->n_insns, t->n_insns); return 1; }
  for (i = 0; i < a->n_insns; i++) {
    const OrcInstruction *x = &a->insns[i], *y = &t->insns[i];
    char w[200];
    if (x->opcode != y->opcode) { snprintf (why, max, "instruction %d: opcode %s vs %s", i, x->opcode->name, y->opcode->name); return 1; }
    if ((x->flags & (ORC_INSTRUCTION_FLAG_X2 | ORC_INSTRUCTION_FLAG_X4)) != (y->flags & (ORC_INSTRUCTION_FLAG_X2 | ORC_INSTRUCTION_FLAG_X4))) {
      snprintf (why, max, "instruction %d (%s): flags 0x%x vs 0x%x", i, x->opcode->name, x->flags, y->flags); return 1;
    }
    for (j = 0; j < ORC_STATIC_OPCODE_N_DEST; j++) if (x->opcode->dest_size[j] && !same_var (a, x->dest_args[j], t, y->dest_args[j], w, sizeof w)) {
      snprintf (why, max, "instruction %d (%s) destination %d: %s", i, x->opcode->name, j, w); return 1;
    }
    for (j = 0; j < ORC_STATIC_OPCODE_N_SRC; j++) if (x->opcode->src_size[j] && !same_var (a, x->src_args[j], t, y->src_args[j], w, sizeof w)) {
      snprintf (why, max, "instruction %d (%s) source %d: %s", i, x->opcode->name, j, w); return 1;
    }
  }
  return 0;
}

#define MAXF 3
void vprop_case (VChoices *c, VResult *r)
{
  static ProgSpec ps[MAXF];
  static RunCfg rc;
  static int inline_const[MAXF][PS_MAXVARS];
  OrcProgram *api[MAXF], **parsed = NULL;
  OrcParseError **errs = NULL;
  Out o;
  GenOpts go;
  char why[700];
  int nf, f, i, np = 0, ne = 0, ret;
  uint64_t h = 0;

  nf = 1 + (vc_pick (c, 6) >= 4 ? (int) vc_pick (c, 2) + 1 : 0);
  if (nf > 1) r->classes |= 1u << 10;
  for (f = 0; f < nf; f++) {
    gen_opts_default (&go);
    go.allow_float = 1; go.max_insns = 14;
    ps_generate (c, &go, &ps[f], r);
    {
      /* variable names a user may pick that look like something else to a careless reader of the text: spellings strtod accepts
         (nan, inf, infinity), near misses, prefix and directive words, names of other variable classes.  Decided by the upper bits
         of the function-name choice so that streams recorded earlier keep decoding the same way */
      static const char *tricky[] = { "nan", "inf", "infinity", "info", "nano", "e1", "x2", "x4", "n", "m", "dest", "source", "temp",
        "const", "param", "L", "f", "_bias", "_round", "_1", "_x", "d9", "s9", "NAN", "INF", "Infinity", "nanx", "in", "i", "accumulator", "x", "ex", "p" };
      uint32_t nraw = vc_u32 (c);
      snprintf (ps[f].name, sizeof ps[f].name, "fn_%d_%c", f, 'a' + (char) (nraw % 26));
      if ((nraw / 26) % 3 == 1) {
        uint32_t k = nraw / 78;
        for (i = 0; i < ps[f].nvars; i++) {
          const char *nm = tricky[(k + (uint32_t) i * 7u) % (sizeof tricky / sizeof tricky[0])];
          int q, clash = 0;
          if (((k >> 5) + (uint32_t) i) % 2) continue;
          for (q = 0; q < ps[f].nvars; q++) if (!strcmp (ps[f].vars[q].name, nm)) clash = 1;
          if (clash) continue;
          snprintf (ps[f].vars[i].name, sizeof ps[f].vars[i].name, "%s", nm);
          r->classes |= 1u << 16;
        }
      }
    }
    for (i = 0; i < ps[f].nvars; i++) {
      PVar *v = &ps[f].vars[i];
      inline_const[f][i] = 0;
      if ((v->kind == VK_SRC || v->kind == VK_DEST || v->kind == VK_ACC) && vc_chance (c, 1, 4))
        snprintf (v->type_name, sizeof v->type_name, "%s", type_names[vc_pick (c, 7)]);
      /* a constant may be written as a literal operand instead of a .const line (scalar operands included) */
      if (v->kind == VK_CONST && vc_chance (c, 1, 2)) inline_const[f][i] = 1;
    }
    /* a literal operand gets the size of the operand it is written in: only constants whose every use has exactly that size can
       be written inline and still denote the same API program */
    {
      int q, j;
      for (q = 0; q < ps[f].nins; q++)
        for (j = 0; j < 3 && ps[f].ins[q].op->ssz[j]; j++) {
          int k = ps[f].ins[q].s[j];
          if (ps[f].vars[k].kind == VK_CONST && ps[f].ins[q].op->ssz[j] != ps[f].vars[k].size) inline_const[f][k] = 0;
        }
    }
    /* known finding C02-const-two-lane-sizes: a literal operand shares the slot of an existing constant of equal value and size, so
       printing one of two equal-valued constants inline merges them in the parsed program, and if they are used with different lane
       sizes the shared-load defect shows there and not in the API twin.  Kept out by construction: such constants stay declared. */
    if (v_excluded ("const-two-lane-sizes")) {
      int q, k2;
      for (q = 0; q < ps[f].nvars; q++) {
        if (ps[f].vars[q].kind != VK_CONST || !inline_const[f][q]) continue;
        for (k2 = 0; k2 < ps[f].nvars; k2++)
          if (k2 != q && ps[f].vars[k2].kind == VK_CONST && ps[f].vars[k2].size == ps[f].vars[q].size && ps[f].vars[k2].cval == ps[f].vars[q].cval) { inline_const[f][q] = 0; break; }
      }
    }
    h ^= ps_hash (&ps[f]) * (uint64_t) (f + 1);
  }
  memset (&o, 0, sizeof o);
  o.c = c; o.r = r;
  o.eol_mode = (int) vc_pick (c, 4); if (o.eol_mode == 3) o.eol_mode = 0;
  if (o.eol_mode == 1) r->classes |= 1u << 0;
  if (o.eol_mode == 2) r->classes |= 1u << 1;
  oput (&o, "%s", "");
  if (vc_chance (c, 1, 4)) { oput (&o, "# leading comment%s%s", o.eol_mode == 1 ? "\r\n" : "\n", o.eol_mode == 1 ? "\r\n" : "\n"); r->classes |= 1u << 2; }
  for (f = 0; f < nf; f++) { print_program (&o, &ps[f], inline_const[f]); if (vc_chance (c, 1, 3)) oput (&o, "%s", o.eol_mode == 1 ? "\r\n" : "\n"); }
  if (vc_chance (c, 1, 6) && o.n > 0 && o.s[o.n - 1] == '\n') { o.s[--o.n] = 0; if (o.n > 0 && o.s[o.n - 1] == '\r') o.s[--o.n] = 0; }   /* no final newline */
  {
    /* the text, with CR made visible */
    size_t k;
    v_desc (r, "# C15: %d function(s); text:\n", nf);
    for (k = 0; k < o.n && r->desc_len + 8 < V_DESC_MAX; k++) { if (o.s[k] == '\r') v_desc (r, "\\r"); else if (o.s[k] == '\t') v_desc (r, "\\t"); else v_desc (r, "%c", o.s[k]); }
    v_desc (r, "\n");
  }

  v_stage (r, "build through the API");
  for (f = 0; f < nf; f++) api[f] = ps_build (&ps[f]);
  v_stage (r, "parse");
  ret = orc_parse_code (o.s, &parsed, &np, &errs, &ne);
  if (ret != 0 || ne != 0) {
    v_fail (r, "valid-text-rejected", "the parser reports %d error(s) for a well-formed file; first: line %d: %s", ne, ne ? errs[0]->line_number : 0, ne ? errs[0]->text : "?");
    return;
  }
  if (np != nf) { v_fail (r, "program-count", "%d .function blocks but %d programs returned", nf, np); return; }
  for (f = 0; f < nf && r->verdict != V_FAIL; f++) {
    v_stage (r, "compare structure of function %d", f);
    if (compare_programs (api[f], parsed[f], why, sizeof why)) {
      char sig[V_SIG_MAX];
      snprintf (sig, sizeof sig, "text-vs-api:%.40s", why);
      for (i = 0; sig[i]; i++) if (sig[i] >= '0' && sig[i] <= '9') sig[i] = '#';
      v_fail (r, sig, "function %d (%s): parsed program differs from the API-built one: %s", f, ps[f].name, why);
      break;
    }
    /* behaviour: emulate both */
    {
      RunOpts ro;
      Arena aa, at;
      OrcExecutor ea, et;
      int k, runs = 1 + (int) vc_pick (c, 2);
      memset (&ro, 0, sizeof ro);
      ro.n_max = 40; ro.m_max = 3; ro.placement_mask = 1;
      v_stage (r, "@notmine: compile function %d", f);
      orc_program_compile_full (api[f], NULL, 0);
      orc_program_compile_full (parsed[f], NULL, 0);
      if (!api[f]->orccode || !parsed[f]->orccode) continue;
      for (k = 0; k < runs && r->verdict != V_FAIL; k++) {
        rc_generate (c, &ps[f], &ro, &rc);
        if (arena_build (&aa, &ps[f], &rc, 0) || arena_build (&at, &ps[f], &rc, 0)) { arena_free (&aa); arena_free (&at); continue; }
        exec_setup (&ea, api[f], NULL, &ps[f], &rc, &aa);
        exec_setup (&et, parsed[f], NULL, &ps[f], &rc, &at);
        v_stage (r, "emulate function %d", f);
        orc_executor_emulate (&ea);
        orc_executor_emulate (&et);
        if (arena_compare (&at, &aa, &ps[f], &rc, &et, &ea, why, sizeof why))
          v_fail (r, "text-vs-api:behaviour", "function %d: emulating the parsed program and the API-built one differ: %s", f, why);
        arena_free (&aa); arena_free (&at);
        r->sub_evals++;
      }
    }
  }
  r->nontrivial = nf > 0 && ps[0].nins > 0;
  r->sub_nontrivial = r->sub_evals;
  r->hash = v_hash_bytes (h, o.s, o.n);
  v_stage (r, "cleanup");
  for (f = 0; f < nf; f++) orc_program_free (api[f]);
  for (f = 0; f < np; f++) orc_program_free (parsed[f]);
  free (parsed);
  orc_parse_error_freev (errs);
  free (o.s);
}
