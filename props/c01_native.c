/* C01 - native code computes exactly what emulation computes.
 *
 * case = program (random well-typed, or one opcode in one operand-kind/prefix form)
 *        x target (avx, sse, mmx) x flag variant x several run configurations
 * oracle = orc_executor_emulate on identical inputs: destination bytes of elements 0..n-1 of
 *          every row and all accumulators equal; nothing else in the arrays changed.
 */
#include "../engine/prog.h"
#include "../engine/tramp.h"
#include <stdlib.h>
#include <orc/orcinternal.h>

#ifdef C10_MODE
const char *vprop_id = "C10";
#elif defined(C03_MODE)
const char *vprop_id = "C03";
#else
const char *vprop_id = "C01";
#endif
int vprop_fork = 1;
int vprop_cpu_limit_s = 20;
const char *vprop_class_names[V_NCLASS] = {
  "n_lt_8", "n_8_64", "n_gt_64", "two_d", "accumulator", "x2x4", "in_place", "temps_ge_3", "special_load",
  "misaligned", "const_n", "target_avx", "target_sse", "target_mmx", "reduced_flags", "single_opcode",
  "var64", "exhaustive_pairs", "multi_insn_ge_5", "params",
  #ifdef C03_MODE
  "trailing_guard", "leading_guard", "unmapped_row_gaps", "generated_c_path", "negative_stride", "variable_classes_filled_to_limit", NULL
#else
  "saves_callee_regs", "sets_mxcsr", "uses_mmx_regs", "(unused)", "negative_stride", "variable_classes_filled_to_limit", "ran_as_32bit_code", "ran_as_32bit_code_with_frame_pointer", NULL
#endif
};

static const char *tnames[3] = { "avx", "sse", "mmx" };
static int int_ops[256], n_int_ops;
int c01_float_mode = 0;       /* C18 reuses this harness with float programs */

#ifdef C10_MODE
#include "../engine/run32.h"
static int run32_ok = -1;
#endif
void vprop_init (int argc, char **argv)
{
  int i;
  (void) argc; (void) argv;
  orc_init ();
#ifdef C10_MODE
  run32_ok = run32_probe ();
#endif
  for (i = 0; i < v_noptab; i++) {
    const VOp *op = &v_optab[i];
    if (op->flags & VOP_INVARIANT) continue;
#ifndef C10_MODE
    if (op->flags & (VOP_FSRC | VOP_FDEST)) continue;
#endif
    int_ops[n_int_ops++] = i;
  }
}

static unsigned flag_variant (int t, unsigned dflt, unsigned v, int *reduced)
{
  unsigned lvl = v % 5, fp = (v / 5) & 1, sj = (v / 10) & 1, f = dflt;
  *reduced = lvl != 0;
  if (t == 1 || t == 0) {
    if (lvl >= 1) f &= ~(unsigned) ORC_TARGET_SSE_SSE4_2;
    if (lvl >= 2) f &= ~(unsigned) ORC_TARGET_SSE_SSE4_1;
    if (lvl >= 3) f &= ~(unsigned) ORC_TARGET_SSE_SSSE3;
    if (lvl >= 4) f &= ~(unsigned) ORC_TARGET_SSE_SSE3;
    if (fp) f |= ORC_TARGET_SSE_FRAME_POINTER;
    if (sj) f |= ORC_TARGET_SSE_SHORT_JUMPS;
  } else {
    if (lvl >= 1) f &= ~(unsigned) ORC_TARGET_MMX_SSE4_1;
    if (lvl >= 2) f &= ~(unsigned) ORC_TARGET_MMX_SSSE3;
    if (lvl >= 3) f &= ~(unsigned) ORC_TARGET_MMX_MMXEXT;
    if (lvl >= 4) f &= ~(unsigned) (ORC_TARGET_MMX_3DNOW | ORC_TARGET_MMX_3DNOWEXT);
    if (fp) f |= ORC_TARGET_MMX_FRAME_POINTER;
    if (sj) f |= ORC_TARGET_MMX_SHORT_JUMPS;
  }
  return f;
}

/* enum stream layout: [1, opcode, form, target, variant, pairs, cfg-seed words ...] */
#define ENUM_VARIANTS 6
static const unsigned enum_variant[ENUM_VARIANTS] = { 0, 1, 2, 3, 5, 10 };

static uint64_t enum_total;
static uint64_t enum_prefix[256];

uint64_t vprop_enum_count (const char *tier)
{
  int i;
  uint64_t tot = 0;
  (void) tier;
  for (i = 0; i < n_int_ops; i++) {
    enum_prefix[i] = tot;
    tot += (uint64_t) ps_single_forms (&v_optab[int_ops[i]]) * 3 * ENUM_VARIANTS;
  }
  enum_prefix[n_int_ops] = tot;
  enum_total = tot;
#if !defined(C03_MODE) && !defined(C10_MODE)
  return tot + 7 * 3;                 /* the corner programs (N_CORNER) on avx, sse, mmx */
#else
  return tot;
#endif
}

size_t vprop_enum_stream (uint64_t idx, uint32_t *out, size_t max)
{
  int i = 0, k;
  uint64_t rel;
  size_t n = 0;
  if (!enum_total) vprop_enum_count ("quick");
  if (idx >= enum_total) { out[0] = 0xC01C0DE1u; out[1] = (uint32_t) ((idx - enum_total) / 3); out[2] = (uint32_t) ((idx - enum_total) % 3); return 3; }
  while (i + 1 < n_int_ops && enum_prefix[i + 1] <= idx) i++;
  rel = idx - enum_prefix[i];
  out[n++] = 1;
  out[n++] = (uint32_t) i;
  out[n++] = (uint32_t) (rel / (3 * ENUM_VARIANTS));
  out[n++] = (uint32_t) ((rel / ENUM_VARIANTS) % 3);
  out[n++] = enum_variant[rel % ENUM_VARIANTS];
  out[n++] = 1;                      /* systematic run configurations */
  for (k = 0; k < 200 && n < max; k++) out[n++] = (uint32_t) v_mix64 (idx * 1315423911ULL + (uint64_t) k);
  return n;
}

static const int sys_n[] = { 0, 1, 2, 3, 5, 7, 8, 15, 16, 17, 31, 32, 33, 63, 64, 65, 67, 100 };

#ifdef C10_MODE
#include <sys/mman.h>
/* C10: call through the trampoline with generated machine state and judge what the callee left behind */
static uint32_t c10_seed;
static int run_one (OrcProgram *p, ProgSpec *ps, RunCfg *rc, VResult *r, const char *tname)
{
  static const uint32_t mxcsrs[] = { 0x1f80, 0x3f80, 0x5f80, 0x7f80, 0x9f80, 0x1fc0, 0x9fc0, 0x1f80 | 0x8040 | 0x2000, 0x1f80 | 0x6000 | 0x0040 };   /* all exceptions masked: a trap is the caller's choice, not an ABI matter */
  static const uint16_t fpucws[] = { 0x037f, 0x027f, 0x0f7f, 0x077f, 0x0b7f, 0x007f };
  Arena an;
  VTramp st;
  OrcExecutor *ex;
  unsigned char *page;
  char msg[1024], sig[V_SIG_MAX];
  int bad = 0, i;
  uint64_t h = v_mix64 (c10_seed++ * 0x9e3779b97f4a7c15ULL + (uint64_t) rc->n);
  if (arena_build (&an, ps, rc, 0)) { arena_free (&an); return 0; }
  /* the executor ends flush against an inaccessible page; canaries in front of it */
  page = (unsigned char *) mmap (NULL, 3 * 4096, PROT_READ | PROT_WRITE, MAP_PRIVATE | MAP_ANONYMOUS, -1, 0);
  mprotect (page + 2 * 4096, 4096, PROT_NONE);
  memset (page, 0xc7, 2 * 4096);
  ex = (OrcExecutor *) (page + 2 * 4096 - sizeof (OrcExecutor));
  exec_setup (ex, p, NULL, ps, rc, &an);
  v_tramp_default (&st);
  for (i = 0; i < 6; i++) st.seed_gpr[i] = v_mix64 (h + (uint64_t) i) | 1;
  st.seed_mxcsr = mxcsrs[(h >> 8) % (sizeof mxcsrs / sizeof mxcsrs[0])];
  st.seed_fpucw = fpucws[(h >> 16) % (sizeof fpucws / sizeof fpucws[0])];
  v_stage (r, "run-native target=%s", tname);
  v_tramp_call ((void (*) (void *)) p->code_exec, ex, &st);
  v_stage (r, "judge machine state");
  msg[0] = 0;
  {
    static const char *names[6] = { "rbx", "rbp", "r12", "r13", "r14", "r15" };
    for (i = 0; i < 6 && !msg[0]; i++)
      if (st.out_gpr[i] != st.seed_gpr[i]) { snprintf (msg, sizeof msg, "callee-saved register %s not preserved: 0x%llx on entry, 0x%llx on return", names[i], (unsigned long long) st.seed_gpr[i], (unsigned long long) st.out_gpr[i]); snprintf (sig, sizeof sig, "abi:callee-saved target=%s", tname); }
  }
  if (!msg[0] && st.rsp_after != st.rsp_before) { snprintf (msg, sizeof msg, "stack pointer changed by %lld bytes", (long long) (st.rsp_after - st.rsp_before)); snprintf (sig, sizeof sig, "abi:stack-pointer target=%s", tname); }
  if (!msg[0] && st.canary_bad) { snprintf (msg, sizeof msg, "%llu words of the caller's stack frame were overwritten", (unsigned long long) st.canary_bad); snprintf (sig, sizeof sig, "abi:caller-stack target=%s", tname); }
  if (!msg[0] && (st.out_mxcsr & 0xffc0) != (st.seed_mxcsr & 0xffc0)) { snprintf (msg, sizeof msg, "MXCSR control bits changed: 0x%04x on entry, 0x%04x on return (rounding/FTZ/DAZ/masks must be preserved)", st.seed_mxcsr & 0xffc0, st.out_mxcsr & 0xffc0); snprintf (sig, sizeof sig, "abi:mxcsr target=%s", tname); }
  if (!msg[0] && st.out_fpucw != st.seed_fpucw) { snprintf (msg, sizeof msg, "x87 control word changed: 0x%04x -> 0x%04x", st.seed_fpucw, st.out_fpucw); snprintf (sig, sizeof sig, "abi:x87cw target=%s", tname); }
  if (!msg[0] && st.out_fputag != 0xffff) { snprintf (msg, sizeof msg, "x87/MMX register stack not empty on return (tag word 0x%04x): missing emms", st.out_fputag); snprintf (sig, sizeof sig, "abi:x87-tags target=%s", tname); }
  if (!msg[0] && (st.out_rflags & (1u << 10))) { snprintf (msg, sizeof msg, "direction flag set on return"); snprintf (sig, sizeof sig, "abi:direction-flag target=%s", tname); }
  if (!msg[0]) {
    size_t k;
    for (k = 0; k < 2 * 4096 - sizeof (OrcExecutor); k++) if (page[k] != 0xc7) { snprintf (msg, sizeof msg, "memory %zu bytes before the executor structure was overwritten", 2 * 4096 - sizeof (OrcExecutor) - k); snprintf (sig, sizeof sig, "abi:stray-write target=%s", tname); break; }
  }
  if (!msg[0] && arena_check_untouched (&an, ps, rc, msg, sizeof msg)) snprintf (sig, sizeof sig, "abi:stray-write target=%s", tname);
  if (msg[0]) {
    v_fail (r, sig, "ABI violation: %s", msg);
    v_desc (r, "# entry state: mxcsr=0x%04x fpucw=0x%04x\n", st.seed_mxcsr, st.seed_fpucw);
    bad = 1;
  }
  if (p->asm_code) {
    if (strstr (p->asm_code, "push %r1") || strstr (p->asm_code, "push %rbx")) r->classes |= 1u << 20;
    if (strstr (p->asm_code, "ldmxcsr")) r->classes |= 1u << 21;
    if (strstr (p->asm_code, "%mm")) r->classes |= 1u << 22;
  }
  munmap (page, 3 * 4096);
  arena_free (&an);
  return bad;
}

/* ---- the same program compiled as 32-bit code (the target's default flags without 64BIT, with or without the frame-pointer flag)
   and run inside this process through a far call into the compatibility-mode code segment (engine/run32.c): everything it touches
   lies below 4 GiB.  Judged: the i386 callee-saved registers ebx, esi, edi, ebp, the stack pointer, MXCSR control bits, the
   direction flag, the x87/MMX tag word, and (integer programs) the results against emulation ---- */
static int run32_program (ProgSpec *ps, RunCfg *rc, VResult *r, int t, uint64_t h)
{
  static const unsigned bit64[3] = { ORC_TARGET_SSE_64BIT, ORC_TARGET_SSE_64BIT, ORC_TARGET_MMX_64BIT };
  static const unsigned bitfp[3] = { ORC_TARGET_SSE_FRAME_POINTER, ORC_TARGET_SSE_FRAME_POINTER, ORC_TARGET_MMX_FRAME_POINTER };
  OrcTarget *target = orc_target_get_by_name (tnames[t]);
  unsigned flags = (orc_target_get_default_flags (target) & ~bit64[t]) | ((h & 1) ? bitfp[t] : 0);
  OrcProgram *p;
  OrcCompileResult res;
  Arena an, ae;
  OrcExecutor *ex, exe;
  Run32State st;
  char msg[1024], sig[V_SIG_MAX];
  int i, bad = 0;
  if (run32_ok <= 0 || run32_init ()) return 0;
  p = ps_build (ps);
  v_stage (r, "@notmine: compile 32-bit target=%s flags=0x%x", tnames[t], flags);
  res = orc_program_compile_full (p, target, flags);
  if (!ORC_COMPILE_RESULT_IS_SUCCESSFUL (res) || !p->orccode || p->orccode->code_size <= 0) { orc_program_free (p); return 0; }
  arena_map_32bit = 1;
  if (arena_build (&an, ps, rc, 0)) { arena_map_32bit = 0; arena_free (&an); orc_program_free (p); return 0; }
  arena_map_32bit = 0;
  if (arena_build (&ae, ps, rc, 0)) { arena_free (&an); arena_free (&ae); orc_program_free (p); return 0; }
  ex = (OrcExecutor *) run32_executor_mem ();
  exec_setup (ex, p, NULL, ps, rc, &an);
  exec_setup (&exe, p, NULL, ps, rc, &ae);
  memset (&st, 0, sizeof st);
  for (i = 0; i < 4; i++) st.seed[i] = (uint32_t) v_mix64 (h + 77 + (uint64_t) i) | 1u;
  st.mxcsr_in = (h >> 9) & 1 ? 0x1f80 : 0x5f80;            /* default, or round-towards-plus-infinity: must come back unchanged */
  v_desc (r, "# 32-bit run: target=%s flags=0x%x (%s frame pointer), %d bytes of code\n", tnames[t], flags, (h & 1) ? "with" : "no", p->orccode->code_size);
  v_stage (r, "run-native-32bit target=%s flags=0x%x", tnames[t], flags);
  if (run32_call (p->orccode->code, p->orccode->code_size, ex, &st)) { arena_free (&an); arena_free (&ae); orc_program_free (p); return 0; }
  v_stage (r, "judge 32-bit machine state");
  orc_executor_emulate (&exe);
  msg[0] = 0;
  {
    static const char *names[4] = { "ebx", "esi", "edi", "ebp" };
    for (i = 0; i < 4 && !msg[0]; i++)
      if (st.out[i] != st.seed[i]) { snprintf (msg, sizeof msg, "32-bit code: callee-saved register %s not preserved: 0x%08x on entry, 0x%08x on return", names[i], st.seed[i], st.out[i]); snprintf (sig, sizeof sig, "abi32:callee-saved target=%s", tnames[t]); }
  }
  if (!msg[0] && st.esp_after != st.esp_before) { snprintf (msg, sizeof msg, "32-bit code: stack pointer changed by %d bytes", (int) (st.esp_after - st.esp_before)); snprintf (sig, sizeof sig, "abi32:stack-pointer target=%s", tnames[t]); }
  if (!msg[0] && (st.mxcsr_out & 0xffc0) != (st.mxcsr_in & 0xffc0)) { snprintf (msg, sizeof msg, "32-bit code: MXCSR control bits changed: 0x%04x -> 0x%04x", st.mxcsr_in & 0xffc0, st.mxcsr_out & 0xffc0); snprintf (sig, sizeof sig, "abi32:mxcsr target=%s", tnames[t]); }
  if (!msg[0] && st.fputag_out != 0xffff) { snprintf (msg, sizeof msg, "32-bit code: x87/MMX register stack not empty on return (tag word 0x%04x)", st.fputag_out); snprintf (sig, sizeof sig, "abi32:x87-tags target=%s", tnames[t]); }
  if (!msg[0] && st.df_out) { snprintf (msg, sizeof msg, "32-bit code: direction flag set on return"); snprintf (sig, sizeof sig, "abi32:direction-flag target=%s", tnames[t]); }
  if (!msg[0] && !ps->has_float && arena_compare (&an, &ae, ps, rc, ex, &exe, msg, sizeof msg)) snprintf (sig, sizeof sig, "abi32:wrong-result target=%s", tnames[t]);
  if (!msg[0] && arena_check_untouched (&an, ps, rc, msg, sizeof msg)) snprintf (sig, sizeof sig, "abi32:stray-write target=%s", tnames[t]);
  if (msg[0]) { v_fail (r, sig, "%s", msg); rc_print (ps, rc, r); bad = 1; }
  r->classes |= 1u << 26;
  if (h & 1) r->classes |= 1u << 27;
  r->sub_evals++; r->sub_nontrivial++;
  arena_free (&an); arena_free (&ae);
  orc_program_free (p);
  return bad;
}
#elif defined(C03_MODE)
#include <signal.h>
#include <unistd.h>
#include <ucontext.h>
#include "../engine/cgen.h"
/* C03: arrays flush against inaccessible pages, sources read-only; a fault is reported with the array and the
 * distance from the entitled range; native and emulation both run on guarded arenas and must agree */
static Arena *c03_cur_arena;
static VResult *c03_cur_result;
static const char *c03_cur_path;
static void c03_fault (int signo, siginfo_t *si, void *ctx)
{
  char where[400];
  if (c03_cur_arena && c03_cur_result) {
    int v = arena_find (c03_cur_arena, si->si_addr, where, sizeof where);
    VResult *r = c03_cur_result;
    r->verdict = V_FAIL;
    /* page-fault error code bit 1 = the access was a write */
    int is_write = (int) ((((ucontext_t *) ctx)->uc_mcontext.gregs[REG_ERR] >> 1) & 1);
    snprintf (r->sig, V_SIG_MAX, "out-of-bounds-%s path=%s", is_write ? (v >= 0 && c03_cur_arena->a[v].kind == VK_SRC ? "write-to-source" : "write") : "read", c03_cur_path);
    snprintf (r->msg, V_MSG_MAX, "%s faulted (signal %d) at %p: %s", c03_cur_path, signo, si->si_addr, where);
  }
  _exit (0);
}
static int run_one (OrcProgram *p, ProgSpec *ps, RunCfg *rc, VResult *r, const char *tname)
{
  Arena an, ae;
  OrcExecutor exn, exe;
  char msg[1024];
  int bad = 0;
  struct sigaction sa;
  memset (&sa, 0, sizeof sa);
  sa.sa_sigaction = c03_fault; sa.sa_flags = SA_SIGINFO;
  sigaction (SIGSEGV, &sa, NULL); sigaction (SIGBUS, &sa, NULL);
  if (arena_build (&an, ps, rc, 1) || arena_build (&ae, ps, rc, 1)) { arena_free (&an); arena_free (&ae); return 0; }
  exec_setup (&exn, p, NULL, ps, rc, &an);
  exec_setup (&exe, p, NULL, ps, rc, &ae);
  rc_print (ps, rc, r);       /* before running: the description must survive a fault */
  c03_cur_result = r;
  c03_cur_arena = &an; c03_cur_path = tname;
  v_stage (r, "run-native target=%s", tname);
  v_shielded_call (p->code_exec, &exn);
  c03_cur_arena = &ae; c03_cur_path = "emulation";
  v_stage (r, "run-emulate");
  orc_executor_emulate (&exe);
  c03_cur_arena = NULL;
  /* third path: the C source Orc generates, compiled by gcc, for one program in six (decided by the program's hash, so that no
     choice is consumed); it runs on its own guarded arena */
  if (ps_hash (ps) % 6 == 0 && v_arg ("cg_inc", NULL)) {
    static CgUnit cu; static uint64_t cu_hash; static int cu_ok;
    static OrcProgram *pc;
    if (cu_hash != ps_hash (ps) + 1) {
      if (cu_ok) { cg_close (&cu); cu_ok = 0; }
      if (pc) { orc_program_free (pc); pc = NULL; }
      pc = ps_build (ps);
      v_stage (r, "@notmine: compile generated C");
      cu_ok = cg_make (pc, ps, CG_BARE, "-O2", v_arg ("scratch", "/verif/_work/scratch"), &cu) == 0;
      cu_hash = ps_hash (ps) + 1;
    }
    if (cu_ok) {
      Arena ac;
      OrcExecutor exc;
      if (!arena_build (&ac, ps, rc, 1)) {
        exec_setup (&exc, pc, NULL, ps, rc, &ac);
        c03_cur_arena = &ac; c03_cur_path = "generated-c";
        v_stage (r, "run-generated-c");
        cu.fn (&exc);
        c03_cur_arena = NULL;
        if (arena_check_untouched (&ac, ps, rc, msg, sizeof msg)) { v_fail (r, "stray-write path=generated-c", "compiled generated C wrote outside destination elements 0..n-1: %s", msg); bad = 1; }
        arena_free (&ac);
        r->classes |= 1u << 23;
      }
    }
  }
  v_stage (r, "compare");
  if (bad) { }
  else if (arena_check_untouched (&an, ps, rc, msg, sizeof msg)) {
    char sig[V_SIG_MAX];
    snprintf (sig, sizeof sig, "stray-write path=%s", tname);
    v_fail (r, sig, "native code wrote outside destination elements 0..n-1: %s", msg);
    bad = 1;
  } else if (arena_check_untouched (&ae, ps, rc, msg, sizeof msg)) {
    v_fail (r, "stray-write path=emulation", "emulation wrote outside destination elements 0..n-1: %s", msg);
    bad = 1;
  } else if (!ps->has_float && arena_compare (&an, &ae, ps, rc, &exn, &exe, msg, sizeof msg)) {
    /* agreement is required so that "touch nothing" cannot be satisfied by skipping elements (float rounding is C18's) */
    char sig[V_SIG_MAX];
    snprintf (sig, sizeof sig, "mismatch%s target=%s", ps->ldres_shared ? "-special-load-shared-source" : "", tname);
    v_fail (r, sig, "native != emulation on the guarded arena: %s", msg);
    bad = 1;
  }
  if (rc->placement == PLACE_TRAIL) r->classes |= 1u << 20;
  if (rc->placement == PLACE_LEAD) r->classes |= 1u << 21;
  if (rc->gap_unmapped) r->classes |= 1u << 22;
  arena_free (&an); arena_free (&ae);
  return bad;
}
#else
static int run_one (OrcProgram *p, ProgSpec *ps, RunCfg *rc, VResult *r, const char *tname)
{
  Arena an, ae;
  OrcExecutor exn, exe;
  char msg[1024];
  int bad = 0;
  if (arena_build (&an, ps, rc, 0) || arena_build (&ae, ps, rc, 0)) { arena_free (&an); arena_free (&ae); return 0; }
  exec_setup (&exn, p, NULL, ps, rc, &an);
  exec_setup (&exe, p, NULL, ps, rc, &ae);
  v_stage (r, "run-native target=%s", tname);
  /* through the trampoline: an ABI violation of the generated code (C10) must not derail this check */
  v_shielded_call (p->code_exec, &exn);
  v_stage (r, "run-emulate");
  orc_executor_emulate (&exe);
  v_stage (r, "compare");
  if (arena_compare (&an, &ae, ps, rc, &exn, &exe, msg, sizeof msg)) {
    char sig[V_SIG_MAX];
    snprintf (sig, sizeof sig, "mismatch%s target=%s first_op=%s",
        ps->ldres_shared ? "-special-load-shared-source" : ps->acc_nonarray ? "-acc-nonarray-source" :
        (!strcmp (tname, "mmx") && ps->has_64 && ps->has_special_load) ? "-mmx-64bit-special-load" : "",
        tname, ps->ins[0].op->name);
    v_fail (r, sig, "native != emulation: %s", msg);
    bad = 1;
  } else if (arena_check_untouched (&an, ps, rc, msg, sizeof msg)) {
    char sig[V_SIG_MAX];
    snprintf (sig, sizeof sig, "stray-write target=%s first_op=%s", tname, ps->ins[0].op->name);
    v_fail (r, sig, "native code changed memory it is not entitled to: %s", msg);
    bad = 1;
  }
  arena_free (&an); arena_free (&ae);
  return bad;
}

#endif

#if !defined(C03_MODE) && !defined(C10_MODE)
/* ---- corner programs: valid programs (the compiler accepts them on every path) whose shapes the generator leaves out because
   their meaning differs between emulation, the machine code and the generated C.  They are written out by hand, run here on every
   executable target and reported under their own signatures, which known_findings.json lists ---- */
#define CORNER_MAGIC 0xC01C0DE1u
#define N_CORNER 7
static const struct { const char *name, *sig; } corners[N_CORNER] = {
  { "x2 accw a1, s1  (4-byte accumulator and array)", "corner:x-prefix-on-accumulate" },
  { "x2 accl a1, s1  (8-byte accumulator and array)", "corner:x-prefix-on-accumulate" },
  { "x2 accsadubl a1, s1, s2  (8-byte accumulator, 2-byte arrays)", "corner:x-prefix-on-accumulate" },
  { "x2 loadoffb d1, s1, 1  (2-byte arrays)", "corner:x-prefix-on-special-load" },
  { "x2 loadupdb d1, s1  (2-byte arrays)", "corner:x-prefix-on-special-load" },
  { "addq d1, s1, c1 with .const 4 c1 -9", "corner:narrow-scalar-in-64bit-op" },
  { "addq d1, s1, p1 with .param 4 p1 = -5", "corner:narrow-scalar-in-64bit-op" },
};
static void corner_case (VResult *r, int k, int t)
{
  OrcProgram *p = orc_program_new ();
  OrcTarget *target = orc_target_get_by_name (tnames[t]);
  OrcCompileResult res;
  OrcExecutor e1, e2;
  static uint64_t s1[160], s2[160], d1a[160], d1b[160];
  int i, n = 37, a = -1, d = -1, sv1 = -1, sv2 = -1, pv = -1, dsize = 0, bad = 0;
  char sig[V_SIG_MAX];
  k %= N_CORNER;
  v_desc (r, "# C01 corner program %d on %s: %s\n", k, tnames[t], corners[k].name);
  switch (k) {
    case 0: sv1 = orc_program_add_source (p, 4, "s1"); a = orc_program_add_accumulator (p, 4, "a1"); orc_program_append_2 (p, "accw", ORC_INSTRUCTION_FLAG_X2, a, sv1, 0, 0); break;
    case 1: sv1 = orc_program_add_source (p, 8, "s1"); a = orc_program_add_accumulator (p, 8, "a1"); orc_program_append_2 (p, "accl", ORC_INSTRUCTION_FLAG_X2, a, sv1, 0, 0); break;
    case 2: sv1 = orc_program_add_source (p, 2, "s1"); sv2 = orc_program_add_source (p, 2, "s2"); a = orc_program_add_accumulator (p, 8, "a1");
            orc_program_append_2 (p, "accsadubl", ORC_INSTRUCTION_FLAG_X2, a, sv1, sv2, 0); break;
    case 3: d = orc_program_add_destination (p, 2, "d1"); sv1 = orc_program_add_source (p, 2, "s1"); dsize = 2;
            orc_program_append_2 (p, "loadoffb", ORC_INSTRUCTION_FLAG_X2, d, sv1, orc_program_add_constant (p, 4, 1, "c1"), 0); break;
    case 4: d = orc_program_add_destination (p, 2, "d1"); sv1 = orc_program_add_source (p, 2, "s1"); dsize = 2;
            orc_program_append_2 (p, "loadupdb", ORC_INSTRUCTION_FLAG_X2, d, sv1, 0, 0); break;
    case 5: d = orc_program_add_destination (p, 8, "d1"); sv1 = orc_program_add_source (p, 8, "s1"); dsize = 8;
            orc_program_append_2 (p, "addq", 0, d, sv1, orc_program_add_constant (p, 4, -9, "c1"), 0); break;
    default: d = orc_program_add_destination (p, 8, "d1"); sv1 = orc_program_add_source (p, 8, "s1"); dsize = 8; pv = orc_program_add_parameter (p, 4, "p1");
            orc_program_append_2 (p, "addq", 0, d, sv1, pv, 0); break;
  }
  v_stage (r, "corner compile target=%s", tnames[t]);
  res = orc_program_compile_full (p, target, orc_target_get_default_flags (target));
  v_desc (r, "# compile result: %s\n", v_result_name (res));
  r->hash = 0xC0C0000u + (uint64_t) (k * 8 + t);
  if (!ORC_COMPILE_RESULT_IS_SUCCESSFUL (res)) { r->verdict = V_DISCARD; orc_program_free (p); return; }
  for (i = 0; i < 160; i++) { s1[i] = v_mix64 (0x5151 + (uint64_t) i); s2[i] = v_mix64 (0x5252 + (uint64_t) i); d1a[i] = d1b[i] = 0x5a5a5a5a5a5a5a5aULL; }
  memset (&e1, 0, sizeof e1); memset (&e2, 0, sizeof e2);
  orc_executor_set_program (&e1, p); orc_executor_set_program (&e2, p);
  orc_executor_set_n (&e1, n); orc_executor_set_n (&e2, n);
  if (sv1 >= 0) { e1.arrays[sv1] = s1; e2.arrays[sv1] = s1; }
  if (sv2 >= 0) { e1.arrays[sv2] = s2; e2.arrays[sv2] = s2; }
  if (d >= 0) { e1.arrays[d] = d1a; e2.arrays[d] = d1b; }
  if (pv >= 0) { orc_executor_set_param (&e1, pv, -5); orc_executor_set_param (&e2, pv, -5); }
  v_stage (r, "corner run target=%s", tnames[t]);
  v_shielded_call ((void *) p->code_exec, &e1);
  orc_executor_emulate (&e2);
  r->nontrivial = 1; r->sub_evals = 1; r->sub_nontrivial = 1;
  if (d >= 0 && memcmp (d1a, d1b, (size_t) (n * dsize)) != 0) {
    for (i = 0; i < n * dsize && ((unsigned char *) d1a)[i] == ((unsigned char *) d1b)[i]; i++) {}
    snprintf (sig, sizeof sig, "%s target=%s", corners[k].sig, tnames[t]);
    v_fail (r, sig, "%s: native %s code and emulation differ at byte %d of d1 (element %d): native 0x%02x, emulation 0x%02x", corners[k].name, tnames[t], i, i / dsize,
        ((unsigned char *) d1a)[i], ((unsigned char *) d1b)[i]);
    bad = 1;
  }
  if (!bad && a >= 0 && e1.accumulators[0] != e2.accumulators[0]) {
    snprintf (sig, sizeof sig, "%s target=%s", corners[k].sig, tnames[t]);
    v_fail (r, sig, "%s: accumulator from native %s code 0x%08x, from emulation 0x%08x (n=%d)", corners[k].name, tnames[t], (unsigned) e1.accumulators[0], (unsigned) e2.accumulators[0], n);
  }
  orc_program_free (p);
}
#endif

void vprop_case (VChoices *c, VResult *r)
{
  static ProgSpec ps;
  static RunCfg rc;
  GenOpts go;
  RunOpts ro;
  OrcProgram *p;
  OrcTarget *target;
  OrcCompileResult res;
  int single, t, reduced, nruns, i, systematic = 0, pairs = 0;
  unsigned flags, variant;
  uint64_t h;

#if !defined(C03_MODE) && !defined(C10_MODE)
  if (c->n >= 3 && c->v[0] == CORNER_MAGIC) { corner_case (r, (int) c->v[1], (int) (c->v[2] % 3)); return; }
#endif
  gen_opts_default (&go);
#ifdef C10_MODE
  go.allow_float = 1;
#else
  go.allow_float = 0;
#endif
  single = vc_pick (c, 2) == 1;
  if (single) {
    go.single_opcode = int_ops[vc_pick (c, (uint32_t) n_int_ops)];
    go.single_form = (int) vc_pick (c, (uint32_t) ps_single_forms (&v_optab[go.single_opcode]));
  }
  t = (int) vc_pick (c, 3);
  variant = vc_pick (c, 20);
  if (single) systematic = (int) vc_pick (c, 2);
  {
    char key[64];
    snprintf (key, sizeof key, "op:%s:", tnames[t]);
    go.exclude_prefix = key;
    ps_generate (c, &go, &ps, r);
  }
  target = orc_target_get_by_name (tnames[t]);
  flags = flag_variant (t, orc_target_get_default_flags (target), variant, &reduced);

  v_desc (r, "# C01 target=%s flags=0x%x %s\n", tnames[t], flags, single ? "single-opcode" : "random-program");
  ps_print (&ps, r);
  h = ps_hash (&ps);
  h = v_hash_bytes (h, &t, sizeof t);
  h = v_hash_bytes (h, &flags, sizeof flags);

  /* known-finding exclusions are decided on the whole program: count and skip */
  if (single) {
    char key[96];
    snprintf (key, sizeof key, "op:%s:%s", tnames[t], ps.ins[0].op->name);
    if (v_excluded (key)) { r->excluded++; r->verdict = V_DISCARD; return; }
  }
  if (t == 2 && ps.has_64 && ps.has_special_load && v_excluded ("mmx-64bit-special-load")) { r->excluded++; r->verdict = V_DISCARD; return; }

  v_stage (r, "compile target=%s", tnames[t]);
  p = ps_build (&ps);
  res = orc_program_compile_full (p, target, flags);
  v_desc (r, "# compile result: %s\n", v_result_name (res));
  if (v_arg ("dump", NULL) && p->asm_code) {
    FILE *f = fopen ("/tmp/c01_dump.s", "w");
    if (f) { fprintf (f, "%s\n", p->asm_code); fclose (f); }
    f = fopen ("/tmp/c01_dump.bin", "wb");
    if (f && p->orccode) { fwrite (p->orccode->code, 1, (size_t) p->orccode->code_size, f); fclose (f); }
  }
  if (!ORC_COMPILE_RESULT_IS_SUCCESSFUL (res)) {
    r->verdict = V_DISCARD;
    r->hash = h;
    orc_program_free (p);
    return;
  }

  memset (&ro, 0, sizeof ro);
#ifdef C03_MODE
  ro.n_max = 100; ro.m_max = 4; ro.big_n = 0; ro.placement_mask = 6;
#else
  ro.n_max = 200; ro.m_max = 5; ro.big_n = 4000; ro.placement_mask = 1; ro.huge_n = 1;
#endif
  nruns = systematic ? (int) (sizeof sys_n / sizeof sys_n[0]) : 4 + (int) vc_pick (c, 12);
  for (i = 0; i < nruns; i++) {
    ro.exhaustive_pairs = 0;
    rc_generate (c, &ps, &ro, &rc);
    if (systematic && !ps.const_n) {
      rc.n = sys_n[i];
      if (ps.is2d) rc.m = 1 + (i % 3);
    }
    h = v_hash_bytes (h, &rc.n, sizeof rc.n);
    r->sub_evals++;
    if (rc.n > 0 && rc.m > 0) r->sub_nontrivial++;
    { int q; for (q = 0; q < ps.nvars; q++) if (rc.a[q].neg_stride && rc.m > 1) r->classes |= 1u << 24; }
    if (rc.n > 0 && rc.m > 0) {
      if (rc.n < 8) r->classes |= 1u << 0; else if (rc.n <= 64) r->classes |= 1u << 1; else r->classes |= 1u << 2;
    }
#ifdef C03_MODE
    if (run_one (p, &ps, &rc, r, tnames[t])) break;
#else
    if (run_one (p, &ps, &rc, r, tnames[t])) { rc_print (&ps, &rc, r); break; }
#endif
  }
  /* exhaustive operand pairs for 8-bit (and 16-bit unary) single-opcode programs */
#if defined(C10_MODE) || defined(C03_MODE)
  if (0) {
#else
  if (r->verdict != V_FAIL && single && systematic && !ps.const_n) {
#endif
    const VOp *op = ps.ins[0].op;
    int narrow = op->ssz[0] == 1 && (op->ssz[1] == 0 || op->ssz[1] == 1) && !ps.has_special_load;
    int unary16 = op->ssz[0] == 2 && op->ssz[1] == 0;
    if (narrow || unary16) {
      ro.exhaustive_pairs = 1;
      rc_generate (c, &ps, &ro, &rc);
      pairs = 1;
      r->sub_evals++; r->sub_nontrivial++;
      if (run_one (p, &ps, &rc, r, tnames[t])) rc_print (&ps, &rc, r);
    }
  }
#ifdef C10_MODE
  /* every other case: the program once more as 32-bit code (only default-flag known-finding-free shapes reach this point) */
  if (r->verdict != V_FAIL && (h >> 5) % 2 == 0 && !(t == 2 && ps.has_64 && ps.has_special_load)) {
    RunOpts ro32;
    memset (&ro32, 0, sizeof ro32);
    ro32.n_max = 100; ro32.m_max = 3; ro32.placement_mask = 1;
    rc_generate (c, &ps, &ro32, &rc);
    run32_program (&ps, &rc, r, t, h);
  }
#endif
  orc_program_free (p);

  r->hash = h;
  r->nontrivial = r->sub_nontrivial > 0;
  if (ps.is2d) r->classes |= 1u << 3;
  if (ps.has_acc) r->classes |= 1u << 4;
  if (ps.has_x) r->classes |= 1u << 5;
  if (ps.has_inplace) r->classes |= 1u << 6;
  if (ps.count[VK_TEMP] >= 3) r->classes |= 1u << 7;
  if (ps.has_special_load) r->classes |= 1u << 8;
  for (i = 0; i < ps.nvars; i++) if ((ps.vars[i].kind == VK_DEST) && rc.a[i].misalign % 16) r->classes |= 1u << 9;
  if (ps.const_n) r->classes |= 1u << 10;
  r->classes |= 1u << (11 + t);
  if (reduced) r->classes |= 1u << 14;
  if (single) r->classes |= 1u << 15;
  if (ps.has_64) r->classes |= 1u << 16;
  if (pairs) r->classes |= 1u << 17;
  if (ps.nins >= 5) r->classes |= 1u << 18;
  if (ps.count[VK_PARAM]) r->classes |= 1u << 19;
  if (ps.saturated) r->classes |= 1u << 25;
}
