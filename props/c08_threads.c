/* C08 - Orc is safe to use from many threads at once.  (ThreadSanitizer build; every case is its own process.)
 *
 * case = 2..16 threads, each with a generated list of 3..14 operations and generated yields (sched_yield / short sleeps) between
 *        them.  All threads start behind a barrier; the library is NOT initialised before, so the first operation of every thread is a
 *        concurrent orc_init().  Operations:
 *          compile   - build one of six kernels through the API for avx/sse/mmx (own program object), run it on the thread's own
 *                      arrays, compare with the C result, free it (or take the code, free the program, run code-only, free the code)
 *          shared    - run one of two functions that were compiled once by whichever thread got there first (published through
 *                      a pthread_once) with the thread's own executor and arrays
 *          wrapper   - call one of four functions written exactly like orcc's lazy-init output (static OrcOnce, orc_once_enter,
 *                      build + compile + take_code, orc_once_leave) and compare with the C result
 *          init      - call orc_init() again
 * oracle = ThreadSanitizer reports no data race (halt_on_error: the child aborts), every result equals the C computation, every
 *        once-guarded wrapper ran its initialisation block exactly once (atomic counters) and every caller saw a non-NULL, fully
 *        built code object, all threads terminate.
 */
#include "../engine/vcase.h"
#include <orc/orc.h>
#include <pthread.h>
#include <sched.h>
#include <stdatomic.h>
#include <stdlib.h>
#include <unistd.h>
#include <time.h>

const char *vprop_id = "C08";
int vprop_fork = 1;
int vprop_cpu_limit_s = 120;
const char *vprop_class_names[V_NCLASS] = {
  "threads_ge_4", "threads_ge_8", "threads_16", "concurrent_compiles", "shared_function_runs", "once_wrappers_contended", "take_code_path",
  "yields", "(unused)", "c99_once_wrappers_contended", NULL
};

void vprop_init (int argc, char **argv) { (void) argc; (void) argv; /* orc_init is raced by the threads of every case */ }
uint64_t vprop_enum_count (const char *tier) { (void) tier; return 0; }
size_t vprop_enum_stream (uint64_t i, uint32_t *out, size_t max) { (void) i; (void) out; (void) max; return 0; }

#define N 67
/* six 16-bit kernels: d = f(s1, s2) */
static const char *kops[6][2] = { { "addw", NULL }, { "subw", NULL }, { "mullw", NULL }, { "addw", "xorw" }, { "maxsw", "subw" }, { "andw", "addssw" } };
static int16_t sat16 (int v) { return v > 32767 ? 32767 : v < -32768 ? -32768 : (int16_t) v; }
static int16_t kop (const char *op, int16_t a, int16_t b)
{
  if (!strcmp (op, "addw")) return (int16_t) (a + b);
  if (!strcmp (op, "subw")) return (int16_t) (a - b);
  if (!strcmp (op, "mullw")) return (int16_t) (a * b);
  if (!strcmp (op, "xorw")) return a ^ b;
  if (!strcmp (op, "maxsw")) return a > b ? a : b;
  if (!strcmp (op, "andw")) return a & b;
  return sat16 ((int) a + (int) b);
}
static int16_t kref (int k, int16_t a, int16_t b)
{
  int16_t t = kop (kops[k][0], a, b);
  if (kops[k][1]) t = kop (kops[k][1], t, b);
  return t;
}
static OrcProgram *kbuild (int k)
{
  OrcProgram *p = orc_program_new ();
  orc_program_add_destination (p, 2, "d1");
  orc_program_add_source (p, 2, "s1");
  orc_program_add_source (p, 2, "s2");
  if (kops[k][1]) {
    orc_program_add_temporary (p, 2, "t1");
    orc_program_append_str (p, kops[k][0], "t1", "s1", "s2");
    orc_program_append_str (p, kops[k][1], "d1", "t1", "s2");
  } else orc_program_append_str (p, kops[k][0], "d1", "s1", "s2");
  return p;
}

typedef struct { uint32_t op, arg, yield; } Op;
typedef struct {
  int id, nops, skip_init, done;
  Op ops[16];
  int16_t d[N + 8], s1[N + 8], s2[N + 8];
  char fail[300];
} Thr;
static Thr thr[16];
static pthread_barrier_t bar;
static atomic_int once_inits[4], shared_inits[2];
static const char *targets[3] = { "avx", "sse", "mmx" };

static void fill (Thr *t, uint32_t seed)
{
  int i;
  for (i = 0; i < N + 8; i++) { uint64_t h = v_mix64 (((uint64_t) t->id << 32) ^ seed ^ (uint64_t) i * 77); t->s1[i] = (int16_t) h; t->s2[i] = (int16_t) (h >> 20); t->d[i] = 0x5a5a; }
}
static int check (Thr *t, int k, const char *what)
{
  int i;
  for (i = 0; i < N; i++) if (t->d[i] != kref (k, t->s1[i], t->s2[i])) {
    snprintf (t->fail, sizeof t->fail, "%s kernel %d element %d: got 0x%04x, C gives 0x%04x", what, k, i, (uint16_t) t->d[i], (uint16_t) kref (k, t->s1[i], t->s2[i]));
    return 1;
  }
  for (i = N; i < N + 8; i++) if (t->d[i] != 0x5a5a) { snprintf (t->fail, sizeof t->fail, "%s kernel %d wrote beyond n", what, k); return 1; }
  return 0;
}
static void run_code (OrcCode *c, Thr *t)
{
  OrcExecutor ex;
  memset (&ex, 0, sizeof ex);
  ex.arrays[ORC_VAR_A2] = c; ex.program = 0; ex.n = N;
  ex.arrays[ORC_VAR_D1] = t->d; ex.arrays[ORC_VAR_S1] = t->s1; ex.arrays[ORC_VAR_S2] = t->s2;
  c->exec (&ex);
}

/* ---- once-guarded wrappers, written like orcc's --lazy-init output ---- */
#define WRAPPER(K, KERNEL) static void wrapper_##K (Thr *t) { \
  static OrcOnce once = ORC_ONCE_INIT; \
  OrcCode *c; \
  if (!orc_once_enter (&once, (void **) &c)) { \
    OrcProgram *p; \
    atomic_fetch_add (&once_inits[K], 1); \
    p = kbuild (KERNEL); \
    orc_program_compile (p); \
    c = orc_program_take_code (p); \
    orc_program_free (p); \
    orc_once_leave (&once, c); \
  } \
  if (!c) { snprintf (t->fail, sizeof t->fail, "wrapper %d: orc_once_enter returned a NULL code pointer", K); return; } \
  run_code (c, t); \
}
WRAPPER (0, 0) WRAPPER (1, 3) WRAPPER (2, 4) WRAPPER (3, 5)
static const int wrapper_kernel[8] = { 0, 3, 4, 5, 1, 2, 3, 5 };
/* wrappers 4..7: the same thing compiled as C99 (props/c08_once99.c), where orconce.h uses its __sync implementation */
OrcCode *c08_once99_get (int k, OrcCode *(*build) (int k), int *inits);
static int once99_inits[4];
static OrcCode *build99 (int k)
{
  OrcProgram *p = kbuild (wrapper_kernel[4 + k]);
  OrcCode *c;
  orc_program_compile (p);
  c = orc_program_take_code (p);
  orc_program_free (p);
  return c;
}
#define WRAPPER99(K) static void wrapper_##K (Thr *t) { \
  OrcCode *c = c08_once99_get (K - 4, build99, once99_inits); \
  if (!c) { snprintf (t->fail, sizeof t->fail, "wrapper %d: orc_once_enter returned a NULL code pointer", K); return; } \
  run_code (c, t); \
}
WRAPPER99 (4) WRAPPER99 (5) WRAPPER99 (6) WRAPPER99 (7)
static void (*wrappers[8]) (Thr *) = { wrapper_0, wrapper_1, wrapper_2, wrapper_3, wrapper_4, wrapper_5, wrapper_6, wrapper_7 };

/* ---- functions compiled once and then run by everybody ---- */
static OrcCode *shared_code[2];
static pthread_once_t shared_once[2] = { PTHREAD_ONCE_INIT, PTHREAD_ONCE_INIT };
static void shared_init0 (void) { OrcProgram *p = kbuild (1); atomic_fetch_add (&shared_inits[0], 1); orc_program_compile (p); shared_code[0] = orc_program_take_code (p); orc_program_free (p); }
static void shared_init1 (void) { OrcProgram *p = kbuild (2); atomic_fetch_add (&shared_inits[1], 1); orc_program_compile_for_target (p, orc_target_get_by_name ("sse")); shared_code[1] = orc_program_take_code (p); orc_program_free (p); }

static void pause_a_bit (uint32_t y)
{
  if (y == 0) return;
  if (y < 4) { uint32_t i; for (i = 0; i < y; i++) sched_yield (); }
  else usleep (y * 7 % 90);
}

static void *worker (void *arg)
{
  Thr *t = (Thr *) arg;
  int i;
  pthread_barrier_wait (&bar);
  /* an application may rely on the library initialising itself on first use (generated wrappers do): some threads do not call
     orc_init() themselves */
  if (!t->skip_init) orc_init ();
  for (i = 0; i < t->nops && !t->fail[0]; i++) {
    Op *o = &t->ops[i];
    pause_a_bit (o->yield);
    fill (t, o->arg * 31 + (uint32_t) i);
    switch (o->op) {
      case 0: case 1: {                 /* compile, run, free */
        int k = (int) (o->arg % 6), tg = (int) ((o->arg / 6) % 3), take = (int) ((o->arg / 18) % 2);
        OrcProgram *p = kbuild (k);
        OrcCompileResult res = orc_program_compile_for_target (p, orc_target_get_by_name (targets[tg]));
        if (ORC_COMPILE_RESULT_IS_FATAL (res)) { snprintf (t->fail, sizeof t->fail, "compile kernel %d for %s: fatal result 0x%x", k, targets[tg], res); orc_program_free (p); break; }
        if (take) {
          OrcCode *c = orc_program_take_code (p);
          orc_program_free (p);
          run_code (c, t);
          check (t, k, "own code-only function");
          orc_code_free (c);
        } else {
          OrcExecutor ex;
          memset (&ex, 0, sizeof ex);
          orc_executor_set_program (&ex, p);
          orc_executor_set_n (&ex, N);
          orc_executor_set_array (&ex, ORC_VAR_D1, t->d); orc_executor_set_array (&ex, ORC_VAR_S1, t->s1); orc_executor_set_array (&ex, ORC_VAR_S2, t->s2);
          orc_executor_run (&ex);
          check (t, k, "own function");
          orc_program_free (p);
        }
        break;
      }
      case 2: {                         /* shared compiled function */
        int w = (int) (o->arg % 2);
        pthread_once (&shared_once[w], w ? shared_init1 : shared_init0);
        run_code (shared_code[w], t);
        check (t, w ? 2 : 1, "shared function");
        break;
      }
      case 3: case 4: {                 /* once-guarded wrapper */
        int w = (int) (o->arg % 8);
        wrappers[w] (t);
        if (!t->fail[0]) check (t, wrapper_kernel[w], "once-guarded wrapper");
        break;
      }
      default: orc_init (); break;
    }
  }
  __atomic_store_n (&t->done, 1, __ATOMIC_RELEASE);
  return NULL;
}

/* CPU time consumed by the worker threads only (the watching main thread does not count) */
static pthread_t watch_th[16]; static int watch_n;
static double cpu_seconds (void)
{
  double tot = 0;
  int i;
  for (i = 0; i < watch_n; i++) {
    clockid_t cid;
    struct timespec ts;
    if (!pthread_getcpuclockid (watch_th[i], &cid) && !clock_gettime (cid, &ts)) tot += (double) ts.tv_sec + (double) ts.tv_nsec * 1e-9;
  }
  return tot;
}

void vprop_case (VChoices *c, VResult *r)
{
  pthread_t th[16];
  int nt, i, k, used_wrapper[8] = { 0, 0, 0, 0, 0, 0, 0, 0 }, wrapper_threads[8] = { 0, 0, 0, 0, 0, 0, 0, 0 }, compiles = 0, shared = 0, takes = 0, yields = 0;
  uint32_t sel = vc_pick (c, 8);
  nt = sel < 3 ? 2 + (int) vc_pick (c, 3) : sel < 6 ? 4 + (int) vc_pick (c, 5) : 8 + (int) vc_pick (c, 9);
  if (nt > 16) nt = 16;
  memset (thr, 0, sizeof thr);
  v_desc (r, "# C08 %d threads\n", nt);
  for (i = 0; i < nt; i++) {
    Thr *t = &thr[i];
    int seenw[8] = { 0, 0, 0, 0, 0, 0, 0, 0 };
    t->id = i;
    t->nops = 3 + (int) vc_pick (c, 12);
    t->skip_init = vc_pick (c, 3) == 0;
    v_desc (r, "thread %d%s:", i, t->skip_init ? " (no orc_init call of its own)" : "");
    for (k = 0; k < t->nops; k++) {
      t->ops[k].op = vc_pick (c, 6);
      t->ops[k].arg = vc_u32 (c) % 1000;
      t->ops[k].yield = vc_pick (c, 3) == 0 ? vc_pick (c, 12) : 0;
      if (t->ops[k].yield) yields++;
      if (t->ops[k].op <= 1) { compiles++; if ((t->ops[k].arg / 18) % 2) takes++; }
      if (t->ops[k].op == 2) shared++;
      if (t->ops[k].op == 3 || t->ops[k].op == 4) { used_wrapper[t->ops[k].arg % 8] = 1; if (!seenw[t->ops[k].arg % 8]) { seenw[t->ops[k].arg % 8] = 1; wrapper_threads[t->ops[k].arg % 8]++; } }
      v_desc (r, " %s(%u)%s", t->ops[k].op <= 1 ? "compile" : t->ops[k].op == 2 ? "shared" : t->ops[k].op <= 4 ? "wrapper" : "init", t->ops[k].arg, t->ops[k].yield ? "~" : "");
    }
    v_desc (r, "\n");
  }
  pthread_barrier_init (&bar, NULL, (unsigned) nt);
  v_stage (r, "threads running");
  for (i = 0; i < nt; i++) pthread_create (&th[i], NULL, worker, &thr[i]);
  for (i = 0; i < nt; i++) watch_th[i] = th[i];
  watch_n = nt;
  {
    /* deadlock watch: threads that are not done while the process burns no CPU for 8 consecutive seconds are stuck (a loaded
       machine slows the process down but it keeps consuming CPU time) */
    double last = cpu_seconds (), idle = 0;
    struct timespec t0, t1;
    clock_gettime (CLOCK_MONOTONIC, &t0);
    for (;;) {
      int alive = 0;
      for (i = 0; i < nt; i++) if (!__atomic_load_n (&thr[i].done, __ATOMIC_ACQUIRE)) alive++;
      if (!alive) break;
      usleep (2000);
      clock_gettime (CLOCK_MONOTONIC, &t1);
      {
        double now = cpu_seconds (), dt = (double) (t1.tv_sec - t0.tv_sec) + (double) (t1.tv_nsec - t0.tv_nsec) * 1e-9;
        t0 = t1;
        if (now - last < 0.0002) idle += dt; else idle = 0;
        last = now;
      }
      if (idle >= 8.0) {
        v_fail (r, "deadlock", "%d thread(s) never finished and the process used no CPU time for 8 seconds: deadlock", alive);
        fflush (NULL);
        _exit (0);
      }
    }
  }
  for (i = 0; i < nt; i++) pthread_join (th[i], NULL);
  v_stage (r, "joined");
  for (i = 0; i < nt && r->verdict != V_FAIL; i++) if (thr[i].fail[0]) v_fail (r, "thread:wrong-result", "thread %d: %s", i, thr[i].fail);
  for (k = 0; k < 8 && r->verdict != V_FAIL; k++) {
    int n = k < 4 ? atomic_load (&once_inits[k]) : __atomic_load_n (&once99_inits[k - 4], __ATOMIC_SEQ_CST);
    if (used_wrapper[k] && n != 1) v_fail (r, "once:not-exactly-once", "the initialisation block of once-guarded wrapper %d%s ran %d times (called from %d threads)", k, k >= 4 ? " (compiled as C99: __sync implementation of OrcOnce)" : "", n, wrapper_threads[k]);
    if (!used_wrapper[k] && n != 0) v_fail (r, "once:spurious", "wrapper %d was never called but initialised %d times", k, n);
  }
  if (nt >= 4) r->classes |= 1u << 0;
  if (nt >= 8) r->classes |= 1u << 1;
  if (nt == 16) r->classes |= 1u << 2;
  if (compiles >= 2) r->classes |= 1u << 3;
  if (shared >= 2) r->classes |= 1u << 4;
  for (k = 0; k < 8; k++) if (wrapper_threads[k] >= 2) r->classes |= 1u << 5;
  for (k = 4; k < 8; k++) if (wrapper_threads[k] >= 2) r->classes |= 1u << 9;
  if (takes) r->classes |= 1u << 6;
  if (yields) r->classes |= 1u << 7;
  r->nontrivial = compiles >= 2 || (r->classes & (1u << 5)) || shared >= 2;
  r->sub_evals = (uint64_t) (compiles + shared);
  r->sub_nontrivial = r->sub_evals;
  r->hash = v_hash_bytes (0x08, r->desc, r->desc_len);
}
