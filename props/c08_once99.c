/* C08 helper, compiled as -std=gnu99 (tools/runner.py does that for files named *99.c): without C11 atomics <orc/orconce.h> selects
 * its __sync implementation of orc_once_enter/orc_once_leave - the one a C99 application such as GStreamer gets when it compiles
 * orcc's lazy-init wrappers.  Four wrappers written exactly like orcc's output; the build step and the counters live in the C11
 * part of the harness. */
#include <orc/orc.h>
#include <orc/orconce.h>

#if defined(__STDC_VERSION__) && __STDC_VERSION__ >= 201112L
#error "this file has to be compiled as C99"
#endif

OrcCode *c08_once99_get (int k, OrcCode *(*build) (int k), int *inits)
{
  static OrcOnce once[4] = { ORC_ONCE_INIT, ORC_ONCE_INIT, ORC_ONCE_INIT, ORC_ONCE_INIT };
  OrcCode *c;
  if (!orc_once_enter (&once[k], (void **) &c)) {
    __sync_fetch_and_add (&inits[k], 1);
    c = build (k);
    orc_once_leave (&once[k], c);
  }
  return c;
}
