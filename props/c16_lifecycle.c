/* C16 - object lifecycle: every resource is released exactly once.
 *
 * case = a legal sequence of lifecycle operations over 6 program slots (an ownership model inside the harness only issues
 *        legal operations): new program (valid / with an invalid operand / with an unknown opcode), compile for a target
 *        (avx, sse, mmx, c, no target), recompile, take code, reset, run attached, run code-only, emulate, free program,
 *        free code, parse text (good or bad) and free what it returned.
 * oracle (ASan build): no use-after-free / double free / invalid free (ASan aborts), no leak at the end of the sequence
 *        (LeakSanitizer recoverable check), number of used code chunks == number of live code objects holding one (walker hook),
 *        a taken code object still computes the emulation result after its program is freed.
 * The "long loop" cases (first choice 3) repeat compile/run/free and compile/take/free 3000 times and compare the heap in use
 * (mallinfo2) and the region count after the first and the last third.
 */
#include "../engine/prog.h"
#include "../engine/tramp.h"
#include <stdlib.h>
#include <malloc.h>
#include <orc/orcparse.h>

#if defined(__has_feature)
#if __has_feature(address_sanitizer)
#define HAVE_LSAN 1
int __lsan_do_recoverable_leak_check (void);
size_t __sanitizer_get_current_allocated_bytes (void);
#endif
#endif
static size_t heap_in_use (void)
{
#ifdef HAVE_LSAN
  return __sanitizer_get_current_allocated_bytes ();
#else
  struct mallinfo2 mi = mallinfo2 ();
  return mi.uordblks;
#endif
}

const char *vprop_id = "C16";
int vprop_fork = 1;
int vprop_cpu_limit_s = 60;
const char *vprop_class_names[V_NCLASS] = {
  "failed_compile_then_reuse", "take_code_then_recompile", "code_only_run_after_program_free", "reset", "parse_and_free",
  "fatal_program", "long_loop", "ops_ge_20", "renamed_twice", "compiled_then_made_invalid", "orc_parse_full", NULL
};

typedef void (*WalkFn) (void *user, int region_index, void *write_ptr, void *exec_ptr, int region_size,
    int chunk_offset, int chunk_size, int chunk_used, void *chunk);
void orc_verif_codemem_walk (WalkFn fn, void *user);
static int used_chunks, n_regions;
static void walk_cb (void *user, int ri, void *wp, void *xp, int rsize, int off, int size, int used, void *chunk)
{
  (void) user; (void) wp; (void) xp; (void) rsize; (void) off; (void) size; (void) chunk;
  if (used) used_chunks++;
  if (ri + 1 > n_regions) n_regions = ri + 1;
}

void vprop_init (int argc, char **argv) { (void) argc; (void) argv; orc_init (); }
uint64_t vprop_enum_count (const char *tier) { (void) tier; return 4; }
size_t vprop_enum_stream (uint64_t i, uint32_t *out, size_t max) { (void) max; out[0] = 3; out[1] = (uint32_t) i; return 2; }

#define NSLOT 4
typedef struct {
  OrcProgram *p; ProgSpec ps; int valid;        /* valid: built from a well-typed spec */
  int compiled_native;                         /* code_exec points to native code owned by p->orccode */
  int has_code;                                /* p->orccode != NULL */
  OrcCode *taken; ProgSpec tps; int taken_valid, taken_native, taken_not_executable;            /* code object taken from this slot's program (program may be freed) */
  int not_executable;
  int sticky_error;                            /* a failed compile leaves an error that stays until reset (documented) */
  int code_exec_dangling;                      /* program's code_exec refers to code it no longer owns */
} Slot;

static const char *tnames[5] = { "avx", "sse", "mmx", "c", NULL };

static int chunks_expected (Slot *s)
{
  int i, n = 0;
  for (i = 0; i < NSLOT; i++) {
    if (s[i].p && s[i].p->orccode && s[i].p->orccode->chunk) n++;
    if (s[i].taken && s[i].taken->chunk) n++;
  }
  return n;
}

static int run_and_check (OrcProgram *p, OrcCode *code, ProgSpec *ps, VChoices *c, int emulate_only, char *msg, size_t max)
{
  static RunCfg rc;
  RunOpts ro;
  Arena a1, a2;
  OrcExecutor e1, e2;
  int bad = 0;
  memset (&ro, 0, sizeof ro);
  ro.n_max = 40; ro.m_max = 2; ro.placement_mask = 1;
  rc_generate (c, ps, &ro, &rc);
  if (arena_build (&a1, ps, &rc, 0) || arena_build (&a2, ps, &rc, 0)) { arena_free (&a1); arena_free (&a2); return 0; }
  exec_setup (&e1, p, code, ps, &rc, &a1);
  exec_setup (&e2, p, code, ps, &rc, &a2);
  if (emulate_only) orc_executor_emulate (&e1);
  else if (p) v_shielded_call ((void *) (p->code_exec ? p->code_exec : (void *) orc_executor_emulate), &e1);
  else v_shielded_call ((void *) (code->exec ? (void *) code->exec : (void *) orc_executor_emulate), &e1);
  orc_executor_emulate (&e2);
  if (!ps->has_float && arena_compare (&a1, &a2, ps, &rc, &e1, &e2, msg, max)) bad = 1;
  arena_free (&a1); arena_free (&a2);
  return bad;
}

static void long_loop (int variant, VResult *r)
{
  ProgSpec ps;
  size_t heap_a = 0, heap_b = 0;
  int i, regions_a = 0, regions_b = 0, iters = 3000;
  OrcTarget *t = orc_target_get_by_name (variant & 1 ? "sse" : "avx");
  ps_single (v_op_find ("addw"), 0, &ps);
  v_desc (r, "# C16 long loop variant %d: %d x (build, compile for %s, %s, free everything)\n", variant, iters, variant & 1 ? "sse" : "avx", variant & 2 ? "take code, free program" : "run");
  for (i = 0; i < iters; i++) {
    OrcProgram *p = ps_build (&ps);
    OrcCompileResult res = orc_program_compile_for_target (p, t);
    if (variant & 2) {
      OrcCode *code = orc_program_take_code (p);
      orc_program_free (p);
      if (code) orc_code_free (code);
    } else {
      orc_int16 d[8], a[8] = { 1, 2, 3, 4, 5, 6, 7, 8 }, b[8] = { 8, 7, 6, 5, 4, 3, 2, 1 };
      OrcExecutor ex;
      memset (&ex, 0, sizeof ex);
      orc_executor_set_program (&ex, p);
      ex.n = 8; ex.arrays[ORC_VAR_D1] = d; ex.arrays[ORC_VAR_S1] = a; ex.arrays[ORC_VAR_S2] = b;
      if (ORC_COMPILE_RESULT_IS_SUCCESSFUL (res)) v_shielded_call (p->code_exec, &ex);
      orc_program_free (p);
    }
    if (i == iters / 3 || i == iters - 1) {
      size_t inuse = heap_in_use ();
      used_chunks = 0; n_regions = 0; orc_verif_codemem_walk (walk_cb, NULL);
      if (i == iters / 3) { heap_a = inuse; regions_a = n_regions; } else { heap_b = inuse; regions_b = n_regions; }
      if (used_chunks != 0) { v_fail (r, "loop:chunks-not-returned", "%d code chunks still marked used after iteration %d although every function was freed", used_chunks, i); return; }
    }
  }
  v_desc (r, "# heap in use after iteration %d: %zu bytes, after iteration %d: %zu bytes; regions %d -> %d\n", iters / 3, heap_a, iters - 1, heap_b, regions_a, regions_b);
  if (heap_b > heap_a + 4096) v_fail (r, "loop:heap-grows", "heap in use grew from %zu to %zu bytes between iteration %d and %d", heap_a, heap_b, iters / 3, iters - 1);
  if (regions_b > regions_a) v_fail (r, "loop:regions-grow", "code regions grew from %d to %d with an empty working set", regions_a, regions_b);
  r->classes |= 1u << 6;
  r->nontrivial = 1;
  r->hash = 0x16000 + (uint64_t) variant;
  r->sub_evals = (uint64_t) iters;
}

void vprop_case (VChoices *c, VResult *r)
{
  static Slot s[NSLOT];
  char msg[1200];
  int nops, i, k;
  uint32_t mode = vc_pick (c, 4);
  if (mode == 3 && c->n <= 2) { long_loop ((int) vc_pick (c, 4), r); return; }
  memset (s, 0, sizeof s);
  nops = 80;                    /* the history ends when the choice stream does */
  v_desc (r, "# C16 lifecycle sequence\n");
  for (i = 0; i < nops && c->pos < c->n && r->verdict != V_FAIL; i++) {
    int slot = (int) vc_pick (c, NSLOT);
    uint32_t op, legal[16], nl = 0;
    Slot *x = &s[slot];
    /* only legal operations are offered (construction, not rejection) */
    if (!x->p) legal[nl++] = 0;
    if (x->p) { legal[nl++] = 1; legal[nl++] = 2; legal[nl++] = 5; legal[nl++] = 9; }
    if (x->p && x->p->orccode && !x->taken) { legal[nl++] = 4; legal[nl++] = 4; }
    if (x->p && x->valid && x->has_code && !x->code_exec_dangling && !x->not_executable) legal[nl++] = 6;
    if (x->p && x->valid && x->has_code) legal[nl++] = 7;
    if (x->taken && x->taken_valid && !x->taken_not_executable) { legal[nl++] = 8; legal[nl++] = 8; }
    if (x->taken) legal[nl++] = 10;
    legal[nl++] = 11;
    op = legal[vc_pick (c, nl)];
    switch (op) {
      case 0: {                         /* new program */
        GenOpts go;
        uint32_t kraw = vc_u32 (c), kind = kraw % 8;
        if (x->p) break;
        gen_opts_default (&go);
        go.allow_float = 0; go.allow_special_loads = 0; go.allow_acc = 0; go.max_insns = 12;
        if (kind < 5) {                 /* cheap: a single-instruction program (keeps the history long) */
          const VOp *op = &v_optab[vc_pick (c, (uint32_t) v_noptab)];
          if (op->flags & (VOP_LOAD | VOP_STORE | VOP_ACC | VOP_FSRC | VOP_FDEST)) op = v_op_find ("addw");
          ps_single (op, (int) vc_pick (c, (uint32_t) ps_single_forms (op)), &x->ps);
        } else
          ps_generate (c, &go, &x->ps, r);
        snprintf (x->ps.name, sizeof x->ps.name, "slot%d_%d", slot, i);
        x->p = ps_build (&x->ps);
        x->valid = 1; x->sticky_error = 0; x->compiled_native = 0; x->has_code = 0; x->code_exec_dangling = 0;
        if (vc_chance (c, 1, 4)) {
          /* renaming is legal at any time before compiling: program name, backup name and an array's type name, each set twice */
          int q;
          orc_program_set_name (x->p, "renamed_once"); orc_program_set_name (x->p, x->ps.name);
          orc_program_set_backup_name (x->p, "backup_a"); orc_program_set_backup_name (x->p, "backup_b");
          for (q = 0; q < x->ps.nvars; q++) if (x->ps.vars[q].kind == VK_SRC || x->ps.vars[q].kind == VK_DEST) {
            orc_program_set_type_name (x->p, x->ps.vars[q].orcvar, "orc_uint8");
            orc_program_set_type_name (x->p, x->ps.vars[q].orcvar, "guint8");
            break;
          }
          r->classes |= 1u << 8;
        }
        if (kind >= 6 && (kraw / 8) % 2 == 1) {
          /* the program is compiled while it is still valid and only then gets its bad instruction: the next compilation is
             fatal and has to drop the code of this one (upper bits of the same choice: earlier streams decode as before) */
          OrcCompileResult r0 = orc_program_compile_full (x->p, orc_target_get_by_name ("sse"), orc_target_get_default_flags (orc_target_get_by_name ("sse")));
          x->has_code = x->p->orccode != NULL;
          x->compiled_native = ORC_COMPILE_RESULT_IS_SUCCESSFUL (r0);
          r->classes |= 1u << 9;
        }
        if (kind == 6) { orc_program_append_str (x->p, "addb", "nosuchvar", "d1", "d1"); x->valid = 0; r->classes |= 1u << 5; }
        if (kind == 7) { orc_program_append (x->p, "nosuchopcode", 0, 4, 5); x->valid = 0; r->classes |= 1u << 5; }
        v_desc (r, "op %d: new program in slot %d (%d insns%s)\n", i, slot, x->ps.nins, x->valid ? "" : ", deliberately invalid");
        break;
      }
      case 1: case 2: case 3: {         /* compile / recompile */
        int t = (int) vc_pick (c, 5);
        OrcCompileResult res;
        if (!x->p) break;
        v_stage (r, "compile slot %d for %s", slot, tnames[t] ? tnames[t] : "(no target)");
        if (x->taken && !x->p->orccode) r->classes |= 1u << 1;
        res = orc_program_compile_full (x->p, tnames[t] ? orc_target_get_by_name (tnames[t]) : NULL,
            tnames[t] ? orc_target_get_default_flags (orc_target_get_by_name (tnames[t])) : 0);
        x->has_code = x->p->orccode != NULL;
        x->compiled_native = ORC_COMPILE_RESULT_IS_SUCCESSFUL (res) && t < 3;
        x->code_exec_dangling = 0;
        v_desc (r, "op %d: compile slot %d for %s -> %s\n", i, slot, tnames[t] ? tnames[t] : "none", v_result_name (res));
        if (ORC_COMPILE_RESULT_IS_FATAL (res) && x->valid && !x->sticky_error) { v_fail (r, "valid-program-fatal", "well-typed program got a fatal compile result %s", v_result_name (res)); }
        if (ORC_COMPILE_RESULT_IS_FATAL (res) && x->p->orccode) v_fail (r, "fatal-result-keeps-code", "compile returned the fatal result %s but the program still has a code object attached (left over from an earlier compilation)", v_result_name (res));
        if (!ORC_COMPILE_RESULT_IS_SUCCESSFUL (res)) { r->classes |= 1u << 0; x->sticky_error = 1; }
        x->not_executable = ORC_COMPILE_RESULT_IS_SUCCESSFUL (res) && t == 3;   /* the C target's "code" is source text */
        break;
      }
      case 4:                           /* take code */
        if (!x->p || !x->p->orccode || x->taken) break;
        x->taken = orc_program_take_code (x->p);
        x->taken_native = x->compiled_native; x->taken_not_executable = x->not_executable; x->tps = x->ps; x->taken_valid = x->valid;
        x->has_code = 0; x->code_exec_dangling = 1;
        v_desc (r, "op %d: take code of slot %d\n", i, slot);
        break;
      case 5:                           /* reset */
        if (!x->p) break;
        v_stage (r, "reset slot %d", slot);
        orc_program_reset (x->p);
        x->has_code = 0; x->compiled_native = 0; x->code_exec_dangling = 1; x->sticky_error = 0;
        r->classes |= 1u << 3;
        v_desc (r, "op %d: reset slot %d\n", i, slot);
        break;
      case 6:                           /* run attached (only while the program owns what code_exec points to) */
        if (!x->p || !x->valid || !x->has_code || x->code_exec_dangling || x->not_executable) break;
        v_stage (r, "run attached slot %d", slot);
        if (run_and_check (x->p, NULL, &x->ps, c, 0, msg, sizeof msg)) v_fail (r, "wrong-result", "slot %d run through its program: %s", slot, msg);
        v_desc (r, "op %d: run slot %d attached\n", i, slot);
        break;
      case 7:                           /* emulate attached */
        if (!x->p || !x->valid || !x->has_code) break;
        v_stage (r, "emulate slot %d", slot);
        if (run_and_check (x->p, NULL, &x->ps, c, 1, msg, sizeof msg)) v_fail (r, "wrong-result", "slot %d emulated: %s", slot, msg);
        break;
      case 8:                           /* run code-only */
        if (!x->taken || !x->taken_valid || x->taken_not_executable) break;
        v_stage (r, "run code-only slot %d", slot);
        if (!x->p) r->classes |= 1u << 2;
        if (run_and_check (NULL, x->taken, &x->tps, c, 0, msg, sizeof msg)) v_fail (r, "wrong-result", "taken code of slot %d%s: %s", slot, x->p ? "" : " after its program was freed", msg);
        v_desc (r, "op %d: run taken code of slot %d (program %s)\n", i, slot, x->p ? "alive" : "freed");
        break;
      case 9:                           /* free program */
        if (!x->p) break;
        v_stage (r, "free program slot %d", slot);
        orc_program_free (x->p);
        x->p = NULL; x->has_code = 0;
        v_desc (r, "op %d: free program of slot %d\n", i, slot);
        break;
      case 10:                          /* free taken code */
        if (!x->taken) break;
        v_stage (r, "free code slot %d", slot);
        orc_code_free (x->taken);
        x->taken = NULL;
        v_desc (r, "op %d: free taken code of slot %d\n", i, slot);
        break;
      default: {                        /* parse text and free everything it returned */
        static char text[20000];
        ProgSpec tmp;
        GenOpts go;
        OrcProgram **progs = NULL;
        OrcParseError **errs = NULL;
        int np = 0, ne = 0, len;
        gen_opts_default (&go);
        go.max_insns = 8;
        if (vc_chance (c, 3, 4)) {
          const VOp *op = &v_optab[vc_pick (c, (uint32_t) v_noptab)];
          ps_single (op, (int) vc_pick (c, (uint32_t) ps_single_forms (op)), &tmp);
        } else
          ps_generate (c, &go, &tmp, r);
        len = ps_sprint_orc (&tmp, text, sizeof text - 200);
        {
          uint32_t braw = vc_u32 (c);
          if (braw % 3 >= 2) snprintf (text + len, 200, "frobnicate d1, s1\n.source 1\naddb d1\n");
          v_stage (r, "parse and free");
          if ((braw / 3) % 3 == 1) {
            /* the older entry point: programs plus one log string */
            char *log = NULL;
            np = orc_parse_full (text, &progs, &log);
            free (log);
            r->classes |= 1u << 10;
          } else
            orc_parse_code (text, &progs, &np, &errs, &ne);
        }
        for (k = 0; k < np; k++) { if (vc_chance (c, 1, 2)) orc_program_compile (progs[k]); orc_program_free (progs[k]); }
        free (progs);
        orc_parse_error_freev (errs);
        r->classes |= 1u << 4;
        v_desc (r, "op %d: parse (%d programs, %d errors) and free\n", i, np, ne);
        break;
      }
    }
    if (r->verdict == V_FAIL) break;
    used_chunks = 0; n_regions = 0;
    orc_verif_codemem_walk (walk_cb, NULL);
    if (used_chunks != chunks_expected (s)) v_fail (r, "chunk-accounting", "after operation %d: %d code chunks are in use but %d live code objects hold one", i, used_chunks, chunks_expected (s));
    r->sub_evals++;
  }
  v_stage (r, "final free");
  for (k = 0; k < NSLOT; k++) {
    if (s[k].p) orc_program_free (s[k].p);
    if (s[k].taken) orc_code_free (s[k].taken);
    s[k].p = NULL; s[k].taken = NULL;
  }
  if (r->verdict != V_FAIL) {
    used_chunks = 0; n_regions = 0;
    orc_verif_codemem_walk (walk_cb, NULL);
    if (used_chunks != 0) v_fail (r, "chunk-accounting", "%d code chunks still in use after everything was freed", used_chunks);
  }
#ifdef HAVE_LSAN
  v_stage (r, "leak check");
  if (r->verdict != V_FAIL && __lsan_do_recoverable_leak_check ()) v_fail (r, "leak", "LeakSanitizer reports memory that is no longer referenced after the sequence freed everything");
#endif
  if (i >= 20) r->classes |= 1u << 7;
  r->nontrivial = (r->classes & 7u) != 0;
  r->hash = v_hash_bytes (0x16, r->desc, r->desc_len);
  r->sub_nontrivial = r->sub_evals;
}
