/* C04 - the C source Orc generates computes what emulation computes.
 *
 * case = generated program (full generator: every opcode, floats, 64-bit, constants, int/float/int64/double parameters,
 *        2-D, accumulators, x2/x4, special loads) x C-target form {complete function, bare executor body (orcc's _backup_
 *        function), bare NOEXEC body over named arguments (orcc's DISABLE_ORC function)} x C compiler optimisation level
 *        x 1..6 run configurations (n, m, strides, misalignment, fills, parameter values).
 * oracle = the text from orc_program_get_asm_code() for target "c", laid out as orcc lays out an implementation file, is
 *        compiled by gcc, loaded, and run on one arena; orc_executor_emulate runs on an identical arena; destination
 *        bytes and accumulators must be identical and nothing outside the entitled destination elements may change.
 *        A source gcc rejects is a violation too ("once compiled by a C compiler").
 * enumerated case 0 = the checked-in orc/orcemulateopcodes.c/.h equal what tools/generate-emulation writes now.
 */
#include "../engine/cgen.h"
#include "../engine/refprog.h"
#include "../engine/tramp.h"
#include <stdlib.h>
#include <unistd.h>

const char *vprop_id = "C04";
int vprop_fork = 1;
int vprop_cpu_limit_s = 60;
const char *vprop_class_names[V_NCLASS] = {
  "form_full", "form_bare", "form_noexec", "float", "has_64bit", "two_d", "accumulator", "x2_x4", "special_load",
  "params", "O0", "O2", "O3", "single_opcode", "const_n", "emulator_regenerated", "difference_within_nan_or_zero_tie_freedom",
  "float_difference_reference_unsupported", "variable_classes_filled_to_limit", "optimising_gcc_alone_disagrees_tool_miscompilation", NULL
};

void vprop_init (int argc, char **argv) { (void) argc; (void) argv; orc_init (); }
uint64_t vprop_enum_count (const char *tier) { (void) tier; return 1; }
size_t vprop_enum_stream (uint64_t i, uint32_t *out, size_t max) { (void) i; (void) max; out[0] = 0xE0E0E0E0u; return 1; }

static int files_differ (const char *a, const char *b, char *msg, size_t max)
{
  FILE *fa = fopen (a, "r"), *fb = fopen (b, "r");
  char la[4096], lb[4096];
  int line = 0;
  if (!fa || !fb) { snprintf (msg, max, "cannot open %s or %s", a, b); if (fa) fclose (fa); if (fb) fclose (fb); return 2; }
  for (;;) {
    char *ra = fgets (la, sizeof la, fa), *rb = fgets (lb, sizeof lb, fb);
    line++;
    if (!ra && !rb) break;
    if (!ra || !rb || strcmp (la, lb)) {
      snprintf (msg, max, "line %d: checked-in '%.120s' vs regenerated '%.120s'", line, ra ? la : "<eof>", rb ? lb : "<eof>");
      fclose (fa); fclose (fb);
      return 1;
    }
  }
  fclose (fa); fclose (fb);
  return 0;
}

static void emulator_check (VResult *r)
{
  const char *gen = v_arg ("genemu", NULL), *repo = v_arg ("repo", "/repo"), *scratch = v_arg ("scratch", "/verif/_work/scratch");
  char cmd[1200], out[500], ref[500], msg[600];
  static const char *kinds[2][3] = { { "", "orcemulateopcodes.c", "source" }, { "--header", "orcemulateopcodes.h", "header" } };
  int k;
  v_desc (r, "# regenerate orc/orcemulateopcodes.c and .h with tools/generate-emulation and compare with the checked-in files\n");
  if (!gen) { r->verdict = V_DISCARD; return; }
  for (k = 0; k < 2; k++) {
    snprintf (out, sizeof out, "%s/regen-%d-%s", scratch, (int) getpid (), kinds[k][1]);
    snprintf (cmd, sizeof cmd, "%s %s -o %s", gen, kinds[k][0], out);
    v_stage (r, "generate-emulation %s", kinds[k][2]);
    if (system (cmd) != 0) { v_fail (r, "emulator:generator-failed", "command failed: %s", cmd); return; }
    snprintf (ref, sizeof ref, "%s/orc/%s", repo, kinds[k][1]);
    if (files_differ (ref, out, msg, sizeof msg)) {
      unlink (out);
      v_fail (r, "emulator:drift", "orc/%s is not what the C generator produces from the current opcode definitions: %s", kinds[k][1], msg);
      return;
    }
    unlink (out);
  }
  r->classes |= 1u << 15;
  r->nontrivial = 1;
  r->hash = 0xE0E0;
  r->sub_evals = 2;
}

void vprop_case (VChoices *c, VResult *r)
{
  static ProgSpec ps;
  static RunCfg rc;
  static const char *opts[4] = { "-O0", "-O2", "-O2", "-O3" };
  GenOpts go;
  RunOpts ro;
  OrcProgram *p;
  CgUnit u;
  char msg[1200], sig[V_SIG_MAX];
  const char *scratch = v_arg ("scratch", "/verif/_work/scratch");
  int variant, opt, single, nruns, i, rcg;
  uint64_t h;

  if (c->n >= 1 && c->v[0] == 0xE0E0E0E0u) { emulator_check (r); return; }
  variant = (int) vc_pick (c, CG_NVARIANTS);
  opt = (int) vc_pick (c, 4);
  gen_opts_default (&go);
  go.allow_float = 1;
  single = vc_pick (c, 3) == 0;
  if (single) {
    go.single_opcode = (int) vc_pick (c, (uint32_t) v_noptab);
    go.single_form = (int) vc_pick (c, (uint32_t) ps_single_forms (&v_optab[go.single_opcode]));
  }
  ps_generate (c, &go, &ps, r);
  v_desc (r, "# C04 form=%s cc=gcc %s\n", cg_variant_name (variant), opts[opt]);
  ps_print (&ps, r);
  h = ps_hash (&ps) ^ (uint64_t) variant * 0x9e3779b9u ^ (uint64_t) opt << 40;
  if (ps.const_two_lanes && v_excluded ("const-two-lane-sizes")) { r->excluded++; r->verdict = V_DISCARD; return; }

  v_stage (r, "@notmine: compile for the C target");
  p = ps_build (&ps);
  rcg = cg_make (p, &ps, variant, opts[opt], scratch, &u);
  v_stage (r, "after cg_make");
  if (rcg == 1) { v_desc (r, "# C target result: %s\n", u.err); r->verdict = V_DISCARD; r->hash = h; orc_program_free (p); return; }
  if (rcg == 3) { v_desc (r, "# environment: %s\n", u.err); r->verdict = V_DISCARD; orc_program_free (p); return; }
  if (rcg == 2) {
    char first[200];
    const char *e = strstr (u.err, "error");
    snprintf (first, sizeof first, "%.150s", e ? e : u.err);
    for (i = 0; first[i]; i++) if (first[i] == '\n') { first[i] = 0; break; }
    snprintf (sig, sizeof sig, "c-compiler-rejects form=%s", cg_variant_name (variant));
    v_fail (r, sig, "gcc rejects the generated C source (%s): %s", cg_variant_name (variant), first);
    if (v_arg ("dump", NULL)) { FILE *f = fopen (v_arg ("dump", NULL), "w"); if (f) { fputs (u.source ? u.source : "", f); fclose (f); } }
    cg_close (&u); orc_program_free (p);
    return;
  }
  if (v_arg ("dump", NULL)) { FILE *f = fopen (v_arg ("dump", NULL), "w"); if (f) { fputs (u.source, f); fclose (f); } }

  memset (&ro, 0, sizeof ro);
  ro.n_max = 70; ro.m_max = 4; ro.placement_mask = 1; ro.big_n = 3000; ro.huge_n = 1;
  nruns = 1 + (int) vc_pick (c, 6);
  for (i = 0; i < nruns; i++) {
    Arena ac, ae;
    OrcExecutor exc, exe;
    rc_generate (c, &ps, &ro, &rc);
    if (arena_build (&ac, &ps, &rc, 0) || arena_build (&ae, &ps, &rc, 0)) { arena_free (&ac); arena_free (&ae); continue; }
    exec_setup (&exc, p, NULL, &ps, &rc, &ac);
    exec_setup (&exe, p, NULL, &ps, &rc, &ae);
    v_stage (r, "run compiled C");
    u.fn (&exc);
    v_stage (r, "emulate");
    orc_executor_emulate (&exe);
    v_stage (r, "compare");
    {
      /* float programs: NaN payloads and +-0 ties of min/max are not pinned down by the C language or by the properties;
         the independent reference says which elements those freedoms reach */
      int differ = arena_compare (&ac, &ae, &ps, &rc, &exc, &exe, msg, sizeof msg);
      if (differ && ps.has_float) {
        Arena ap;
        static RefOut ref;
        if (!arena_build (&ap, &ps, &rc, 0)) {
          if (refprog_run (&ps, &rc, &ap, &ref) == 0) {
            differ = refprog_diff (&ps, &rc, &ref, &ac, &exc, &ae, &exe, msg, sizeof msg, NULL);
            if (!differ) r->classes |= 1u << 16;
          } else { differ = 0; r->classes |= 1u << 17; }
          refprog_free (&ref, &ps);
          arena_free (&ap);
        }
      }
      if (!differ) msg[0] = 0;
    }
    if (msg[0] && opt != 0) {
      /* Whose mistake?  The same source is compiled three more ways and run on the same inputs: gcc -O0, clang -O2, and gcc -O1 with
         UBSan trapping.  If the two other builds agree with emulation and UBSan finds no undefined behaviour on this input, the
         optimising gcc build is the odd one out: a miscompilation by the tool (gcc 12.2 -O3 loop distribution was seen to move a
         memset of an in-place destination in front of the loop that still reads it), counted and not judged.  Anything else - another
         build differs too, or the source has undefined behaviour here - stays a violation. */
      static const char *alts[3] = { "-O0", "clang:-O2", "-O1 -fsanitize=undefined -fno-sanitize-recover=undefined -fsanitize-undefined-trap-on-error" };
      int a, agree = 0;
      for (a = 0; a < 3; a++) {
        CgUnit u2;
        Arena a2, e2;
        OrcExecutor x2, y2;
        char m2[600];
        OrcProgram *p2 = ps_build (&ps);
        int ok = 0;
        if (cg_make (p2, &ps, variant, alts[a], scratch, &u2) == 0) {
          if (!arena_build (&a2, &ps, &rc, 0) && !arena_build (&e2, &ps, &rc, 0)) {
            pid_t pid;
            int st = 0;
            exec_setup (&x2, p2, NULL, &ps, &rc, &a2);
            exec_setup (&y2, p2, NULL, &ps, &rc, &e2);
            fflush (NULL);
            pid = fork ();              /* the UBSan build traps: keep that away from this process */
            if (pid == 0) {
              u2.fn (&x2);
              orc_executor_emulate (&y2);
              _exit (arena_compare (&a2, &e2, &ps, &rc, &x2, &y2, m2, sizeof m2) ? 1 : 0);
            }
            if (pid > 0 && waitpid (pid, &st, 0) == pid && WIFEXITED (st) && WEXITSTATUS (st) == 0) ok = 1;
          }
          arena_free (&a2); arena_free (&e2);
          cg_close (&u2);
        }
        orc_program_free (p2);
        if (ok) agree++;
      }
      if (agree == 3) {       /* (float programs too: the three other builds were compared with emulation bit for bit) */
        v_desc (r, "# gcc %s disagrees with emulation (%s) but gcc -O0, clang -O2 and a UBSan build of the same source agree with it: compiler, not source\n", opts[opt], msg);
        r->classes |= 1u << 19;
        msg[0] = 0;
      }
    }
    if (msg[0]) {
      snprintf (sig, sizeof sig, "c-vs-emulation form=%s first_op=%s", cg_variant_name (variant), ps.ins[0].op->name);
      rc_print (&ps, &rc, r);
      v_fail (r, sig, "gcc %s-compiled generated C != emulation: %s", opts[opt], msg);
    } else if (arena_check_untouched (&ac, &ps, &rc, msg, sizeof msg)) {
      snprintf (sig, sizeof sig, "c-stray-write form=%s first_op=%s", cg_variant_name (variant), ps.ins[0].op->name);
      rc_print (&ps, &rc, r);
      v_fail (r, sig, "compiled generated C changed memory it is not entitled to: %s", msg);
    }
    arena_free (&ac); arena_free (&ae);
    r->sub_evals++;
    h = v_hash_bytes (h, &rc.n, sizeof rc.n);
    if (r->verdict == V_FAIL) break;
  }
  r->classes |= 1u << variant;
  if (ps.has_float) r->classes |= 1u << 3;
  if (ps.has_64) r->classes |= 1u << 4;
  if (ps.is2d) r->classes |= 1u << 5;
  if (ps.has_acc) r->classes |= 1u << 6;
  if (ps.has_x) r->classes |= 1u << 7;
  if (ps.has_special_load) r->classes |= 1u << 8;
  if (ps.count[VK_PARAM]) r->classes |= 1u << 9;
  r->classes |= opt == 0 ? 1u << 10 : opt == 3 ? 1u << 12 : 1u << 11;
  if (single) r->classes |= 1u << 13;
  if (ps.const_n) r->classes |= 1u << 14;
  if (ps.saturated) r->classes |= 1u << 18;
  r->nontrivial = r->sub_evals > 0;
  r->sub_nontrivial = r->sub_evals;
  r->hash = h;
  cg_close (&u);
  orc_program_free (p);
}
