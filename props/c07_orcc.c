/* C07 - what orcc generates works end to end through its C prototype.
 *
 * generated stage: case = a .orc file with 1..3 generated functions (full generator: 2-D, strides, accumulators, int / float /
 *   64-bit / double parameters, constants, x2/x4, special loads) x orcc options {lazy init | --init-function, --compat none /
 *   0.4.8 (construction by API calls) / 0.4.14.1 / 0.4.30 (byte-code based construction), --no-backup, --inline} x run mode {JIT, ORC_CODE=backup,
 *   ORC_CODE=emulate, -DDISABLE_ORC build}.  The harness runs `orcc --implementation` and `orcc --header`, compiles the
 *   implementation together with a generated caller (which includes the generated header and calls every function through its C
 *   prototype: array pointers, strides, parameters by value, n, m, accumulator out-pointers) with gcc into a shared object,
 *   loads it, and calls each function 1..3 times on guarded arenas.
 * oracle: orcc exits 0 for both files; gcc accepts both; each call leaves exactly the destination bytes and accumulator values that
 *   orc_executor_emulate leaves for the API-built twin of the function on an identical arena (float programs: under the NaN /
 *   +-0 freedoms of the reference interpreter), and nothing outside the entitled destination elements changes.
 * enumerated stage: orc_memcpy / orc_memset (the library's own orcc output) for every length 0..260 x source and destination
 *   misalignment 0..15 x fill byte, in the JIT, backup and emulate modes, against memcpy / memset on guarded buffers.
 */
#include "../engine/prog.h"
#include "../engine/refprog.h"
#include "../engine/tramp.h"
#include <stdlib.h>
#include <unistd.h>
#include <dlfcn.h>
#include <sys/wait.h>
#include <sys/mman.h>

const char *vprop_id = "C07";
int vprop_fork = 1;
int vprop_cpu_limit_s = 60;
const char *vprop_class_names[V_NCLASS] = {
  "mode_jit", "mode_backup", "mode_emulate", "mode_disable_orc", "lazy_init", "init_function", "compat_bytecode", "compat_old", "no_backup",
  "inline", "multi_function", "two_d", "accumulators", "typed_params", "float_ops", "memcpy_memset", "difference_within_float_freedom", "refused_by_compat_level", "first_use_without_orc_init", "variable_classes_filled_to_limit", "refused_c_target_register_limit", "backup_directive", "orcc_test_mode", NULL
};

void vprop_init (int argc, char **argv) { (void) argc; (void) argv; /* orc_init happens in the child: ORC_CODE is read there */ }
/* enumerated: mode (3) x destination misalignment (16) */
/* enumerated: orc_memcpy/orc_memset: mode (3) x destination misalignment (16); then "first use": 3 modes x {lazy, --init-function} */
#define N_TESTMODE 16
uint64_t vprop_enum_count (const char *tier) { (void) tier; return 3 * 16 + 6 + 4 * 2 + N_TESTMODE; }    /* + the .backup directive: 4 files x {orc build, DISABLE_ORC build} */
size_t vprop_enum_stream (uint64_t i, uint32_t *out, size_t max)
{
  (void) max;
  if (i >= 62) { out[0] = 0xC7C7C7CAu; out[1] = (uint32_t) (i - 62); return 2; }
  if (i >= 54) { out[0] = 0xC7C7C7C9u; out[1] = (uint32_t) ((i - 54) / 2); out[2] = (uint32_t) ((i - 54) % 2); return 3; }
  if (i >= 48) { out[0] = 0xC7C7C7C8u; out[1] = (uint32_t) ((i - 48) / 2); out[2] = (uint32_t) ((i - 48) % 2); return 3; }
  out[0] = 0xC7C7C7C7u; out[1] = (uint32_t) (i / 16); out[2] = (uint32_t) (i % 16); return 3;
}

static const char *cg_varnames[48] = {
  "d1", "d2", "d3", "d4", "s1", "s2", "s3", "s4", "s5", "s6", "s7", "s8", "a1", "a2", "a3", "d4",
  "c1", "c2", "c3", "c4", "c5", "c6", "c7", "c8", "p1", "p2", "p3", "p4", "p5", "p6", "p7", "p8",
  "t1", "t2", "t3", "t4", "t5", "t6", "t7", "t8", "t9", "t10", "t11", "t12", "t13", "t14", "t15", "t16"
};

static int run_cmd (const char *cmd, char *err, size_t max, const char *errfile)
{
  int st = system (cmd);
  FILE *f = fopen (errfile, "r");
  err[0] = 0;
  if (f) { size_t k = fread (err, 1, max - 1, f); err[k] = 0; fclose (f); }
  return (st == -1 || !WIFEXITED (st)) ? -1 : WEXITSTATUS (st);
}

/* ---- orc_memcpy / orc_memset ---- */
static void memfuncs (VResult *r, int mode, int dalign)
{
  static const char *modes[3] = { NULL, "backup", "emulate" };
  unsigned char *src, *dst, *ref;
  int n, salign, k;
  size_t page = 4096, len = 3 * page;
  if (modes[mode]) setenv ("ORC_CODE", modes[mode], 1); else unsetenv ("ORC_CODE");
  orc_init ();
  v_desc (r, "# C07 orc_memcpy / orc_memset, ORC_CODE=%s, destination misalignment %d, lengths 0..260 x source misalignment 0..15\n",
      modes[mode] ? modes[mode] : "(unset)", dalign);
  src = (unsigned char *) mmap (NULL, len, PROT_READ | PROT_WRITE, MAP_PRIVATE | MAP_ANONYMOUS, -1, 0);
  dst = (unsigned char *) mmap (NULL, len, PROT_READ | PROT_WRITE, MAP_PRIVATE | MAP_ANONYMOUS, -1, 0);
  ref = (unsigned char *) malloc (len);
  /* the byte after the buffers is unmapped: the copies end exactly at the end of the second page */
  mprotect (src + 2 * page, page, PROT_NONE);
  mprotect (dst + 2 * page, page, PROT_NONE);
  for (k = 0; k < (int) (2 * page); k++) src[k] = (unsigned char) (k * 7 + 3);
  r->classes |= 1u << 15;
  r->classes |= 1u << mode;
  for (n = 0; n <= 260; n++)
    for (salign = 0; salign < 16; salign++) {
      int place;
      /* placement 0: in the middle of the buffers with the requested misalignments; placement 1: both regions end exactly at the
         unmapped page, so that a read or write past the end faults */
      for (place = 0; place < 2; place++) {
        size_t doff = place ? 2 * page - (size_t) n : page + (size_t) dalign;
        size_t soff = place ? 2 * page - (size_t) n - (size_t) (salign & 1) * 0 : page + (size_t) salign;
        int val = (n * 37 + salign) & 0xff;
        if (place && salign) continue;
        for (k = 0; k < (int) (2 * page); k++) dst[k] = ref[k] = (unsigned char) (0xA5 ^ k);
        v_stage (r, "orc_memcpy n=%d dst+%zu src+%zu", n, doff, soff);
        orc_memcpy (dst + doff, src + soff, n);
        memcpy (ref + doff, src + soff, (size_t) n);
        if (memcmp (dst, ref, 2 * page)) {
          for (k = 0; k < (int) (2 * page) && dst[k] == ref[k]; k++) {}
          v_fail (r, "memcpy:differs", "orc_memcpy (n=%d, destination offset %zu, source offset %zu): byte %d is 0x%02x, memcpy gives 0x%02x", n, doff, soff, k, dst[k], ref[k]);
          return;
        }
        for (k = 0; k < (int) (2 * page); k++) dst[k] = ref[k] = (unsigned char) (0x5A ^ k);
        v_stage (r, "orc_memset n=%d dst+%zu", n, doff);
        orc_memset (dst + doff, val, n);
        memset (ref + doff, val, (size_t) n);
        if (memcmp (dst, ref, 2 * page)) {
          for (k = 0; k < (int) (2 * page) && dst[k] == ref[k]; k++) {}
          v_fail (r, "memset:differs", "orc_memset (n=%d, destination offset %zu, value 0x%02x): byte %d is 0x%02x, memset gives 0x%02x", n, doff, val, k, dst[k], ref[k]);
          return;
        }
        r->sub_evals += 2;
      }
    }
  r->nontrivial = 1;
  r->sub_nontrivial = r->sub_evals;
  r->hash = 0xC7000000u + (uint64_t) mode * 16 + (uint64_t) dalign;
}

/* ---- first use: the generated function is the FIRST thing the process asks of Orc (no orc_init call by the application) ---- */
#include <sys/resource.h>
#include <signal.h>
/* ---- the .backup directive: the application supplies the fallback itself, orcc writes the calls to it.  Four small files; the
   application side (main.c) defines the backup function with the prototype orcc's header declares for it and calls the generated
   function once with ORC_CODE=backup (the backup has to be what runs) and once without.  Oracle: both orcc outputs compile; the
   results are right; the backup ran in the backup run ---- */
static void backup_directive (VResult *r, int k, int disable_orc)
{
  static const struct { const char *what, *orc, *app; } files[4] = {
    { "two arrays", ".function bd_add\n.backup bd_add_c\n.dest 2 d1\n.source 2 s1\n.source 2 s2\naddw d1, s1, s2\n",
      "int bd_calls;\nvoid bd_add_c (orc_uint16 * d1, const orc_uint16 * s1, const orc_uint16 * s2, int n) { int i; bd_calls++; for (i = 0; i < n; i++) d1[i] = (orc_uint16) (s1[i] + s2[i]); }\n"
      "int bd_main (int expect_backup) { orc_uint16 d[40], a[40], b[40]; int i; for (i = 0; i < 40; i++) { a[i] = (orc_uint16) (i * 3); b[i] = (orc_uint16) (100 - i); d[i] = 0; }\n"
      "  bd_add (d, a, b, 37); for (i = 0; i < 37; i++) if (d[i] != (orc_uint16) (a[i] + b[i])) return 2; if (d[37]) return 3; if (expect_backup && bd_calls != 1) return 4; return 0; }\n" },
    { "an accumulator", ".function bd_sum\n.backup bd_sum_c\n.accumulator 4 a1 orc_int32\n.source 4 s1 orc_int32\naccl a1, s1\n",
      "int bd_calls;\nvoid bd_sum_c (orc_int32 * a1, const orc_int32 * s1, int n) { int i; orc_uint32 t = 0; bd_calls++; for (i = 0; i < n; i++) t += (orc_uint32) s1[i]; *a1 = (orc_int32) t; }\n"
      "int bd_main (int expect_backup) { orc_int32 a[40], sum = 0, want = 0; int i; for (i = 0; i < 40; i++) a[i] = i * 1000 + 7;\n"
      "  for (i = 0; i < 37; i++) want += a[i]; bd_sum (&sum, a, 37); if (sum != want) return 2; if (expect_backup && bd_calls != 1) return 4; return 0; }\n" },
    { "a double parameter", ".function bd_scale\n.backup bd_scale_c\n.dest 8 d1 double\n.source 8 s1 double\n.doubleparam 8 p1\nmuld d1, s1, p1\n",
      "int bd_calls;\nvoid bd_scale_c (double * d1, const double * s1, double p1, int n) { int i; bd_calls++; for (i = 0; i < n; i++) d1[i] = s1[i] * p1; }\n"
      "int bd_main (int expect_backup) { double d[40], a[40]; int i; for (i = 0; i < 40; i++) { a[i] = i + 0.5; d[i] = 0; }\n"
      "  bd_scale (d, a, 3.0, 37); for (i = 0; i < 37; i++) if (d[i] != a[i] * 3.0) return 2; if (d[37] != 0) return 3; if (expect_backup && bd_calls != 1) return 4; return 0; }\n" },
    { "a fixed n", ".function bd_add8\n.backup bd_add8_c\n.n 8\n.dest 2 d1\n.source 2 s1\naddw d1, s1, s1\n",
      "int bd_calls;\nvoid bd_add8_c (orc_uint16 * d1, const orc_uint16 * s1) { int i; bd_calls++; for (i = 0; i < 8; i++) d1[i] = (orc_uint16) (s1[i] + s1[i]); }\n"
      "int bd_main (int expect_backup) { orc_uint16 d[16], a[16]; int i; for (i = 0; i < 16; i++) { a[i] = (orc_uint16) (i * 5); d[i] = 0; }\n"
      "  bd_add8 (d, a); for (i = 0; i < 8; i++) if (d[i] != (orc_uint16) (2 * a[i])) return 2; if (d[8]) return 3; if (expect_backup && bd_calls != 1) return 4; return 0; }\n" },
  };
  const char *scratch = v_arg ("scratch", "/verif/_work/scratch"), *orcc = v_arg ("orcc", NULL), *inc = v_arg ("cg_inc", "");
  char dir[400], cmd[2400], err[1200], path[500], sig[V_SIG_MAX];
  int run;
  v_desc (r, "# C07 .backup directive with %s, %s build\n%s", files[k].what, disable_orc ? "DISABLE_ORC" : "orc", files[k].orc);
  if (!orcc) { r->verdict = V_DISCARD; return; }
  snprintf (dir, sizeof dir, "%s/c07b-%d", scratch, (int) getpid ());
  snprintf (cmd, sizeof cmd, "rm -rf %s && mkdir -p %s", dir, dir);
  if (system (cmd) != 0) { r->verdict = V_DISCARD; return; }
  snprintf (path, sizeof path, "%s/bd.orc", dir);
  { FILE *f = fopen (path, "w"); if (!f) { r->verdict = V_DISCARD; return; } fputs (files[k].orc, f); fclose (f); }
  snprintf (cmd, sizeof cmd, "%s --implementation -o %s/impl.c %s/bd.orc > %s/e 2>&1 && %s --header -o %s/bd.h %s/bd.orc >> %s/e 2>&1", orcc, dir, dir, dir, orcc, dir, dir, dir);
  snprintf (path, sizeof path, "%s/e", dir);
  if (run_cmd (cmd, err, sizeof err, path) != 0) { v_fail (r, "orcc:failed", "orcc failed on a file with a .backup directive: %.300s", err); goto done; }
  snprintf (path, sizeof path, "%s/main.c", dir);
  { FILE *f = fopen (path, "w"); if (!f) { r->verdict = V_DISCARD; goto done; } fprintf (f, "#include <orc/orc.h>\n#include \"bd.h\"\n%s", files[k].app); fclose (f); }
  snprintf (cmd, sizeof cmd, "TMPDIR=%s gcc -std=gnu11 -O2 -fPIC -shared -w %s -DORC_ENABLE_UNSTABLE_API %s -I%s -o %s/bd.so %s/impl.c %s/main.c > %s/e 2>&1", dir, disable_orc ? "-DDISABLE_ORC" : "", inc, dir, dir, dir, dir, dir);
  snprintf (path, sizeof path, "%s/e", dir);
  if (run_cmd (cmd, err, sizeof err, path) != 0) {
    const char *e = strstr (err, "error");
    snprintf (sig, sizeof sig, "cc:rejects-generated-code:backup-directive");
    v_fail (r, sig, "gcc rejects what orcc generated for a function with a .backup directive and %s (%s build): %.300s", files[k].what, disable_orc ? "DISABLE_ORC" : "orc", e ? e : err);
    goto done;
  }
  for (run = 0; run < 2 && r->verdict != V_FAIL; run++) {
    pid_t pid;
    int st = 0;
    if (run == 0) setenv ("ORC_CODE", "backup", 1); else unsetenv ("ORC_CODE");
    fflush (NULL);
    pid = fork ();
    if (pid == 0) {
      void *h;
      int (*fn) (int);
      alarm (60);
      snprintf (path, sizeof path, "%s/bd.so", dir);
      h = dlopen (path, RTLD_NOW | RTLD_LOCAL);
      if (!h) _exit (40);
      fn = (int (*) (int)) dlsym (h, "bd_main");
      if (!fn) _exit (41);
      _exit (fn (run == 0 || disable_orc));
    }
    waitpid (pid, &st, 0);
    if (WIFSIGNALED (st)) v_fail (r, "backup-directive:crash", "calling the generated function (%s) died with signal %d", run == 0 ? "ORC_CODE=backup" : "JIT", WTERMSIG (st));
    else if (WEXITSTATUS (st) != 0) v_fail (r, "backup-directive:wrong", "generated function with .backup and %s, %s: %s (code %d)", files[k].what, run == 0 ? "ORC_CODE=backup" : "JIT",
        WEXITSTATUS (st) == 4 ? "the application's backup function did not run exactly once" : "wrong result", WEXITSTATUS (st));
    r->sub_evals++;
  }
  unsetenv ("ORC_CODE");
done:
  r->classes |= 1u << 21;
  r->nontrivial = 1;
  r->sub_nontrivial = r->sub_evals;
  r->hash = 0xC9000000u + (uint64_t) k * 2 + (uint64_t) disable_orc;
  if (!v_arg ("keep", NULL)) { snprintf (cmd, sizeof cmd, "rm -rf %s", dir); if (system (cmd)) {} }
}

/* ---- orcc --test: the self-test program orcc writes for a .orc file (it builds every function through the API, compiles it, and
   compares the compiled code and the backup C with emulation on orc-test's own data).  Sixteen generated files (integer programs,
   and float programs for a third of them); the self-test has to compile, link against liborc-test and pass ---- */
static void test_mode (VResult *r, int k)
{
  const char *scratch = v_arg ("scratch", "/verif/_work/scratch"), *orcc = v_arg ("orcc", NULL), *inc = v_arg ("cg_inc", ""), *libs = v_arg ("testlibs", NULL);
  static ProgSpec tp[3];
  static char text[60000];
  uint32_t stream[400];
  VChoices vc;
  GenOpts go;
  char dir[400], cmd[2400], err[1600], path[500];
  int nf = 1 + k % 3, f, len = 0, i, rcx;
  if (!orcc || !libs) { r->verdict = V_DISCARD; return; }
  for (i = 0; i < 400; i++) stream[i] = (uint32_t) v_mix64 (0x7e57 + (uint64_t) k * 1000003u + (uint64_t) i);
  stream[0] &= ~0x78u;                   /* no saturation of the variable classes: the self-test runs every function on three back ends */
  vc.v = stream; vc.n = 400; vc.pos = 0;
  for (f = 0; f < nf; f++) {
    gen_opts_default (&go);
    go.allow_float = (k % 3 == 2) ? 2 : 0; go.max_insns = 8; go.allow_special_loads = 0;
    ps_generate (&vc, &go, &tp[f], r);
    snprintf (tp[f].name, sizeof tp[f].name, "tm%d_%d", k, f);
    len += ps_sprint_orc (&tp[f], text + len, sizeof text - (size_t) len - 10);
  }
  v_desc (r, "# C07 orcc --test on a generated file (%d function(s), %s)\n%s", nf, k % 3 == 2 ? "float" : "integer", text);
  snprintf (dir, sizeof dir, "%s/c07t-%d", scratch, (int) getpid ());
  snprintf (cmd, sizeof cmd, "rm -rf %s && mkdir -p %s", dir, dir);
  if (system (cmd) != 0) { r->verdict = V_DISCARD; return; }
  snprintf (path, sizeof path, "%s/t.orc", dir);
  { FILE *fo = fopen (path, "w"); if (!fo) { r->verdict = V_DISCARD; return; } fputs (text, fo); fclose (fo); }
  snprintf (cmd, sizeof cmd, "%s --test -o %s/t.c %s/t.orc > %s/e 2>&1", orcc, dir, dir, dir);
  snprintf (path, sizeof path, "%s/e", dir);
  v_stage (r, "orcc --test");
  rcx = run_cmd (cmd, err, sizeof err, path);
  if (rcx != 0) {
    int big = 0;
    for (f = 0; f < nf; f++) if (tp[f].nvars + 5 > 32) big = 1;
    if (big && strstr (err, "Failed to compile")) { r->verdict = V_DISCARD; goto done; }
    v_fail (r, "orcc:test-mode-failed", "orcc --test exits with %d for a well-formed file: %.300s", rcx, err); goto done;
  }
  snprintf (cmd, sizeof cmd, "TMPDIR=%s gcc -std=gnu11 -O1 -w -DORC_ENABLE_UNSTABLE_API %s -o %s/t %s/t.c %s -lm -lpthread > %s/e 2>&1", dir, inc, dir, dir, libs, dir);
  v_stage (r, "compile the self-test");
  if (run_cmd (cmd, err, sizeof err, path) != 0) { const char *e = strstr (err, "error"); v_fail (r, "cc:rejects-generated-code:test-mode", "gcc rejects the self-test orcc --test wrote: %.300s", e ? e : err); goto done; }
  snprintf (cmd, sizeof cmd, "cd %s && timeout 120 ./t > %s/e 2>&1", dir, dir);
  v_stage (r, "run the self-test");
  rcx = run_cmd (cmd, err, sizeof err, path);
  if (rcx != 0) {
    const char *e = strstr (err, "FAILED");
    v_fail (r, "test-mode:self-test-fails", "the self-test orcc --test generated reports a failure (exit %d) although every function is well-formed: %.400s", rcx, e ? (e > err + 200 ? e - 200 : err) : err);
  }
done:
  r->classes |= 1u << 22;
  r->nontrivial = 1;
  r->sub_evals = (uint64_t) nf; r->sub_nontrivial = r->sub_evals;
  r->hash = 0xCA000000u + (uint64_t) k;
  if (!v_arg ("keep", NULL)) { snprintf (cmd, sizeof cmd, "rm -rf %s", dir); if (system (cmd)) {} }
}

static void first_use (VResult *r, int mode, int eager)
{
  static const char *modes[3] = { NULL, "backup", "emulate" };
  const char *scratch = v_arg ("scratch", "/verif/_work/scratch"), *orcc = v_arg ("orcc", NULL), *inc = v_arg ("cg_inc", "");
  char dir[400], cmd[2400], err[1200], path[500];
  pid_t pid;
  int st = 0, waited = 0;
  v_desc (r, "# C07 first use: a generated function (%s) is the first Orc call of the process, ORC_CODE=%s\n", eager ? "--init-function, init function called first" : "lazy init",
      modes[mode] ? modes[mode] : "(unset)");
  if (!orcc) { r->verdict = V_DISCARD; return; }
  snprintf (dir, sizeof dir, "%s/c07f-%d", scratch, (int) getpid ());
  snprintf (cmd, sizeof cmd, "rm -rf %s && mkdir -p %s", dir, dir);
  if (system (cmd) != 0) { r->verdict = V_DISCARD; return; }
  snprintf (path, sizeof path, "%s/fu.orc", dir);
  { FILE *f = fopen (path, "w"); if (!f) { r->verdict = V_DISCARD; return; } fputs (".function fu_add\n.dest 2 d1\n.source 2 s1\n.source 2 s2\naddw d1, s1, s2\n", f); fclose (f); }
  snprintf (cmd, sizeof cmd, "%s --implementation %s -o %s/impl.c %s/fu.orc > %s/e 2>&1 && %s --header %s -o %s/fu.h %s/fu.orc >> %s/e 2>&1", orcc, eager ? "--init-function fu_init" : "--lazy-init",
      dir, dir, dir, orcc, eager ? "--init-function fu_init" : "--lazy-init", dir, dir, dir);
  snprintf (path, sizeof path, "%s/e", dir);
  if (run_cmd (cmd, err, sizeof err, path) != 0) { v_fail (r, "orcc:failed", "orcc failed on a trivial file: %.300s", err); return; }
  snprintf (path, sizeof path, "%s/main.c", dir);
  {
    FILE *f = fopen (path, "w");
    if (!f) { r->verdict = V_DISCARD; return; }
    fprintf (f, "#include <orc/orc.h>\n#include \"fu.h\"\nint fu_main (void) { short d[40], a[40], b[40]; int i; for (i = 0; i < 40; i++) { a[i] = (short) (i * 3); b[i] = (short) (100 - i); d[i] = 0; }\n"
        "  %s fu_add (d, a, b, 37); for (i = 0; i < 37; i++) if (d[i] != (short) (a[i] + b[i])) return 2; for (; i < 40; i++) if (d[i]) return 3; return 0; }\n", eager ? "fu_init ();" : "");
    fclose (f);
  }
  snprintf (cmd, sizeof cmd, "TMPDIR=%s gcc -std=gnu11 -O2 -fPIC -shared -w -DORC_ENABLE_UNSTABLE_API %s -I%s -o %s/fu.so %s/impl.c %s/main.c > %s/e 2>&1", dir, inc, dir, dir, dir, dir, dir);
  snprintf (path, sizeof path, "%s/e", dir);
  if (run_cmd (cmd, err, sizeof err, path) != 0) { v_fail (r, "cc:rejects-generated-code", "gcc rejects orcc output for a trivial file: %.300s", err); return; }
  if (modes[mode]) setenv ("ORC_CODE", modes[mode], 1); else unsetenv ("ORC_CODE");
  v_stage (r, "first use in a fresh process");
  fflush (NULL);
  pid = fork ();
  if (pid == 0) {
    void *h;
    int (*fn) (void);
    snprintf (path, sizeof path, "%s/fu.so", dir);
    h = dlopen (path, RTLD_NOW | RTLD_LOCAL);
    if (!h) _exit (40);
    fn = (int (*) (void)) dlsym (h, "fu_main");
    if (!fn) _exit (41);
    _exit (fn ());
  }
  /* a deadlocked child burns no CPU: wait up to 60 s of wall time, but give up as soon as it has been idle for 8 s */
  {
    double idle = 0;
    long last_ticks = -1;
    while (waited < 6000) {
      pid_t w = waitpid (pid, &st, WNOHANG);
      char statp[64], buf[512];
      FILE *f;
      long ut = 0, stt = 0;
      if (w == pid) break;
      usleep (10000); waited++;
      snprintf (statp, sizeof statp, "/proc/%d/stat", (int) pid);
      f = fopen (statp, "r");
      if (f) {
        if (fgets (buf, sizeof buf, f)) { char *p = strrchr (buf, ')'); if (p) sscanf (p + 2, "%*c %*d %*d %*d %*d %*d %*u %*u %*u %*u %*u %ld %ld", &ut, &stt); }
        fclose (f);
      }
      if (ut + stt == last_ticks) idle += 0.01; else idle = 0;
      last_ticks = ut + stt;
      if (idle >= 8.0) { kill (pid, SIGKILL); waitpid (pid, &st, 0); v_fail (r, "first-use:deadlock", "the first call of a generated function never returned and the process used no CPU time for 8 s (deadlock during implicit initialisation)"); goto done; }
    }
    if (waited >= 6000) { kill (pid, SIGKILL); waitpid (pid, &st, 0); r->verdict = V_DISCARD; goto done; }
  }
  if (WIFSIGNALED (st)) v_fail (r, "first-use:crash", "the first call of a generated function died with signal %d", WTERMSIG (st));
  else if (WEXITSTATUS (st) != 0) v_fail (r, "first-use:wrong", "the first call of a generated function gave a wrong result (code %d)", WEXITSTATUS (st));
done:
  r->classes |= 1u << 18;
  r->nontrivial = 1;
  r->sub_evals = 1; r->sub_nontrivial = 1;
  r->hash = 0xC8000000u + (uint64_t) mode * 2 + (uint64_t) eager;
  if (!v_arg ("keep", NULL)) { snprintf (cmd, sizeof cmd, "rm -rf %s", dir); if (system (cmd)) {} }
}

/* ---- caller generation ---- */
typedef struct { char *s; size_t n, cap; } Buf;
static void bput (Buf *b, const char *fmt, ...)
{
  va_list ap;
  char tmp[2048];
  int k;
  va_start (ap, fmt);
  k = vsnprintf (tmp, sizeof tmp, fmt, ap);
  va_end (ap);
  if (k < 0) return;
  if ((size_t) k >= sizeof tmp) k = sizeof tmp - 1;
  if (b->n + (size_t) k + 1 > b->cap) { b->cap = (b->cap + (size_t) k + 1) * 2; b->s = (char *) realloc (b->s, b->cap); }
  memcpy (b->s + b->n, tmp, (size_t) k + 1);
  b->n += (size_t) k;
}

/* call `name` through its prototype with the values an OrcExecutor carries (argument order as tools/orcc.c:output_prototype) */
static void emit_caller (Buf *b, const ProgSpec *ps, int k)
{
  int cls, i, first = 1;
  static const int order[4] = { VK_DEST, VK_ACC, VK_SRC, VK_PARAM };
  bput (b, "void call_%d (OrcExecutor *ex)\n{\n", k);
  for (i = 0; i < ps->nvars; i++) if (ps->vars[i].kind == VK_ACC) bput (b, "  orc_uint32 acc_%d = 0;\n", ps->vars[i].orcvar - ORC_VAR_A1);
  for (i = 0; i < ps->nvars; i++) {
    const PVar *v = &ps->vars[i];
    if (v->kind != VK_PARAM) continue;
    if (v->ptype == PT_FLOAT) bput (b, "  orc_union32 pu_%d; pu_%d.i = ex->params[%d];\n", v->orcvar, v->orcvar, v->orcvar);
    if (v->ptype == PT_INT64 || v->ptype == PT_DOUBLE)
      bput (b, "  orc_union64 pu_%d; pu_%d.i = (orc_int64)(((orc_uint64)(orc_uint32)ex->params[%d]) | ((orc_uint64)(orc_uint32)ex->params[%d + (ORC_VAR_T1-ORC_VAR_P1)] << 32));\n",
          v->orcvar, v->orcvar, v->orcvar, v->orcvar);
  }
  bput (b, "  %s (", ps->name);
  for (cls = 0; cls < 4; cls++) {
    int ov;
    /* in orc variable order within the class */
    for (ov = 0; ov < 48; ov++)
      for (i = 0; i < ps->nvars; i++) {
        const PVar *v = &ps->vars[i];
        if (v->kind != order[cls] || v->orcvar != ov) continue;
        if (!first) bput (b, ", ");
        first = 0;
        if (v->kind == VK_DEST || v->kind == VK_SRC) {
          bput (b, "ex->arrays[%d]", v->orcvar);
          if (ps->is2d) bput (b, ", ex->params[%d]", v->orcvar);
        } else if (v->kind == VK_ACC) bput (b, "(void *) &acc_%d", v->orcvar - ORC_VAR_A1);
        else if (v->ptype == PT_INT) bput (b, "ex->params[%d]", v->orcvar);
        else if (v->ptype == PT_FLOAT) bput (b, "pu_%d.f", v->orcvar);
        else if (v->ptype == PT_INT64) bput (b, "pu_%d.i", v->orcvar);
        else bput (b, "pu_%d.f", v->orcvar);
      }
  }
  if (!ps->const_n) { bput (b, "%sex->n", first ? "" : ", "); first = 0; }
  if (ps->is2d && !ps->const_m) { bput (b, "%sex->params[ORC_VAR_A1]", first ? "" : ", "); first = 0; }
  bput (b, ");\n");
  for (i = 0; i < ps->nvars; i++) if (ps->vars[i].kind == VK_ACC) bput (b, "  ex->accumulators[%d] = acc_%d;\n", ps->vars[i].orcvar - ORC_VAR_A1, ps->vars[i].orcvar - ORC_VAR_A1);
  bput (b, "}\n");
  (void) cg_varnames;
}

#define MAXF 3
void vprop_case (VChoices *c, VResult *r)
{
  static ProgSpec ps[MAXF];
  static RunCfg rc;
  static char text[60000];
  OrcProgram *twin[MAXF];
  GenOpts go;
  Buf caller = { NULL, 0, 0 };
  char dir[400], cmd[2400], err[1500], path[500], sig[V_SIG_MAX];
  const char *scratch = v_arg ("scratch", "/verif/_work/scratch"), *orcc = v_arg ("orcc", NULL), *inc = v_arg ("cg_inc", "");
  static const char *compats[6] = { NULL, "0.4.8", "0.4.14.1", "0.4.30", "0.4.5", "0.4.6" };
  static const char *modes[4] = { NULL, "backup", "emulate", NULL };
  int nf, f, mode, lazy, compat, nobackup, use_inline, len = 0, rcx, i;
  void *handle;
  void (*initfn) (void) = NULL;
  uint64_t h = 0;
  uint32_t craw;

  if (c->n >= 2 && c->v[0] == 0xC7C7C7CAu) { test_mode (r, (int) (c->v[1] % N_TESTMODE)); return; }
  if (c->n >= 3 && c->v[0] == 0xC7C7C7C9u) { backup_directive (r, (int) (c->v[1] % 4), (int) (c->v[2] % 2)); return; }
  if (c->n >= 3 && c->v[0] == 0xC7C7C7C8u) { first_use (r, (int) (c->v[1] % 3), (int) (c->v[2] % 2)); return; }
  if (c->n >= 3 && c->v[0] == 0xC7C7C7C7u) { memfuncs (r, (int) (c->v[1] % 3), (int) (c->v[2] % 16)); return; }
  if (!orcc) { r->verdict = V_DISCARD; return; }
  mode = (int) vc_pick (c, 4); lazy = (int) vc_pick (c, 2); craw = vc_u32 (c); compat = (int) (craw % 4); if (compat == 1 && (craw / 4) % 3) compat = 3 + (int) ((craw / 4) % 3);   /* 0.4.5 / 0.4.6: append calls without flags */
  nobackup = vc_pick (c, 4) == 0; use_inline = vc_pick (c, 4) == 0;
  if (use_inline && mode == 3 && v_excluded ("inline-header-in-disable-orc-build")) { use_inline = 0; r->excluded++; }    /* known finding, kept out by construction */
  nf = 1 + (vc_pick (c, 3) == 0 ? 1 + (int) vc_pick (c, 2) : 0);
  for (f = 0; f < nf; f++) {
    gen_opts_default (&go);
    go.allow_float = 1; go.max_insns = 12;
    ps_generate (c, &go, &ps[f], r);
    snprintf (ps[f].name, sizeof ps[f].name, "fn%d_%c", f, 'a' + (char) vc_pick (c, 26));
    len += ps_sprint_orc (&ps[f], text + len, sizeof text - (size_t) len - 1);
    h ^= ps_hash (&ps[f]) * (uint64_t) (f + 1);
    if (ps[f].is2d) r->classes |= 1u << 11;
    if (ps[f].has_acc) r->classes |= 1u << 12;
    if (ps[f].has_float) r->classes |= 1u << 14;
    if (ps[f].saturated) r->classes |= 1u << 19;
    for (i = 0; i < ps[f].nvars; i++) if (ps[f].vars[i].kind == VK_PARAM && ps[f].vars[i].ptype != PT_INT) r->classes |= 1u << 13;
  }
  r->classes |= 1u << mode;
  r->classes |= lazy ? 1u << 4 : 1u << 5;
  if (compat == 2 || compat == 3) r->classes |= 1u << 6;
  if (compat == 1 || compat >= 4) r->classes |= 1u << 7;
  if (nobackup) r->classes |= 1u << 8;
  if (use_inline) r->classes |= 1u << 9;
  if (nf > 1) r->classes |= 1u << 10;
  v_desc (r, "# C07 mode=%s init=%s compat=%s%s%s\n%s", mode == 3 ? "DISABLE_ORC" : modes[mode] ? modes[mode] : "JIT", lazy ? "lazy" : "--init-function",
      compats[compat] ? compats[compat] : "(none)", nobackup ? " --no-backup" : "", use_inline ? " --inline" : "", text);

  snprintf (dir, sizeof dir, "%s/c07-%d", scratch, (int) getpid ());
  snprintf (cmd, sizeof cmd, "rm -rf %s && mkdir -p %s", dir, dir);
  if (system (cmd) != 0) { r->verdict = V_DISCARD; return; }
  snprintf (path, sizeof path, "%s/fn.orc", dir);
  { FILE *fo = fopen (path, "w"); if (!fo) { r->verdict = V_DISCARD; return; } fputs (text, fo); fclose (fo); }

  /* orcc */
  {
    char opts[300];
    snprintf (opts, sizeof opts, "%s%s%s%s%s", lazy ? "--lazy-init " : "--init-function fn_init_all ", compats[compat] ? "--compat " : "", compats[compat] ? compats[compat] : "",
        nobackup ? " --no-backup" : "", use_inline ? " --inline" : "");
    v_stage (r, "orcc --implementation");
    snprintf (cmd, sizeof cmd, "%s --implementation %s -o %s/impl.c %s/fn.orc > %s/orcc.err 2>&1", orcc, opts, dir, dir, dir);
    snprintf (path, sizeof path, "%s/orcc.err", dir);
    rcx = run_cmd (cmd, err, sizeof err, path);
    /* asking for compatibility with a release older than a feature the file uses is refused by design */
    if (rcx != 0 && compats[compat] && strstr (err, "incompatible with --compat")) { r->verdict = V_DISCARD; r->classes |= 1u << 17; goto out; }
    /* the C target models 32 registers (orc/orcprogram-c.c:orc_compiler_c_init): a function whose declared variables plus the up
       to five load/store temporaries of one instruction exceed them is refused with a message, which is a clean rejection, not a
       wrong result; any other refusal of a well-formed file is a violation */
    if (rcx != 0 && strstr (err, "Failed to compile")) {
      int big = 0;
      for (f = 0; f < nf; f++) if (ps[f].nvars + 5 > 32) big = 1;
      if (big) { r->verdict = V_DISCARD; r->classes |= 1u << 20; goto out; }
    }
    if (rcx != 0) { snprintf (sig, sizeof sig, "orcc:implementation-failed"); v_fail (r, sig, "orcc --implementation %s exits with %d for a well-formed file: %.300s", opts, rcx, err); goto out; }
    v_stage (r, "orcc --header");
    snprintf (cmd, sizeof cmd, "%s --header %s -o %s/fn.h %s/fn.orc > %s/orcc.err 2>&1", orcc, opts, dir, dir, dir);
    rcx = run_cmd (cmd, err, sizeof err, path);
    if (rcx != 0 && compats[compat] && strstr (err, "incompatible with --compat")) { r->verdict = V_DISCARD; r->classes |= 1u << 17; goto out; }
    if (rcx != 0) { v_fail (r, "orcc:header-failed", "orcc --header %s exits with %d for a well-formed file: %.300s", opts, rcx, err); goto out; }
  }
  /* twins (fill orcvar) and caller */
  if (modes[mode]) setenv ("ORC_CODE", modes[mode], 1); else unsetenv ("ORC_CODE");
  orc_init ();
  bput (&caller, "#include <orc/orc.h>\n#include \"fn.h\"\n");
  for (f = 0; f < nf; f++) { twin[f] = ps_build (&ps[f]); orc_program_compile_full (twin[f], NULL, 0); emit_caller (&caller, &ps[f], f); }
  snprintf (path, sizeof path, "%s/caller.c", dir);
  { FILE *fo = fopen (path, "w"); if (!fo) { r->verdict = V_DISCARD; goto out; } fputs (caller.s, fo); fclose (fo); }
  v_stage (r, "gcc");
  snprintf (cmd, sizeof cmd, "TMPDIR=%s gcc -std=gnu11 -O2 -fPIC -shared -w -fno-fast-math -ffp-contract=off -DORC_ENABLE_UNSTABLE_API %s %s -I%s -o %s/fn.so %s/impl.c %s/caller.c > %s/cc.err 2>&1",
      dir, mode == 3 ? "-DDISABLE_ORC" : "", inc, dir, dir, dir, dir, dir);
  snprintf (path, sizeof path, "%s/cc.err", dir);
  rcx = run_cmd (cmd, err, sizeof err, path);
  if (rcx != 0) {
    const char *e = strstr (err, "error");
    char first[260];
    snprintf (first, sizeof first, "%.250s", e ? e : err);
    for (i = 0; first[i]; i++) if (first[i] == '\n') { first[i] = 0; break; }
    v_fail (r, "cc:rejects-generated-code", "gcc rejects what orcc generated (%s build): %s", mode == 3 ? "DISABLE_ORC" : "orc", first);
    goto out;
  }
  snprintf (path, sizeof path, "%s/fn.so", dir);
  v_stage (r, "dlopen");
  handle = dlopen (path, RTLD_NOW | RTLD_LOCAL);
  if (!handle) {
    v_fail (r, use_inline && mode == 3 ? "cc:does-not-load:inline-header-in-DISABLE_ORC-build" : "cc:does-not-load", "the shared object built from orcc output does not load: %.300s", dlerror ());
    goto out;
  }
  if (!lazy && mode != 3) {
    initfn = (void (*) (void)) dlsym (handle, "fn_init_all");
    if (!initfn) { v_fail (r, "orcc:no-init-function", "--init-function fn_init_all was requested but the object has no such symbol"); goto out; }
    v_stage (r, "init function");
    initfn ();
  }
  for (f = 0; f < nf && r->verdict != V_FAIL; f++) {
    char sym[32];
    void (*call) (OrcExecutor *);
    RunOpts ro;
    int runs = 1 + (int) vc_pick (c, 3), k;
    snprintf (sym, sizeof sym, "call_%d", f);
    call = (void (*) (OrcExecutor *)) dlsym (handle, sym);
    if (!call) { v_fail (r, "harness:no-caller", "caller symbol missing"); break; }
    memset (&ro, 0, sizeof ro);
    ro.n_max = 60; ro.m_max = 3; ro.placement_mask = 1;
    for (k = 0; k < runs && r->verdict != V_FAIL; k++) {
      Arena ag, ae;
      OrcExecutor eg, ee;
      char msg[900];
      int differ;
      rc_generate (c, &ps[f], &ro, &rc);
      if (arena_build (&ag, &ps[f], &rc, 0) || arena_build (&ae, &ps[f], &rc, 0)) { arena_free (&ag); arena_free (&ae); continue; }
      exec_setup (&eg, twin[f], NULL, &ps[f], &rc, &ag);
      exec_setup (&ee, twin[f], NULL, &ps[f], &rc, &ae);
      v_stage (r, "call %s through its prototype (run %d)", ps[f].name, k);
      v_shielded_call ((void *) call, &eg);
      v_stage (r, "emulate twin");
      orc_executor_emulate (&ee);
      differ = arena_compare (&ag, &ae, &ps[f], &rc, &eg, &ee, msg, sizeof msg);
      if (differ && ps[f].has_float) {
        Arena ap;
        static RefOut ref;
        if (!arena_build (&ap, &ps[f], &rc, 0)) {
          if (refprog_run (&ps[f], &rc, &ap, &ref) == 0) {
            int thr = 0;
            differ = refprog_diff (&ps[f], &rc, &ref, &ag, &eg, &ae, &ee, msg, sizeof msg, &thr);
            if (differ && thr && v_excluded ("ftz-threshold")) { differ = 0; r->excluded++; }
            if (!differ) r->classes |= 1u << 16;
          } else differ = 0;
          refprog_free (&ref, &ps[f]);
          arena_free (&ap);
        }
      }
      if (differ) {
        snprintf (sig, sizeof sig, "prototype-call:wrong-result mode=%s", mode == 3 ? "DISABLE_ORC" : modes[mode] ? modes[mode] : "JIT");
        rc_print (&ps[f], &rc, r);
        v_fail (r, sig, "%s called through its C prototype does not compute the emulation semantics: %s", ps[f].name, msg);
      } else if (arena_check_untouched (&ag, &ps[f], &rc, msg, sizeof msg)) {
        snprintf (sig, sizeof sig, "prototype-call:stray-write mode=%s", mode == 3 ? "DISABLE_ORC" : modes[mode] ? modes[mode] : "JIT");
        v_fail (r, sig, "%s changed memory it is not entitled to: %s", ps[f].name, msg);
      }
      arena_free (&ag); arena_free (&ae);
      r->sub_evals++;
    }
  }
  r->nontrivial = r->sub_evals > 0;
  r->sub_nontrivial = r->sub_evals;
  r->hash = h ^ ((uint64_t) mode << 60) ^ ((uint64_t) compat << 56) ^ ((uint64_t) lazy << 55);
out:
  v_stage (r, "cleanup");
  if (!v_arg ("keep", NULL)) { snprintf (cmd, sizeof cmd, "rm -rf %s", dir); if (system (cmd)) {} }
  free (caller.s);
}
