/* C20 - application-registered opcodes and rules behave like built-in ones.
 *
 * Each case runs in its own child process (registration is global and permanent).
 * case = 1..4 extension opcode sets, each holding 1..5 of seven 16-bit extension opcodes (names unrelated to, prefixing or
 *        extending built-in names: xaddw, xsubw, xorw2, add, addwx, mulls, xandw), registered in a generated order;
 *        for the sse and/or mmx target 0..k rule sets per extension set (k bounded by the free rule-set slots of the target), each
 *        with generated required flags (none / SSE3 / SSSE3 / SSE4.1 on sse; none / MMXEXT on mmx) and covering a generated subset
 *        of the set's opcodes; programs = chains of 2..9 16-bit instructions mixing built-in and extension opcodes.
 * oracle:
 *   - before any registration two built-in-only programs are compiled for sse and run; after all registrations the same programs
 *     give byte-identical machine code and identical results (built-ins unaffected);
 *   - emulating a mixed program equals an independent C interpretation of the chain, and the application's emulation functions were
 *     called (their call counters moved);
 *   - compiling a mixed program for sse / mmx with generated flags: the harness' model says, per extension instruction, which rule
 *     must be chosen - the most recently registered rule set of that opcode's set whose required flags are contained in the compile
 *     flags and which has a rule for the opcode - or that none qualifies; the emit functions log who was invoked; success <=> every
 *     extension instruction has a qualifying rule; logged rule ids == the model's; native results == the C interpretation; without a
 *     qualifying rule the compile fails non-fatally and orc_executor_run (fallback) still equals the C interpretation.
 */
#include "../engine/prog.h"
#include "../engine/tramp.h"
#include <stdlib.h>
#include <orc/orcsse.h>
#include <orc/orcmmx.h>

const char *vprop_id = "C20";
int vprop_fork = 1;
int vprop_cpu_limit_s = 30;
const char *vprop_class_names[V_NCLASS] = {
  "sets_ge_2", "sets_4", "rules_for_sse", "rules_for_mmx", "flagged_rule_sets", "later_rule_overrides_earlier", "instruction_without_rule",
  "native_with_extension_rules", "fallback_because_no_rule", "prefix_or_extension_names", "rule_sets_at_capacity", "builtin_rule_overridden", "handle_kept_across_later_registrations", NULL
};

void vprop_init (int argc, char **argv) { (void) argc; (void) argv; orc_init (); }
uint64_t vprop_enum_count (const char *tier) { (void) tier; return 0; }
size_t vprop_enum_stream (uint64_t i, uint32_t *out, size_t max) { (void) i; (void) out; (void) max; return 0; }

/* ---- the extension pool ---- */
enum { X_ADD, X_SUB, X_XOR, X_ADD2, X_ADD3, X_MUL, X_AND, X_N };
static const char *xnames[X_N] = { "xaddw", "xsubw", "xorw2", "add", "addwx", "mulls", "xandw" };
static int xkind[X_N] = { 0, 1, 2, 0, 0, 3, 4 };     /* 0 add 1 sub 2 xor 3 mullo 4 and */
static uint16_t xeval (int kind, uint16_t a, uint16_t b)
{
  switch (kind) { case 0: return (uint16_t) (a + b); case 1: return (uint16_t) (a - b); case 2: return a ^ b; case 3: return (uint16_t) (a * b); default: return a & b; }
}
static long emu_calls[X_N];
#define EMU(K) static void emu_##K (OrcOpcodeExecutor *ex, int offset, int n) { \
  int i; uint16_t *d = (uint16_t *) ex->dest_ptrs[0]; const uint16_t *a = (const uint16_t *) ex->src_ptrs[0], *b = (const uint16_t *) ex->src_ptrs[1]; \
  (void) offset; emu_calls[K]++; for (i = 0; i < n; i++) d[i] = xeval (xkind[K], a[i], b[i]); }
EMU (0) EMU (1) EMU (2) EMU (3) EMU (4) EMU (5) EMU (6)
static OrcOpcodeEmulateNFunc emus[X_N] = { emu_0, emu_1, emu_2, emu_3, emu_4, emu_5, emu_6 };

typedef struct { int id; int x; int target; } RuleUser;      /* target 0 sse 1 mmx */
static RuleUser rule_users[256]; static int n_rule_users;
static struct { char op[16]; int id; } rule_log[64]; static int n_rule_log;

static void ext_rule (OrcCompiler *p, void *user, OrcInstruction *insn)
{
  RuleUser *u = (RuleUser *) user;
  int s0 = ORC_SRC_ARG (p, insn, 0), s1 = ORC_SRC_ARG (p, insn, 1), d = ORC_DEST_ARG (p, insn, 0);
  if (n_rule_log < 64) { snprintf (rule_log[n_rule_log].op, 16, "%s", insn->opcode->name); rule_log[n_rule_log].id = u->id; n_rule_log++; }
  if (u->target == 0) {
    if (s0 != d) orc_sse_emit_movdqa (p, s0, d);
    switch (xkind[u->x]) {
      case 0: orc_sse_emit_paddw (p, s1, d); break;
      case 1: orc_sse_emit_psubw (p, s1, d); break;
      case 2: orc_sse_emit_pxor (p, s1, d); break;
      case 3: orc_sse_emit_pmullw (p, s1, d); break;
      default: orc_sse_emit_pand (p, s1, d); break;
    }
  } else {
    if (s0 != d) orc_mmx_emit_movq (p, s0, d);
    switch (xkind[u->x]) {
      case 0: orc_mmx_emit_paddw (p, s1, d); break;
      case 1: orc_mmx_emit_psubw (p, s1, d); break;
      case 2: orc_mmx_emit_pxor (p, s1, d); break;
      case 3: orc_mmx_emit_pmullw (p, s1, d); break;
      default: orc_mmx_emit_pand (p, s1, d); break;
    }
  }
}

/* ---- model of what was registered ---- */
#define MAXSETS 4
static OrcStaticOpcode set_ops[MAXSETS][8];
static int set_n[MAXSETS], set_x[MAXSETS][8], n_sets;
static char set_prefix[MAXSETS][8];
static OrcOpcodeSet *set_handle[MAXSETS];
typedef struct { int set, target; unsigned req; int has[8]; int id[8]; } MRuleSet;
static MRuleSet mrs[40]; static int n_mrs;
static int override_on; static unsigned override_req;

static int model_rule (int x, int target, unsigned flags)
{
  int s, j = -1, k;
  for (s = 0; s < n_sets; s++) for (k = 0; k < set_n[s]; k++) if (set_x[s][k] == x) { j = k; goto found; }
  return -1;
found:
  for (k = n_mrs - 1; k >= 0; k--) {
    if (mrs[k].set != s || mrs[k].target != target) continue;
    if (mrs[k].req & ~flags) continue;
    if (mrs[k].has[j]) return mrs[k].id[j];
  }
  return -1;
}

/* ---- programs: chains over 16-bit values ---- */
static const char *builtin_ops[] = { "addw", "subw", "xorw", "andw", "orw", "mullw" };
static uint16_t builtin_eval (int b, uint16_t x, uint16_t y)
{
  switch (b) { case 0: return (uint16_t) (x + y); case 1: return (uint16_t) (x - y); case 2: return x ^ y; case 3: return x & y; case 4: return x | y; default: return (uint16_t) (x * y); }
}
typedef struct { int n; int is_ext[10]; int op[10]; int rhs[10]; } Chain;   /* t = s1; t = t OP (rhs ? s2 : s3); d1 = t */

static OrcProgram *chain_build (const Chain *c, const char *name)
{
  OrcProgram *p = orc_program_new ();
  int i;
  orc_program_set_name (p, name);
  orc_program_add_destination (p, 2, "d1");
  orc_program_add_source (p, 2, "s1");
  orc_program_add_source (p, 2, "s2");
  orc_program_add_source (p, 2, "s3");
  orc_program_add_temporary (p, 2, "t1");
  orc_program_append_str (p, "copyw", "t1", "s1", NULL);
  for (i = 0; i < c->n; i++) orc_program_append_str (p, c->is_ext[i] ? xnames[c->op[i]] : builtin_ops[c->op[i]], "t1", "t1", c->rhs[i] ? "s2" : "s3");
  orc_program_append_str (p, "copyw", "d1", "t1", NULL);
  return p;
}
#define NEL 53
static void chain_expect (const Chain *c, const uint16_t *s1, const uint16_t *s2, const uint16_t *s3, uint16_t *d)
{
  int i, k;
  for (i = 0; i < NEL; i++) {
    uint16_t t = s1[i];
    for (k = 0; k < c->n; k++) { uint16_t y = c->rhs[k] ? s2[i] : s3[i]; t = c->is_ext[k] ? xeval (xkind[c->op[k]], t, y) : builtin_eval (c->op[k], t, y); }
    d[i] = t;
  }
}
static uint16_t S1[NEL + 8], S2[NEL + 8], S3[NEL + 8];
static void fill_inputs (uint64_t seed)
{
  int i;
  for (i = 0; i < NEL + 8; i++) { uint64_t h = v_mix64 (seed + (uint64_t) i); S1[i] = (uint16_t) h; S2[i] = (uint16_t) (h >> 16); S3[i] = (i % 5 == 0) ? 0xffff : (uint16_t) (h >> 32); }
}
/* how: 0 emulate, 1 orc_executor_run through the trampoline */
static int chain_run (OrcProgram *p, const Chain *c, int how, char *msg, size_t max)
{
  static uint16_t D[NEL + 8], E[NEL + 8];
  OrcExecutor ex;
  int i;
  memset (D, 0xA5, sizeof D);
  memset (&ex, 0, sizeof ex);
  orc_executor_set_program (&ex, p);
  orc_executor_set_n (&ex, NEL);
  orc_executor_set_array (&ex, ORC_VAR_D1, D);
  orc_executor_set_array (&ex, ORC_VAR_S1, S1);
  orc_executor_set_array (&ex, ORC_VAR_S2, S2);
  orc_executor_set_array (&ex, ORC_VAR_S3, S3);
  if (how == 0) orc_executor_emulate (&ex); else v_shielded_call ((void *) p->code_exec, &ex);
  chain_expect (c, S1, S2, S3, E);
  for (i = 0; i < NEL; i++) if (D[i] != E[i]) { snprintf (msg, max, "element %d: got 0x%04x, the chain gives 0x%04x (s1=0x%04x s2=0x%04x s3=0x%04x)", i, D[i], E[i], S1[i], S2[i], S3[i]); return 1; }
  for (i = NEL; i < NEL + 8; i++) if (D[i] != 0xA5A5) { snprintf (msg, max, "element %d beyond n was written", i); return 1; }
  return 0;
}

static void chain_print (const Chain *c, VResult *r)
{
  int i;
  v_desc (r, "  chain: t=s1;");
  for (i = 0; i < c->n; i++) v_desc (r, " %s%s t,%s;", c->is_ext[i] ? "EXT:" : "", c->is_ext[i] ? xnames[c->op[i]] : builtin_ops[c->op[i]], c->rhs[i] ? "s2" : "s3");
  v_desc (r, " d1=t\n");
}

void vprop_case (VChoices *c, VResult *r)
{
  OrcTarget *tsse = orc_target_get_by_name ("sse"), *tmmx = orc_target_get_by_name ("mmx");
  Chain base[2], mix;
  OrcProgram *pb[2], *p;
  unsigned char *code_before[2]; int size_before[2];
  char msg[400], sig[V_SIG_MAX];
  int i, k, s, used[X_N], avail[X_N], navail, free_sse, free_mmx, npr;
  unsigned dsse = orc_target_get_default_flags (tsse), dmmx = orc_target_get_default_flags (tmmx);

  fill_inputs (vc_u32 (c));
  /* 0. built-in programs before any registration */
  for (k = 0; k < 2; k++) {
    base[k].n = 2 + (int) vc_pick (c, 6);
    for (i = 0; i < base[k].n; i++) { base[k].is_ext[i] = 0; base[k].op[i] = (int) vc_pick (c, 6); base[k].rhs[i] = (int) vc_pick (c, 2); }
    pb[k] = chain_build (&base[k], k ? "base1" : "base0");
    if (!ORC_COMPILE_RESULT_IS_SUCCESSFUL (orc_program_compile_full (pb[k], tsse, dsse))) { r->verdict = V_DISCARD; return; }
    size_before[k] = pb[k]->orccode->code_size;
    code_before[k] = (unsigned char *) malloc ((size_t) size_before[k]);
    memcpy (code_before[k], pb[k]->orccode->code, (size_t) size_before[k]);
    if (chain_run (pb[k], &base[k], 1, msg, sizeof msg)) { v_fail (r, "builtin-before:wrong", "built-in program before registration: %s", msg); return; }
  }
  v_desc (r, "# C20 extension registration\n");

  /* 1. register 1..4 opcode sets */
  memset (used, 0, sizeof used);
  n_sets = 1 + (int) vc_pick (c, MAXSETS);
  for (s = 0; s < n_sets; s++) {
    int want = 1 + (int) vc_pick (c, 5);
    memset (set_ops[s], 0, sizeof set_ops[s]);
    set_n[s] = 0;
    for (k = 0; k < want; k++) {
      navail = 0;
      for (i = 0; i < X_N; i++) if (!used[i]) avail[navail++] = i;
      if (!navail) break;
      i = avail[vc_pick (c, (uint32_t) navail)];
      used[i] = 1;
      snprintf (set_ops[s][set_n[s]].name, sizeof set_ops[s][0].name, "%s", xnames[i]);
      set_ops[s][set_n[s]].flags = 0;
      set_ops[s][set_n[s]].dest_size[0] = 2;
      set_ops[s][set_n[s]].src_size[0] = 2; set_ops[s][set_n[s]].src_size[1] = 2;
      set_ops[s][set_n[s]].emulateN = emus[i];
      set_x[s][set_n[s]] = i;
      if (i == X_XOR || i == X_ADD2 || i == X_ADD3) r->classes |= 1u << 9;
      set_n[s]++;
    }
    if (!set_n[s]) { n_sets = s; break; }
    snprintf (set_prefix[s], sizeof set_prefix[s], "ext%d", s);
    v_stage (r, "register opcode set %d", s);
    orc_opcode_register_static (set_ops[s], set_prefix[s]);
    set_handle[s] = orc_opcode_set_get (set_prefix[s]);       /* an application may keep this handle while it registers further sets */
    v_desc (r, "set %s:", set_prefix[s]);
    for (k = 0; k < set_n[s]; k++) v_desc (r, " %s", xnames[set_x[s][k]]);
    v_desc (r, "\n");
  }
  if (n_sets >= 2) r->classes |= 1u << 0;
  if (n_sets == 4) r->classes |= 1u << 1;

  /* 2. rule sets, within the targets' free slots */
  free_sse = ORC_N_RULE_SETS - tsse->n_rule_sets; free_mmx = ORC_N_RULE_SETS - tmmx->n_rule_sets;
  n_mrs = 0; n_rule_users = 0;
  npr = (int) vc_pick (c, 9);
  for (k = 0; k < npr; k++) {
    uint32_t traw = vc_u32 (c);
    int target = (int) (traw % 2), early_handle = (traw / 2) % 2 == 1, set = (int) vc_pick (c, (uint32_t) n_sets), j, any = 0;
    static const unsigned sse_req[4] = { 0, ORC_TARGET_SSE_SSE3, ORC_TARGET_SSE_SSSE3, ORC_TARGET_SSE_SSE4_1 };
    static const unsigned mmx_req[2] = { 0, ORC_TARGET_MMX_MMXEXT };
    unsigned req = target == 0 ? (ORC_TARGET_SSE_SSE2 | sse_req[vc_pick (c, 4)]) : (ORC_TARGET_MMX_MMX | mmx_req[vc_pick (c, 2)]);
    OrcRuleSet *rs;
    MRuleSet *m;
    if ((target == 0 ? free_sse : free_mmx) <= 0) continue;
    if (target == 0) free_sse--; else free_mmx--;
    if ((target == 0 ? free_sse : free_mmx) == 0) r->classes |= 1u << 10;
    m = &mrs[n_mrs++];
    memset (m, 0, sizeof *m);
    m->set = set; m->target = target; m->req = req;
    v_stage (r, "register rule set %d", k);
    /* the handle is looked up now, or is the one obtained right after the set was registered (before later sets existed) */
    rs = orc_rule_set_new (early_handle ? set_handle[set] : orc_opcode_set_get (set_prefix[set]), target == 0 ? tsse : tmmx, req);
    if (early_handle && set < n_sets - 1) r->classes |= 1u << 12;
    v_desc (r, "rule set %d: %s for %s, required flags 0x%x, rules for:", k, set_prefix[set], target == 0 ? "sse" : "mmx", req);
    for (j = 0; j < set_n[set]; j++) {
      if (vc_pick (c, 4) == 0 && any) continue;          /* partial coverage */
      m->has[j] = 1; m->id[j] = n_rule_users; any = 1;
      rule_users[n_rule_users].id = n_rule_users; rule_users[n_rule_users].x = set_x[set][j]; rule_users[n_rule_users].target = target;
      orc_rule_register (rs, xnames[set_x[set][j]], ext_rule, &rule_users[n_rule_users]);
      v_desc (r, " %s(id %d)", xnames[set_x[set][j]], n_rule_users);
      n_rule_users++;
    }
    v_desc (r, "\n");
    r->classes |= target == 0 ? 1u << 2 : 1u << 3;
    if (req & ~(unsigned) (ORC_TARGET_SSE_SSE2 | ORC_TARGET_MMX_MMX)) r->classes |= 1u << 4;
  }

  /* 3. built-ins unaffected */
  for (k = 0; k < 2; k++) {
    OrcProgram *q = chain_build (&base[k], k ? "base1" : "base0");
    v_stage (r, "recompile built-in program %d", k);
    if (!ORC_COMPILE_RESULT_IS_SUCCESSFUL (orc_program_compile_full (q, tsse, dsse))) { v_fail (r, "builtin-after:compile", "built-in program no longer compiles after the registration"); return; }
    if (q->orccode->code_size != size_before[k] || memcmp (q->orccode->code, code_before[k], (size_t) size_before[k])) {
      v_fail (r, "builtin-after:code-differs", "machine code of a built-in-only program changed after registering extensions (%d vs %d bytes)", size_before[k], q->orccode->code_size); return;
    }
    if (chain_run (q, &base[k], 1, msg, sizeof msg) || chain_run (pb[k], &base[k], 1, msg, sizeof msg)) { v_fail (r, "builtin-after:wrong", "built-in program after registration: %s", msg); return; }
    orc_program_free (q);
  }

  /* 3b. optionally override a built-in opcode's rule: a rule set for the "sys" set registered now is newer than the target's own */
  {
    static RuleUser sys_user;
    override_on = 0;
    if (vc_chance (c, 1, 3) && free_sse > 0) {
      static const unsigned oreq[3] = { ORC_TARGET_SSE_SSE2, ORC_TARGET_SSE_SSE2 | ORC_TARGET_SSE_SSSE3, ORC_TARGET_SSE_SSE2 | ORC_TARGET_SSE_SSE4_1 };
      OrcRuleSet *rs;
      override_req = oreq[vc_pick (c, 3)];
      free_sse--;
      rs = orc_rule_set_new (orc_opcode_set_get ("sys"), tsse, override_req);
      sys_user.id = 9999; sys_user.x = X_ADD; sys_user.target = 0;
      orc_rule_register (rs, "addw", ext_rule, &sys_user);
      override_on = 1;
      r->classes |= 1u << 11;
      v_desc (r, "override: application rule for built-in addw on sse, required flags 0x%x\n", override_req);
    }
  }

  /* 4. mixed programs */
  for (k = 0; k < 3 && r->verdict != V_FAIL; k++) {
    long before[X_N];
    int target, ok_expected = 1, n_ext = 0, li;
    unsigned flags;
    OrcCompileResult res;
    mix.n = 2 + (int) vc_pick (c, 8);
    navail = 0;
    for (i = 0; i < X_N; i++) if (used[i]) avail[navail++] = i;
    for (i = 0; i < mix.n; i++) {
      mix.is_ext[i] = navail && vc_pick (c, 2);
      mix.op[i] = mix.is_ext[i] ? avail[vc_pick (c, (uint32_t) navail)] : (int) vc_pick (c, 6);
      mix.rhs[i] = (int) vc_pick (c, 2);
      if (mix.is_ext[i]) n_ext++;
    }
    chain_print (&mix, r);
    p = chain_build (&mix, "mixed");
    if (p->error_msg) { v_fail (r, "append:rejected", "appending an extension opcode by name failed: %s", p->error_msg); return; }
    /* emulation */
    memcpy (before, emu_calls, sizeof before);
    orc_program_compile_full (p, NULL, 0);
    v_stage (r, "emulate mixed program");
    if (chain_run (p, &mix, 0, msg, sizeof msg)) { v_fail (r, "emulation:wrong", "emulating a program with extension opcodes: %s", msg); return; }
    for (i = 0; i < mix.n; i++) if (mix.is_ext[i] && emu_calls[mix.op[i]] == before[mix.op[i]]) { v_fail (r, "emulation:function-not-called", "the application's emulation function of %s was not called", xnames[mix.op[i]]); return; }
    orc_program_free (p);
    /* native */
    target = (int) vc_pick (c, 2);
    if (target == 0) {
      flags = dsse;
      switch (vc_pick (c, 4)) { case 1: flags &= ~(unsigned) (ORC_TARGET_SSE_SSE4_1 | ORC_TARGET_SSE_SSE4_2); break; case 2: flags &= ~(unsigned) (ORC_TARGET_SSE_SSSE3 | ORC_TARGET_SSE_SSE4_1 | ORC_TARGET_SSE_SSE4_2); break;
        case 3: flags &= ~(unsigned) (ORC_TARGET_SSE_SSE3 | ORC_TARGET_SSE_SSSE3 | ORC_TARGET_SSE_SSE4_1 | ORC_TARGET_SSE_SSE4_2); break; default: break; }
    } else {
      flags = dmmx;
      if (vc_pick (c, 2)) flags &= ~(unsigned) (ORC_TARGET_MMX_MMXEXT | ORC_TARGET_MMX_SSSE3 | ORC_TARGET_MMX_SSE4_1);
    }
    p = chain_build (&mix, "mixed");
    n_rule_log = 0;
    v_stage (r, "compile mixed program for %s flags 0x%x", target ? "mmx" : "sse", flags);
    res = orc_program_compile_full (p, target ? tmmx : tsse, flags);
    v_desc (r, "  compile for %s flags 0x%x -> %s\n", target ? "mmx" : "sse", flags, v_result_name (res));
    for (i = 0; i < mix.n; i++) if (mix.is_ext[i] && model_rule (mix.op[i], target, flags) < 0) { ok_expected = 0; r->classes |= 1u << 6; }
    if (ORC_COMPILE_RESULT_IS_FATAL (res)) { v_fail (r, "native:fatal", "fatal result %s for a program using registered extension opcodes", v_result_name (res)); return; }
    if (ok_expected != ORC_COMPILE_RESULT_IS_SUCCESSFUL (res)) {
      snprintf (sig, sizeof sig, "native:rule-availability target=%s", target ? "mmx" : "sse");
      v_fail (r, sig, "the registered rule sets %s a rule for every extension instruction under flags 0x%x, but the compile result is %s",
          ok_expected ? "provide" : "do not provide", flags, v_result_name (res));
      return;
    }
    if (ok_expected) {
      /* the log holds one entry per extension instruction per emission pass: check every entry against the model */
      int seen = 0, has_addw = 0, addw_logged = 0;
      for (i = 0; i < mix.n; i++) if (!mix.is_ext[i] && mix.op[i] == 0) has_addw = 1;
      for (li = 0; li < n_rule_log; li++) {
        int x = -1, want;
        if (!strcmp (rule_log[li].op, "addw")) {
          addw_logged = 1;
          if (!(override_on && target == 0 && !(override_req & ~flags))) {
            v_fail (r, "native:override-not-qualified", "the application's rule for built-in addw was invoked although its required flags 0x%x are not within 0x%x (or it was never registered for this target)", override_req, flags);
            return;
          }
          continue;
        }
        for (i = 0; i < X_N; i++) if (!strcmp (rule_log[li].op, xnames[i])) x = i;
        want = model_rule (x, target, flags);
        seen++;
        if (rule_log[li].id != want) {
          snprintf (sig, sizeof sig, "native:wrong-rule target=%s", target ? "mmx" : "sse");
          v_fail (r, sig, "instruction %s was compiled with rule id %d; the most recently registered qualifying rule is id %d", rule_log[li].op, rule_log[li].id, want);
          return;
        }
        {
          /* was an earlier qualifying rule overridden? */
          int q, cnt = 0, ss = -1, jj = -1, a, b;
          for (a = 0; a < n_sets; a++) for (b = 0; b < set_n[a]; b++) if (set_x[a][b] == x) { ss = a; jj = b; }
          for (q = 0; q < n_mrs; q++) if (mrs[q].set == ss && mrs[q].target == target && !(mrs[q].req & ~flags) && mrs[q].has[jj]) cnt++;
          if (cnt >= 2) r->classes |= 1u << 5;
        }
      }
      if (has_addw && override_on && target == 0 && !(override_req & ~flags) && !addw_logged) {
        v_fail (r, "native:override-ignored", "a rule set registered later for built-in addw qualifies (required 0x%x, flags 0x%x) but the built-in rule was used", override_req, flags);
        return;
      }
      if (n_ext && !seen) { v_fail (r, "native:rule-not-invoked", "the compile succeeded but no application rule was invoked for %d extension instruction(s)", n_ext); return; }
      v_stage (r, "run native mixed program");
      if (chain_run (p, &mix, 1, msg, sizeof msg)) { snprintf (sig, sizeof sig, "native:wrong-result target=%s", target ? "mmx" : "sse"); v_fail (r, sig, "native code built with application rules: %s", msg); return; }
      if (n_ext) r->classes |= 1u << 7;
    } else {
      v_stage (r, "run fallback");
      if (chain_run (p, &mix, 1, msg, sizeof msg)) { v_fail (r, "fallback:wrong-result", "fallback after a missing extension rule: %s", msg); return; }
      r->classes |= 1u << 8;
    }
    orc_program_free (p);
    r->sub_evals++;
  }
  r->nontrivial = n_sets > 0 && r->sub_evals > 0;
  r->sub_nontrivial = r->sub_evals;
  r->hash = v_hash_bytes (v_hash_bytes (0x20, r->desc, r->desc_len), &n_mrs, sizeof n_mrs);
  for (k = 0; k < 2; k++) { orc_program_free (pb[k]); free (code_before[k]); }
}
