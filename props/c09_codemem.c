/* C09 - code memory stays consistent over any history of compiles and frees.
 *
 * (a) allocator level, enumerated: every sequence of allocate(size)/free(live k) of a given depth over the size alphabet
 *     {1, 16, 17, 1000, 30000, 65536}; one forked child per 3-operation prefix, which enumerates all completions.
 * (b) real histories, generated: compile random programs (different code sizes) for avx/sse/mmx, keep up to 40 alive,
 *     take code, free in generated order, re-run.
 * oracle after EVERY step, through the read-only walker hook (orc_verif_codemem_walk): the chunks of every region tile
 *     [0,size) without gap or overlap; no two adjacent free chunks; every live allocation is a used chunk of at least the
 *     requested size inside its region, disjoint from all others, with exec - exec_ptr == code - write_ptr == chunk offset;
 *     used chunks == live allocations; after free-all one whole region can be allocated without a new region; a bounded
 *     working set does not make the number of regions grow.  For (b): the bytes of every live function equal the copy
 *     taken right after compilation and re-execution gives the emulation result.  No placement policy is assumed.
 */
#include "../engine/prog.h"
#include "../engine/tramp.h"
#include <stdlib.h>
#include <orc/orcinternal.h>

const char *vprop_id = "C09";
int vprop_fork = 1;
int vprop_cpu_limit_s = 120;
const char *vprop_class_names[V_NCLASS] = {
  "alloc_enum", "real_history", "free_between_used_and_free", "split_with_live_neighbours", "second_region", "whole_region_request",
  "take_code", "free_out_of_order", "history_ge_20_ops", NULL
};

typedef void (*WalkFn) (void *user, int region_index, void *write_ptr, void *exec_ptr, int region_size,
    int chunk_offset, int chunk_size, int chunk_used, void *chunk);
void orc_verif_codemem_walk (WalkFn fn, void *user);

void vprop_init (int argc, char **argv) { (void) argc; (void) argv; }

/* ---- walker snapshot + invariants ---- */
#define MAXCH 4096
typedef struct { int region, off, size, used; void *chunk; unsigned char *wp, *xp; int rsize; } Ch;
static Ch chs[MAXCH];
static int nch, nregions;

static void walk_cb (void *user, int ri, void *wp, void *xp, int rsize, int off, int size, int used, void *chunk)
{
  (void) user;
  if (nch < MAXCH) { Ch *c = &chs[nch++]; c->region = ri; c->off = off; c->size = size; c->used = used; c->chunk = chunk; c->wp = wp; c->xp = xp; c->rsize = rsize; }
  if (ri + 1 > nregions) nregions = ri + 1;
}

typedef struct { OrcCode *code; int req; int live; } Live;

static int check_invariants (Live *live, int nlive_slots, char *msg, size_t max)
{
  int i, j, used = 0, nlive = 0;
  nch = 0; nregions = 0;
  orc_verif_codemem_walk (walk_cb, NULL);
  for (i = 0; i < nch; i++) {
    int first = i == 0 || chs[i - 1].region != chs[i].region;
    int last = i == nch - 1 || chs[i + 1].region != chs[i].region;
    if (chs[i].size <= 0) { snprintf (msg, max, "region %d: chunk at offset %d has size %d", chs[i].region, chs[i].off, chs[i].size); return 1; }
    if (first && chs[i].off != 0) { snprintf (msg, max, "region %d: first chunk starts at offset %d", chs[i].region, chs[i].off); return 1; }
    if (!first && chs[i].off != chs[i - 1].off + chs[i - 1].size) {
      snprintf (msg, max, "region %d: chunk at %d does not follow the previous one (%d+%d): gap or overlap", chs[i].region, chs[i].off, chs[i - 1].off, chs[i - 1].size); return 1;
    }
    if (last && chs[i].off + chs[i].size != chs[i].rsize) { snprintf (msg, max, "region %d: chunks end at %d, region size %d", chs[i].region, chs[i].off + chs[i].size, chs[i].rsize); return 1; }
    if (!first && !chs[i].used && !chs[i - 1].used) { snprintf (msg, max, "region %d: two adjacent free chunks at %d and %d (not coalesced)", chs[i].region, chs[i - 1].off, chs[i].off); return 1; }
    if (chs[i].used) used++;
  }
  for (i = 0; i < nlive_slots; i++) {
    OrcCode *c;
    if (!live[i].live) continue;
    nlive++;
    c = live[i].code;
    for (j = 0; j < nch; j++) if (chs[j].chunk == (void *) c->chunk) break;
    if (j == nch) { snprintf (msg, max, "live allocation %d (size %d) has no chunk in any region", i, live[i].req); return 1; }
    if (!chs[j].used) { snprintf (msg, max, "live allocation %d (size %d) sits in a chunk marked free (region %d offset %d)", i, live[i].req, chs[j].region, chs[j].off); return 1; }
    if (chs[j].size < live[i].req) { snprintf (msg, max, "live allocation %d: chunk of %d bytes for a request of %d", i, chs[j].size, live[i].req); return 1; }
    if (c->code != chs[j].wp + chs[j].off || (unsigned char *) c->exec != chs[j].xp + chs[j].off) {
      snprintf (msg, max, "live allocation %d: code/exec pointers do not match chunk offset %d of region %d", i, chs[j].off, chs[j].region); return 1;
    }
    if (c->code_size != live[i].req) { snprintf (msg, max, "live allocation %d: code_size %d, requested %d", i, c->code_size, live[i].req); return 1; }
  }
  if (used != nlive) { snprintf (msg, max, "%d chunks are marked used but %d allocations are live", used, nlive); return 1; }
  return 0;
}

/* ---- (a) allocator-level enumeration ---- */
static const int sizes[6] = { 1, 16, 17, 1000, 30000, 65536 };
#define MAXLIVE 12
typedef struct { int op[16]; int n; } Seq;      /* op: 0..5 allocate sizes[op]; 6+k free the k-th live allocation */

static unsigned long long seqs_done, class_bits;

static int run_sequence (const Seq *s, char *msg, size_t max, char *desc, size_t dmax)
{
  Live live[MAXLIVE + 16];
  int nl = 0, i, k, regions_before;
  size_t dl = 0;
  memset (live, 0, sizeof live);
  desc[0] = 0;
  for (i = 0; i < s->n; i++) {
    if (s->op[i] < 6) {
      OrcCode *c = orc_code_new ();
      orc_code_allocate_codemem (c, sizes[s->op[i]]);
      dl += (size_t) snprintf (desc + dl, dl < dmax ? dmax - dl : 0, "alloc(%d) ", sizes[s->op[i]]);
      if (!c->chunk) { snprintf (msg, max, "step %d: allocation of %d bytes failed", i, sizes[s->op[i]]); return 1; }
      live[nl].code = c; live[nl].req = sizes[s->op[i]]; live[nl].live = 1; nl++;
      if (sizes[s->op[i]] == 65536) class_bits |= 1u << 5;
    } else {
      int want = s->op[i] - 6, seen = 0;
      for (k = 0; k < nl; k++) if (live[k].live) { if (seen == want) break; seen++; }
      if (k == nl) continue;
      dl += (size_t) snprintf (desc + dl, dl < dmax ? dmax - dl : 0, "free(#%d:%d) ", k, live[k].req);
      /* classification: neighbours of the chunk being freed */
      {
        int j;
        nch = 0; nregions = 0; orc_verif_codemem_walk (walk_cb, NULL);
        for (j = 0; j < nch; j++) if (chs[j].chunk == (void *) live[k].code->chunk) break;
        if (j < nch) {
          int pu = j > 0 && chs[j - 1].region == chs[j].region ? chs[j - 1].used : -1;
          int nu = j + 1 < nch && chs[j + 1].region == chs[j].region ? chs[j + 1].used : -1;
          if ((pu == 1 && nu == 0) || (pu == 0 && nu == 1)) class_bits |= 1u << 2;
        }
      }
      orc_code_free (live[k].code);
      live[k].live = 0;
    }
    if (check_invariants (live, nl, msg, max)) { size_t l = strlen (msg); snprintf (msg + l, max - l, " [after step %d of: %s]", i, desc); return 1; }
    if (nregions > 1) class_bits |= 1u << 4;
  }
  /* free everything (in allocation order), then one whole region must fit without a new region */
  for (k = 0; k < nl; k++) if (live[k].live) { orc_code_free (live[k].code); live[k].live = 0; }
  if (check_invariants (live, nl, msg, max)) { size_t l = strlen (msg); snprintf (msg + l, max - l, " [after free-all of: %s]", desc); return 1; }
  regions_before = nregions;
  if (regions_before > 0) {
    /* everything is free: as many whole-region requests as there are regions must be served without a new region (every region
       is coalesced and every region is searched), and that twice over (a bounded working set does not make regions grow) */
    OrcCode *cs[64];
    int round, q, nreq = regions_before < 64 ? regions_before : 64;
    for (round = 0; round < 2; round++) {
      for (q = 0; q < nreq; q++) {
        cs[q] = orc_code_new ();
        orc_code_allocate_codemem (cs[q], 65536);
        if (!cs[q]->chunk) { snprintf (msg, max, "after free-all a whole region could not be allocated [%s]", desc); return 1; }
      }
      nch = 0; nregions = 0; orc_verif_codemem_walk (walk_cb, NULL);
      if (nregions != regions_before) {
        snprintf (msg, max, "after free-all %d whole-region request(s) needed new regions (%d -> %d): freed memory is not coalesced/reused [%s]", nreq, regions_before, nregions, desc);
        for (q = 0; q < nreq; q++) orc_code_free (cs[q]);
        return 1;
      }
      for (q = 0; q < nreq; q++) orc_code_free (cs[q]);
    }
  }
  seqs_done++;
  return 0;
}

/* a bounded working set larger than one region, allocated and freed completely, over and over: the number of regions settles */
static int working_set_cycles (int variant, char *msg, size_t max)
{
  static const int wsizes[4] = { 700, 1000, 3000, 20000 };
  OrcCode *cs[256];
  int size = wsizes[variant % 4], count = (variant / 4 + 1) * 70000 / size + 1, cyc, q, after_first = 0;
  if (count > 256) count = 256;
  for (cyc = 0; cyc < 8; cyc++) {
    for (q = 0; q < count; q++) {
      cs[q] = orc_code_new ();
      orc_code_allocate_codemem (cs[q], size);
      if (!cs[q]->chunk) { snprintf (msg, max, "cycle %d: allocation %d of %d bytes failed", cyc, q, size); return 1; }
    }
    nch = 0; nregions = 0; orc_verif_codemem_walk (walk_cb, NULL);
    if (nregions > 1) class_bits |= 1u << 4;
    if (cyc == 0) after_first = nregions;
    else if (nregions > after_first) {
      snprintf (msg, max, "working set of %d x %d bytes, allocated and freed completely each cycle: %d region(s) in cycle 0, %d in cycle %d - released memory is not reused", count, size, after_first, nregions, cyc);
      return 1;
    }
    /* free in an order that depends on the cycle: forwards, backwards, odd/even */
    if (cyc % 3 == 0) for (q = 0; q < count; q++) orc_code_free (cs[q]);
    else if (cyc % 3 == 1) for (q = count - 1; q >= 0; q--) orc_code_free (cs[q]);
    else { for (q = 0; q < count; q += 2) orc_code_free (cs[q]); for (q = 1; q < count; q += 2) orc_code_free (cs[q]); }
  }
  seqs_done++;
  return 0;
}

static int enumerate (Seq *s, int depth, int nlive_now, char *msg, size_t max, char *desc, size_t dmax)
{
  int o;
  if (s->n == depth) return run_sequence (s, msg, max, desc, dmax);
  for (o = 0; o < 6 + nlive_now; o++) {
    int nl2 = nlive_now;
    if (o < 6) { if (nlive_now >= MAXLIVE) continue; nl2++; } else nl2--;
    s->op[s->n++] = o;
    if (enumerate (s, depth, nl2, msg, max, desc, dmax)) return 1;
    s->n--;
  }
  return 0;
}

/* number of 3-op prefixes: enumerate them in a fixed order */
static int prefix_count (void)
{
  int a, b, c, n = 0;
  for (a = 0; a < 6; a++) for (b = 0; b < 6 + 1; b++) for (c = 0; c < 6 + (b < 6 ? 2 : 0); c++) n++;
  return n;
}

static int prefix_get (int idx, int *ops)
{
  int a, b, c, n = 0;
  for (a = 0; a < 6; a++) for (b = 0; b < 6 + 1; b++) for (c = 0; c < 6 + (b < 6 ? 2 : 0); c++) {
    if (n++ == idx) { ops[0] = a; ops[1] = b; ops[2] = c; return 1; }
  }
  return 0;
}

#define N_WS_CYCLES 12
uint64_t vprop_enum_count (const char *tier) { (void) tier; return (uint64_t) prefix_count () + N_WS_CYCLES; }
size_t vprop_enum_stream (uint64_t i, uint32_t *out, size_t max)
{
  (void) max;
  if (i >= (uint64_t) prefix_count ()) { out[0] = 2; out[1] = (uint32_t) (i - (uint64_t) prefix_count ()); return 2; }
  out[0] = 0; out[1] = (uint32_t) i; return 2;
}

/* ---- (b) real histories ---- */
typedef struct { OrcProgram *p; OrcCode *code; ProgSpec *ps; unsigned char *copy; int size; int t; int taken; } Fn;
#define MAXFN 40

static int run_fn (Fn *f, VChoices *c, VResult *r, char *msg, size_t max)
{
  static RunCfg rc;
  RunOpts ro;
  Arena an, ae;
  OrcExecutor exn, exe;
  int bad = 0;
  memset (&ro, 0, sizeof ro);
  ro.n_max = 60; ro.m_max = 3; ro.placement_mask = 1;
  rc_generate (c, f->ps, &ro, &rc);
  if (arena_build (&an, f->ps, &rc, 0) || arena_build (&ae, f->ps, &rc, 0)) { arena_free (&an); arena_free (&ae); return 0; }
  exec_setup (&exn, f->taken ? NULL : f->p, f->code, f->ps, &rc, &an);
  v_stage (r, "re-run a live function");
  v_shielded_call ((void *) f->code->exec, &exn);
  if (f->p) {
    /* after take_code the program no longer owns the code: emulate through the detached code object */
    exec_setup (&exe, f->taken ? NULL : f->p, f->code, f->ps, &rc, &ae);
    orc_executor_emulate (&exe);
    if (arena_compare (&an, &ae, f->ps, &rc, &exn, &exe, msg, max)) bad = 1;
  }
  arena_free (&an); arena_free (&ae);
  return bad;
}

static void real_history (VChoices *c, VResult *r)
{
  static ProgSpec specs[MAXFN];
  Fn fns[MAXFN];
  Live live[MAXFN];
  static const char *tnames[3] = { "avx", "sse", "mmx" };
  char msg[1500];
  int nops = 4 + (int) vc_pick (c, 60), i, k, max_regions = 0, frees_out_of_order = 0;
  memset (fns, 0, sizeof fns);
  memset (live, 0, sizeof live);
  orc_init ();
  v_desc (r, "# C09 real history of %d operations\n", nops);
  for (i = 0; i < nops && r->verdict != V_FAIL; i++) {
    uint32_t what = vc_pick (c, 8);
    int slot = (int) vc_pick (c, MAXFN);
    if (what < 4 && !fns[slot].code) {
      GenOpts go;
      OrcCompileResult res;
      Fn *f = &fns[slot];
      gen_opts_default (&go);
      go.allow_float = 0;
      go.allow_special_loads = 0;      /* keep C01's known findings out of this property */
      go.allow_acc = 0;
      go.max_insns = 1 + (int) vc_pick (c, 40);
      go.exclude_prefix = "op:";
      ps_generate (c, &go, &specs[slot], r);
      f->ps = &specs[slot];
      f->t = (int) vc_pick (c, 3);
      f->p = ps_build (f->ps);
      v_stage (r, "compile for %s", tnames[f->t]);
      res = orc_program_compile_for_target (f->p, orc_target_get_by_name (tnames[f->t]));
      if (!ORC_COMPILE_RESULT_IS_SUCCESSFUL (res) || !f->p->orccode || !f->p->orccode->chunk) { orc_program_free (f->p); f->p = NULL; continue; }
      f->code = f->p->orccode;
      f->size = f->code->code_size;
      f->copy = (unsigned char *) malloc ((size_t) f->size);
      memcpy (f->copy, f->code->code, (size_t) f->size);
      live[slot].code = f->code; live[slot].req = f->size; live[slot].live = 1;
      v_desc (r, "op %d: compile #%d (%d insns, %s) -> %d bytes at %p\n", i, slot, f->ps->nins, tnames[f->t], f->size, (void *) f->code->exec);
    } else if (what == 4 && fns[slot].code && !fns[slot].taken) {
      fns[slot].code = orc_program_take_code (fns[slot].p);
      fns[slot].taken = 1;
      r->classes |= 1u << 6;
      v_desc (r, "op %d: take code of #%d\n", i, slot);
    } else if (what == 5 && fns[slot].code) {
      Fn *f = &fns[slot];
      v_desc (r, "op %d: free #%d\n", i, slot);
      for (k = 0; k < slot; k++) if (fns[k].code) frees_out_of_order = 1;
      v_stage (r, "free function");
      if (f->taken) { orc_code_free (f->code); orc_program_free (f->p); }
      else orc_program_free (f->p);
      free (f->copy);
      memset (f, 0, sizeof *f);
      live[slot].live = 0;
    } else if (fns[slot].code && !fns[slot].ps->has_float) {
      if (run_fn (&fns[slot], c, r, msg, sizeof msg)) { v_fail (r, "history:wrong-result", "function #%d gives wrong results after %d history steps: %s", slot, i, msg); break; }
    } else continue;
    v_stage (r, "check invariants after op %d", i);
    if (check_invariants (live, MAXFN, msg, sizeof msg)) { v_fail (r, "history:allocator-invariant", "after operation %d: %s", i, msg); break; }
    for (k = 0; k < MAXFN; k++) if (fns[k].code && memcmp (fns[k].copy, fns[k].code->code, (size_t) fns[k].size)) {
      v_fail (r, "history:code-bytes-changed", "after operation %d the code bytes of live function #%d differ from what was emitted", i, k); break;
    }
    if (nregions > max_regions) max_regions = nregions;
    r->sub_evals++;
  }
  /* at most 40 functions of < 64 KiB are ever live: the number of regions is bounded by the live set, not by the history */
  if (r->verdict != V_FAIL && max_regions > MAXFN + 1) v_fail (r, "history:regions-grow", "%d regions for at most %d live functions", max_regions, MAXFN);
  for (k = 0; k < MAXFN; k++) if (fns[k].code) { if (fns[k].taken) orc_code_free (fns[k].code); orc_program_free (fns[k].p); free (fns[k].copy); }
  r->classes |= 1u << 1;
  if (frees_out_of_order) r->classes |= 1u << 7;
  if (nops >= 20) r->classes |= 1u << 8;
  if (max_regions > 1) r->classes |= 1u << 4;
  r->nontrivial = r->sub_evals > 2;
  r->sub_nontrivial = r->sub_evals;
  r->hash = v_hash_bytes (0x9, r->desc, r->desc_len);
}

void vprop_case (VChoices *c, VResult *r)
{
  uint32_t mode;
  if (c->n == 2 && c->v[0] == 2) {
    char msg[600];
    int variant = (int) (c->v[1] % N_WS_CYCLES);
    orc_init ();
    v_desc (r, "# C09 bounded working set larger than one region, allocated and freed completely 8 times (variant %d)\n", variant);
    v_stage (r, "working set cycles");
    if (working_set_cycles (variant, msg, sizeof msg)) v_fail (r, "allocator:regions-grow", "%s", msg);
    r->sub_evals = 8; r->sub_nontrivial = 8; r->classes |= (uint32_t) class_bits | 1u; r->nontrivial = 1; r->hash = 0x920000 + (uint64_t) variant;
    return;
  }
  mode = vc_pick (c, 2);
  if (mode == 0 && c->n >= 2 && c->n <= 3) {
    /* enumerated batch: all completions of one 3-operation prefix */
    int idx = (int) vc_pick (c, (uint32_t) prefix_count ()), ops[3], depth = !strcmp (v_arg ("tier", "quick"), "thorough") ? 8 : 6, nl = 0, k;
    Seq s;
    char msg[2500], desc[600];
    orc_init ();
    prefix_get (idx, ops);
    memset (&s, 0, sizeof s);
    for (k = 0; k < 3; k++) {
      if (ops[k] >= 6 + nl) { r->verdict = V_DISCARD; return; }
      s.op[s.n++] = ops[k];
      nl += ops[k] < 6 ? 1 : -1;
    }
    v_desc (r, "# C09 allocator sequences of depth %d starting with ops (%d,%d,%d) [0-5 = allocate {1,16,17,1000,30000,65536}, 6+k = free k-th live]\n", depth, ops[0], ops[1], ops[2]);
    v_stage (r, "enumerating allocator sequences");
    if (enumerate (&s, depth, nl, msg, sizeof msg, desc, sizeof desc)) v_fail (r, "allocator-invariant", "%s", msg);
    r->sub_evals = seqs_done; r->sub_nontrivial = seqs_done;
    r->classes |= (uint32_t) class_bits | 1u;
    r->nontrivial = 1;
    r->hash = 0x900000 + (uint64_t) idx;
    v_desc (r, "# %llu complete sequences checked after every step\n", seqs_done);
    return;
  }
  real_history (c, r);
}
