/* C05 - compilation always terminates, classifies its result, never corrupts memory.  (ASan + UBSan build)
 *
 * case = a program built through the public construction API in one of three ways
 *     valid      : a generated well-typed program (1..90 instructions, every feature)
 *     mutated    : a valid program plus 1..12 arbitrary API calls: instructions with any opcode, any prefix combination and any
 *                  variable indices in 0..63 (wrong class, wrong size, undeclared), variables with odd sizes (0, 3, 5, 16) and
 *                  alignments, unknown opcode / operand names through the *_str entry points, odd n/m settings
 *     over-limit : more instructions than ORC_N_INSNS, more variables of a class than ORC_MAX_*_VARS, long chains needing more
 *                  temporaries than the compiler has
 *   x 1..3 of the 8 registered targets (avx, sse, mmx, altivec, neon, mips, c64x-c, c) x default or arbitrary target flags.
 * oracle: orc_program_compile_full returns (CPU limit 20 s per case, normal compiles take milliseconds), ASan/UBSan silent, the
 *   result is one of the documented codes; fatal (>= 0x200): no code object is attached; successful (< 0x100): a code object
 *   with executable code and a listing is attached, and for a valid program on an executable target with its default flags (other flag sets may describe another
 *   machine mode, e.g. 32-bit code) the code runs and matches emulation; any other result: the program still runs through orc_executor_run (emulation) without
 *   crashing (valid programs).  The program can always be freed afterwards.
 */
#include "../engine/prog.h"
#include "../engine/tramp.h"
#include <stdlib.h>

const char *vprop_id = "C05";
int vprop_fork = 1;
int vprop_cpu_limit_s = 20;
const char *vprop_class_names[V_NCLASS] = {
  "valid", "mutated", "over_limit", "target_avx", "target_sse", "target_mmx", "target_altivec", "target_neon", "target_mips",
  "target_c64x", "target_c", "odd_flags", "result_ok", "result_nonfatal_failure", "result_fatal", "ran_native", "ran_fallback",
  "long_program_ge_50", "valid_program_got_fatal_result", "systematic_single_instruction", "mutated_program_accepted_and_emulated", NULL
};

static const char *tnames[8] = { "avx", "sse", "mmx", "altivec", "neon", "mips", "c64x-c", "c" };
static OrcOpcodeSet *sys_set;

static void quiet_print (int level, const char *file, const char *func, int line, const char *fmt, va_list args)
{
  /* errors (assertion messages) stay visible, the rest is dropped */
  if (level == ORC_DEBUG_ERROR) { fprintf (stderr, "ORC ERROR %s:%d %s: ", file, line, func); vfprintf (stderr, fmt, args); fputc ('\n', stderr); }
}

/* ---- which opcodes cost a back end most: measured, not known.  Every opcode of simple shape is compiled alone for every target;
   the listing is scanned for label definitions and literal-pool style lines and the code size is read.  The "resource-heavy"
   over-limit programs then chain the top N distinct opcodes of one ranking, which is what fills per-opcode tables (labels,
   fixups, pooled constants) and the code buffer ---- */
#define RANK_MAX 64
static int rank_ops[8][3][RANK_MAX], rank_n[8][3];
static const char *rk_tn[9] = { 0, "pt1", "pt2", 0, "pt4", 0, 0, 0, "pt8" }, *rk_un[9] = { 0, "pu1", "pu2", 0, "pu4", 0, 0, 0, "pu8" };
static const char *rk_sn[9] = { 0, "ps1", "ps2", 0, "ps4", 0, 0, 0, "ps8" }, *rk_cp[9] = { 0, "copyb", "copyw", 0, "copyl", 0, 0, 0, "copyq" };
static int rank_simple (const VOp *op)
{
  if (op->flags & (VOP_LOAD | VOP_STORE | VOP_ACC | VOP_SCALAR | VOP_INVARIANT)) return 0;
  if (op->dsz[1] || op->ssz[2] || !op->ssz[0] || op->dsz[0] > 8 || op->ssz[0] > 8 || op->ssz[1] > 8) return 0;
  return 1;
}
static void rank_prologue (OrcProgram *p)
{
  int q;
  orc_program_add_destination (p, 1, "pd");
  for (q = 1; q <= 8; q *= 2) { orc_program_add_source (p, q, rk_sn[q]); orc_program_add_temporary (p, q, rk_tn[q]); orc_program_add_temporary (p, q, rk_un[q]); }
  for (q = 1; q <= 8; q *= 2) { orc_program_append_str (p, rk_cp[q], rk_tn[q], rk_sn[q], NULL); orc_program_append_str (p, rk_cp[q], rk_un[q], rk_sn[q], NULL); }
}
static void rank_init (void)
{
  int t, o, m, i, j;
  static long score[2][256];
  for (t = 0; t < 8; t++) {
    OrcTarget *target = orc_target_get_by_name (tnames[t]);
    unsigned tf = orc_target_get_default_flags (target);
    long base[2] = { 0, 0 };
    for (o = -1; o < v_noptab && o < 256; o++) {
      OrcProgram *p;
      OrcCompileResult res;
      const char *a;
      long lab = 0, size = 0;
      if (o >= 0) {
        OrcStaticOpcode *so = orc_opcode_find_by_name (v_optab[o].name);
        score[0][o] = score[1][o] = -1;
        if (!rank_simple (&v_optab[o]) || !so || !orc_target_get_rule (target, so, tf)) continue;
      }
      p = orc_program_new ();
      rank_prologue (p);
      if (o >= 0) orc_program_append_str (p, v_optab[o].name, rk_un[v_optab[o].dsz[0]], rk_tn[v_optab[o].ssz[0]], v_optab[o].ssz[1] ? rk_tn[v_optab[o].ssz[1]] : NULL);
      orc_program_append_str (p, "copyb", "pd", "pu1", NULL);
      res = orc_program_compile_full (p, target, tf);
      if (ORC_COMPILE_RESULT_IS_SUCCESSFUL (res) && p->orccode && (a = orc_program_get_asm_code (p)) != NULL) {
        const char *q;
        for (q = a; *q; q++) {
          if (*q == ':' && (q[1] == '\n' || q[1] == 0)) lab++;              /* a label definition ends its line */
          if (*q == '.' && (!strncmp (q, ".long", 5) || !strncmp (q, ".word", 5) || !strncmp (q, ".quad", 5))) lab++;
        }
        size = p->orccode->code_size;
        if (o < 0) { base[0] = lab; base[1] = size; }
        else { score[0][o] = lab - base[0]; score[1][o] = size - base[1]; }
      }
      orc_program_free (p);
    }
    /* rankings: 0 most labels/pool lines first, 1 largest code first, 2 fewest (but at least one) labels/pool lines first - the
       opcodes that need one table entry each fill a table while using little else */
    for (m = 0; m < 3; m++) {
      int sm = m == 1 ? 1 : 0;
      rank_n[t][m] = 0;
      for (i = 0; i < RANK_MAX; i++) {
        int best = -1;
        for (o = 0; o < v_noptab && o < 256; o++) {
          int used = 0;
          if (score[sm][o] < 0) continue;
          if (m == 2 && score[sm][o] == 0) continue;
          for (j = 0; j < rank_n[t][m]; j++) if (rank_ops[t][m][j] == o) used = 1;
          if (used) continue;
          if (best < 0 || (m == 2 ? score[sm][o] < score[sm][best] : score[sm][o] > score[sm][best])) best = o;
        }
        if (best < 0) break;
        rank_ops[t][m][rank_n[t][m]++] = best;
      }
    }
  }
}

void vprop_init (int argc, char **argv)
{
  (void) argc; (void) argv;
  orc_init ();
  orc_debug_set_print_function (quiet_print);
  sys_set = orc_opcode_set_get ("sys");
  rank_init ();
}
/* enumerated stage: one case per (opcode, prefix); the case walks every operand position x every way of spoiling it x array/temporary
 * operands x every target inside the child */
/* then: 8 targets x 2 rankings x every length 3..52 of the "N most expensive opcodes, one instruction each" programs */
#define N_HEAVY_ENUM (8 * 3 * 50 * 2)
#define N_REGRESS_DECL 16
uint64_t vprop_enum_count (const char *tier) { (void) tier; return (uint64_t) v_noptab * 3 + N_HEAVY_ENUM + N_REGRESS_DECL; }
size_t vprop_enum_stream (uint64_t i, uint32_t *out, size_t max)
{
  (void) max;
  if (i >= (uint64_t) v_noptab * 3 + N_HEAVY_ENUM) { out[0] = 0xE5E5E5E7u; out[1] = (uint32_t) (i - (uint64_t) v_noptab * 3 - N_HEAVY_ENUM); return 2; }
  if (i >= (uint64_t) v_noptab * 3) {
    uint64_t k = i - (uint64_t) v_noptab * 3;
    out[0] = 0xE5E5E5E6u; out[1] = (uint32_t) (k % 8); out[2] = (uint32_t) ((k / 8) % 3); out[3] = 3 + (uint32_t) ((k / 24) % 50); out[4] = (uint32_t) (k / 1200);
    return 5;
  }
  out[0] = 0xE5E5E5E5u; out[1] = (uint32_t) (i / 3); out[2] = (uint32_t) (i % 3); return 3;
}

static int declared[ORC_N_VARIABLES], n_declared;
static void collect_declared (OrcProgram *p)
{
  int i;
  n_declared = 0;
  for (i = 0; i < ORC_N_VARIABLES; i++) if (p->vars[i].name) declared[n_declared++] = i;   /* by name: variables of size 0 count */
}
static int any_var (VChoices *c)
{
  uint32_t k = vc_pick (c, 4);
  if (k && n_declared) return declared[vc_pick (c, (uint32_t) n_declared)];
  return (int) vc_pick (c, ORC_N_VARIABLES);
}
static const char *var_name (OrcProgram *p, VChoices *c)
{
  static const char *odd[] = { "nosuchvar", "", "d9", "0x10", "12", "-3", "1.5", "s1 ", "_4.7" };
  uint32_t k = vc_pick (c, 6);
  if (k >= 2 && n_declared) { int v = declared[vc_pick (c, (uint32_t) n_declared)]; if (p->vars[v].name) return p->vars[v].name; }
  return odd[vc_pick (c, 9)];
}

/* a nearly valid instruction: fresh variables of exactly the class and size every operand position asks for (size = prefix
 * multiplier x operand size, so x4 on 4- and 8-byte opcodes asks for 16- and 32-byte variables), then at most one position is
 * spoiled: odd size, wrong class, or an undeclared variable */
static void near_valid (OrcProgram *p, VChoices *c, VResult *r, int k)
{
  static const int odd_sizes[] = { 3, 16, 5, 1, 2, 4, 8, 32, -1, 0 };
  const VOp *op = &v_optab[vc_pick (c, (uint32_t) v_noptab)];
  static const unsigned pf[3] = { 0, ORC_INSTRUCTION_FLAG_X2, ORC_INSTRUCTION_FLAG_X4 };
  uint32_t praw = vc_u32 (c), pi = praw % 3;
  unsigned extra = (praw / 3) % 4 == 3 ? 1u << (2 + (praw / 12) % 6) : 0;    /* a flag bit that is not a prefix (upper bits of the same choice) */
  int mult = pi == 0 ? 1 : pi == 1 ? 2 : 4, npos = 0, pos, args[5] = { 0, 0, 0, 0, 0 }, j, spoil;
  uint32_t how = vc_pick (c, 4);
  char nm[24];
  for (j = 0; j < 2; j++) if (op->dsz[j]) npos++;
  for (j = 0; j < 3; j++) if (op->ssz[j]) npos++;
  spoil = vc_pick (c, 3) == 0 ? -1 : (int) vc_pick (c, (uint32_t) npos);
  if (op->flags & VOP_INVARIANT) return;
  v_desc (r, "mutation: near-valid %s%s", mult == 2 ? "x2 " : mult == 4 ? "x4 " : "", op->name);
  pos = 0;
  for (j = 0; j < 2; j++) {
    int size;
    if (!op->dsz[j]) continue;
    size = (op->flags & VOP_ACC) ? op->dsz[j] : op->dsz[j] * mult;
    snprintf (nm, sizeof nm, "nd%d_%d", k, j);
    if (pos == spoil && how == 0) size = odd_sizes[vc_pick (c, 10)];
    if (pos == spoil && how == 1) args[pos] = orc_program_add_source (p, size, nm);
    else if (pos == spoil && how == 2) args[pos] = orc_program_add_constant (p, size, 5, nm);
    else if (pos == spoil && how == 3) args[pos] = (int) vc_pick (c, ORC_N_VARIABLES);
    else if (op->flags & VOP_ACC) args[pos] = orc_program_add_accumulator (p, size, nm);
    else if (vc_chance (c, 1, 2)) args[pos] = orc_program_add_destination (p, size, nm);
    else args[pos] = orc_program_add_temporary (p, size, nm);
    v_desc (r, " d%d=%d(size %d)", j, args[pos], size);
    pos++;
  }
  for (j = 0; j < 3; j++) {
    int size, scalar = (op->flags & VOP_SCALAR) && j >= 1;
    if (!op->ssz[j]) continue;
    size = (scalar || ((op->flags & VOP_LOAD) && j == 0)) ? op->ssz[j] : op->ssz[j] * mult;
    snprintf (nm, sizeof nm, "ns%d_%d", k, j);
    if (pos == spoil && how == 0) size = odd_sizes[vc_pick (c, 10)];
    if (pos == spoil && how == 1) args[pos] = orc_program_add_accumulator (p, size, nm);
    else if (pos == spoil && how == 3) args[pos] = (int) vc_pick (c, ORC_N_VARIABLES);
    else if (scalar || vc_chance (c, 1, 4)) args[pos] = vc_chance (c, 1, 2) ? orc_program_add_constant (p, size, (int) vc_pick (c, 40), nm) : orc_program_add_parameter (p, size, nm);
    else args[pos] = orc_program_add_source (p, size, nm);
    v_desc (r, " s%d=%d(size %d)", j, args[pos], size);
    pos++;
  }
  v_desc (r, " spoiled position %d how %u\n", spoil, how);
  /* operands are passed destinations first, then sources, as orc_program_append_2 expects */
  if (extra) v_desc (r, "mutation: ... with extra flag bits 0x%x\n", extra);
  orc_program_append_2 (p, op->name, pf[pi] | extra, args[0], args[1], args[2], args[3]);
}

static const int sys_sizes[] = { 3, 16, 5, 32, 1, 2, 4, 8, 6, 0, -1 };
#define N_SIZES 11
#define N_SPOIL (N_SIZES + 6)  /* 11 sizes, wrong class, constant/accumulator in the wrong role, undeclared variable, flag bit 2, flag bit 3, nothing spoiled */
static void emulate_accepted (OrcProgram *p, VResult *r, const char *tname);
static void classify (OrcProgram *p, OrcCompileResult res, int t, VResult *r, const char *what)
{
  char sig[V_SIG_MAX];
  if (res != ORC_COMPILE_RESULT_OK && res != ORC_COMPILE_RESULT_UNKNOWN_COMPILE && res != ORC_COMPILE_RESULT_MISSING_RULE
      && res != ORC_COMPILE_RESULT_UNKNOWN_PARSE && res != ORC_COMPILE_RESULT_PARSE && res != ORC_COMPILE_RESULT_VARIABLE) {
    snprintf (sig, sizeof sig, "classification:undocumented-result target=%s", tnames[t]);
    v_fail (r, sig, "%s: orc_program_compile_full returned 0x%x, which is none of the documented result codes", what, res);
  } else if (ORC_COMPILE_RESULT_IS_FATAL (res)) {
    if (p->orccode != NULL && p->orccode->exec != NULL && (void *) p->orccode->exec != (void *) orc_executor_emulate) {
      snprintf (sig, sizeof sig, "classification:fatal-with-code target=%s", tnames[t]);
      v_fail (r, sig, "%s: fatal result %s but the program carries executable code", what, v_result_name (res));
    }
  } else if (ORC_COMPILE_RESULT_IS_SUCCESSFUL (res)) {
    if (!p->orccode || !orc_program_get_asm_code (p) || (t < 3 && (!p->orccode->exec || !p->code_exec || p->orccode->code_size <= 0))) {
      snprintf (sig, sizeof sig, "classification:success-without-code target=%s", tnames[t]);
      v_fail (r, sig, "%s: successful result but code object/exec pointer/listing missing", what);
    }
  } else if (!p->orccode) {
    snprintf (sig, sizeof sig, "classification:nonfatal-without-emulation target=%s", tnames[t]);
    v_fail (r, sig, "%s: non-fatal failure %s but no code object to emulate from", what, v_result_name (res));
  } else if ((void *) p->code_exec != (void *) orc_executor_emulate && p->code_exec != p->backup_func) {
    snprintf (sig, sizeof sig, "classification:nonfatal-not-falling-back target=%s", tnames[t]);
    v_fail (r, sig, "%s: non-fatal failure %s but code_exec does not point to the emulator", what, v_result_name (res));
  }
}

static void systematic (VResult *r, int o, int pi)
{
  const VOp *op = &v_optab[o % v_noptab];
  static const unsigned pf[3] = { 0, ORC_INSTRUCTION_FLAG_X2, ORC_INSTRUCTION_FLAG_X4 };
  int mult = pi == 0 ? 1 : pi == 1 ? 2 : 4, npos = 0, j, spoil, sk, variant, t;
  char what[200];
  for (j = 0; j < 2; j++) if (op->dsz[j]) npos++;
  for (j = 0; j < 3; j++) if (op->ssz[j]) npos++;
  v_desc (r, "# C05 systematic: %s%s, every operand position x %d ways of spoiling it x array/temporary operands x 8 targets\n",
      mult == 2 ? "x2 " : mult == 4 ? "x4 " : "", op->name, N_SPOIL);
  r->classes |= 1u << 19;
  if (op->flags & VOP_INVARIANT) { r->verdict = V_DISCARD; return; }
  for (spoil = 0; spoil < npos; spoil++)
    for (sk = 0; sk < N_SPOIL; sk++)
      for (variant = 0; variant < 2; variant++)
        for (t = 0; t < 8; t++) {
          OrcProgram *p = orc_program_new ();
          OrcCompileResult res;
          int pos = 0, args[5] = { 0, 0, 0, 0, 0 };
          char nm[16];
          if (sk >= N_SIZES + 3 && spoil > 0) { orc_program_free (p); continue; }      /* "nothing spoiled" and the flag bits once */
          for (j = 0; j < 2; j++) {
            int size;
            if (!op->dsz[j]) continue;
            size = (op->flags & VOP_ACC) ? op->dsz[j] : op->dsz[j] * mult;
            snprintf (nm, sizeof nm, "d%d", j);
            if (pos == spoil && sk < N_SIZES) size = sys_sizes[sk];
            if (pos == spoil && sk == N_SIZES) args[pos] = orc_program_add_source (p, size, nm);
            else if (pos == spoil && sk == N_SIZES + 1) args[pos] = orc_program_add_constant (p, size, 5, nm);
            else if (pos == spoil && sk == N_SIZES + 2) args[pos] = ORC_VAR_T1 + 7;
            else if (op->flags & VOP_ACC) args[pos] = orc_program_add_accumulator (p, size, nm);
            else if (variant == 0) args[pos] = orc_program_add_destination (p, size, nm);
            else args[pos] = orc_program_add_temporary (p, size, nm);
            pos++;
          }
          for (j = 0; j < 3; j++) {
            int size, scalar = (op->flags & VOP_SCALAR) && j >= 1;
            if (!op->ssz[j]) continue;
            size = (scalar || ((op->flags & VOP_LOAD) && j == 0)) ? op->ssz[j] : op->ssz[j] * mult;
            snprintf (nm, sizeof nm, "s%d", j);
            if (pos == spoil && sk < N_SIZES) size = sys_sizes[sk];
            if (pos == spoil && sk == N_SIZES) args[pos] = orc_program_add_destination (p, size, nm);
            else if (pos == spoil && sk == N_SIZES + 1) args[pos] = orc_program_add_accumulator (p, size, nm);
            else if (pos == spoil && sk == N_SIZES + 2) args[pos] = ORC_VAR_T1 + 9;
            else if (scalar) args[pos] = variant == 0 ? orc_program_add_constant (p, size, 3, nm) : orc_program_add_parameter (p, size, nm);
            else if (variant == 0 || ((op->flags & VOP_LOAD) && j == 0)) args[pos] = orc_program_add_source (p, size, nm);
            else { args[pos] = orc_program_add_temporary (p, size, nm); }
            pos++;
          }
          /* flag bits other than the prefixes belong to the compiler (invariant, added): callers may pass anything */
          orc_program_append_2 (p, op->name, pf[pi] | (sk == N_SIZES + 3 ? 1u << 2 : sk == N_SIZES + 4 ? 1u << 3 : 0), args[0], args[1], args[2], args[3]);
          snprintf (what, sizeof what, "%s%s position %d spoil %d variant %d target %s", mult == 2 ? "x2 " : mult == 4 ? "x4 " : "", op->name, spoil, sk, variant, tnames[t]);
          v_stage (r, "compile %s", what);
          res = orc_program_compile_full (p, orc_target_get_by_name (tnames[t]), orc_target_get_default_flags (orc_target_get_by_name (tnames[t])));
          classify (p, res, t, r, what);
          /* what the compiler accepts "stays runnable by emulation" */
          if (r->verdict != V_FAIL && !ORC_COMPILE_RESULT_IS_FATAL (res) && p->orccode && (t == 0 || t == 7)) emulate_accepted (p, r, tnames[t]);
          orc_program_free (p);
          r->sub_evals++;
          if (r->verdict == V_FAIL) return;
        }
  r->nontrivial = 1;
  r->sub_nontrivial = r->sub_evals;
  r->hash = 0xE5000000u + (uint64_t) o * 4 + (uint64_t) pi;
}

static void mutate (OrcProgram *p, VChoices *c, VResult *r)
{
  static const int odd_sizes[] = { 0, 3, 5, 16, 1, 2, 4, 8, 7, 32 };
  static const unsigned prefix[] = { 0, ORC_INSTRUCTION_FLAG_X2, ORC_INSTRUCTION_FLAG_X4, ORC_INSTRUCTION_FLAG_X2 | ORC_INSTRUCTION_FLAG_X4 };
  int nmut = 1 + (int) vc_pick (c, 12), k;
  char nm[24];
  for (k = 0; k < nmut; k++) {
    uint32_t m = vc_pick (c, 20);
    const char *opname = sys_set->opcodes[vc_pick (c, (uint32_t) sys_set->n_opcodes)].name;
    collect_declared (p);
    snprintf (nm, sizeof nm, "x%d", k);
    switch (m) {
      case 0: case 1: case 2: {
        int a0 = any_var (c), a1 = any_var (c), a2 = any_var (c), a3 = any_var (c);
        uint32_t fraw = vc_u32 (c);
        unsigned f = prefix[fraw % 4];
        if ((fraw / 4) % 4 == 3) f |= 1u << (2 + (fraw / 16) % 8);      /* bits that are not prefixes (upper bits of the same choice) */
        v_desc (r, "mutation: append_2 %s flags=%u args %d %d %d %d\n", opname, f, a0, a1, a2, a3);
        orc_program_append_2 (p, opname, f, a0, a1, a2, a3);
        break;
      }
      case 3: { int a0 = any_var (c), a1 = any_var (c), a2 = any_var (c); v_desc (r, "mutation: append %s %d %d %d\n", opname, a0, a1, a2); orc_program_append (p, opname, a0, a1, a2); break; }
      case 4: { int a0 = any_var (c), a1 = any_var (c); v_desc (r, "mutation: append_ds %s %d %d\n", opname, a0, a1); orc_program_append_ds (p, opname, a0, a1); break; }
      case 5: {
        const char *op2 = vc_chance (c, 1, 4) ? "nosuchopcode" : opname;
        const char *a = var_name (p, c), *b = var_name (p, c), *d = var_name (p, c);
        v_desc (r, "mutation: append_str %s '%s' '%s' '%s'\n", op2, a, b, d);
        orc_program_append_str (p, op2, a, b, d);
        break;
      }
      case 6: {
        const char *a = var_name (p, c), *b = var_name (p, c), *d = var_name (p, c), *e = var_name (p, c);
        uint32_t fraw = vc_u32 (c);
        unsigned f = prefix[fraw % 4];
        if ((fraw / 4) % 4 == 3) f |= 1u << (2 + (fraw / 16) % 8);
        v_desc (r, "mutation: append_str_2 %s flags=%u '%s' '%s' '%s' '%s'\n", opname, f, a, b, d, e);
        orc_program_append_str_2 (p, opname, f, a, b, d, vc_chance (c, 1, 2) ? e : NULL);
        break;
      }
      case 7: { const char *a = var_name (p, c), *b = var_name (p, c); v_desc (r, "mutation: append_ds_str %s '%s' '%s'\n", opname, a, b); orc_program_append_ds_str (p, opname, a, b); break; }
      case 8: { const char *a = var_name (p, c), *b = var_name (p, c), *d = var_name (p, c); v_desc (r, "mutation: append_dds_str %s '%s' '%s' '%s'\n", opname, a, b, d); orc_program_append_dds_str (p, opname, a, b, d); break; }
      case 9: {
        uint32_t sraw = vc_u32 (c);
        int size = odd_sizes[sraw % 10];
        if ((sraw / 10) % 5 == 4) size = -(1 + (int) ((sraw / 50) % 9));      /* negative sizes (upper bits of the same choice) */
        uint32_t cls = vc_pick (c, 7);
        v_desc (r, "mutation: add variable class %u size %d name %s\n", cls, size, nm);
        switch (cls) {
          case 0: orc_program_add_source_full (p, size, nm, vc_chance (c, 1, 2) ? "weird type" : NULL, (int) vc_pick (c, 40)); break;
          case 1: orc_program_add_destination_full (p, size, nm, NULL, (int) vc_pick (c, 40)); break;
          case 2: orc_program_add_temporary (p, size, nm); break;
          case 3: orc_program_add_accumulator (p, size, nm); break;
          case 4: orc_program_add_constant (p, size, (int) vc_u32 (c), nm); break;
          case 5: orc_program_add_parameter (p, size, nm); break;
          default: orc_program_add_parameter_double (p, size, nm); break;
        }
        break;
      }
      case 10: {
        uint32_t w = vc_pick (c, 6);
        int v = (int) vc_pick (c, 70) - 3;
        v_desc (r, "mutation: setting %u = %d\n", w, v);
        if (w == 0) orc_program_set_constant_n (p, v);
        else if (w == 1) orc_program_set_n_multiple (p, v);
        else if (w == 2) orc_program_set_n_minimum (p, v);
        else if (w == 3) orc_program_set_n_maximum (p, v);
        else if (w == 4) orc_program_set_2d (p);
        else orc_program_set_constant_m (p, v);
        break;
      }
      case 12: case 13: case 14: case 15: case 16: case 17: case 18: case 19: near_valid (p, c, r, k); break;
      default: {
        int var = any_var (c), al = (int) vc_pick (c, 70);
        v_desc (r, "mutation: alignment of var %d = %d\n", var, al);
        orc_program_set_var_alignment (p, var, al);
        break;
      }
    }
  }
}

static void over_limit (OrcProgram *p, VChoices *c, VResult *r, OrcTarget *target, unsigned target_flags)
{
  uint32_t wraw = vc_u32 (c), what = wraw % 11;
  int count, k;
  char nm[24];
  switch (what) {
    case 8: case 9: case 10: {          /* long chains of the opcodes with the longest machine-code expansions (code buffer capacity) */
      static const struct { const char *op1, *op2; int dsz, ssz; } heavy[] = {
        { "divluw", NULL, 2, 2 }, { "mulhsl", "subusl", 4, 4 }, { "mulhul", "avgul", 4, 4 }, { "minf", "maxf", 4, 4 }, { "mind", "maxd", 8, 8 },
        { "divluw", "mulhuw", 2, 2 }, { "subusl", "addusl", 4, 4 }, { "divf", "sqrtf", 4, 4 }, { "cmpgtsq", "subssl", 8, 8 }, { "mulll", "avgsl", 4, 4 }
      };
      uint32_t h = vc_pick (c, 10);
      const char *cp = heavy[h].dsz == 2 ? "copyw" : heavy[h].dsz == 4 ? "copyl" : "copyq";
      if ((wraw / 11) % 3 == 1) {
        /* many arrays and a long chain: back ends that emit one loop per alignment combination of the arrays (MIPS) multiply
           the body by the number of combinations */
        static const char *bops[] = { "addb", "subb", "avgub", "addb", "subb", "avgub", "addb", "addb" };   /* the byte operations every back end has rules for */
        int ns = 4 + (int) (h % 4), q;
        count = 16 + (int) vc_pick (c, 60);
        orc_program_add_destination (p, 1, "wd");
        for (q = 0; q < ns; q++) { snprintf (nm, sizeof nm, "ws%d", q); orc_program_add_source (p, 1, nm); }
        orc_program_add_temporary (p, 1, "wt");
        v_desc (r, "over-limit: %d byte operations over %d source arrays\n", count, ns);
        orc_program_append_str (p, "copyb", "wt", "ws0", NULL);
        for (k = 0; k < count; k++) { snprintf (nm, sizeof nm, "ws%d", k % ns); orc_program_append_str (p, bops[(k + (int) h) % 8], "wt", "wt", nm); }
        orc_program_append_str (p, "copyb", "wd", "wt", NULL);
        break;
      }
      if ((wraw / 11) % 3 == 2) {
        /* the N opcodes that, compiled alone for this target, define the most labels / pool entries (or produce the most code),
           one instruction each: fills per-opcode tables (labels, fixups, pooled constants) and the code buffer */
        int tt = 0, m = (int) (h % 3), skip = (int) ((h / 3) % 3), done = 0;
        for (tt = 0; tt < 8; tt++) if (orc_target_get_by_name (tnames[tt]) == target) break;
        if (tt == 8) tt = 0;
        count = 4 + (int) vc_pick (c, 48);
        rank_prologue (p);
        v_desc (r, "over-limit: the %d opcodes with the %s when compiled alone for %s (skipping the first %d), one instruction each:", count,
            m == 1 ? "largest code" : m == 2 ? "fewest (at least one) labels and pool entries" : "most labels and pool entries", tnames[tt], skip);
        for (k = skip; k < rank_n[tt][m] && done < count; k++) {
          const VOp *op = &v_optab[rank_ops[tt][m][k]];
          orc_program_append_str (p, op->name, rk_un[op->dsz[0]], rk_tn[op->ssz[0]], op->ssz[1] ? rk_tn[op->ssz[1]] : NULL);
          v_desc (r, " %s", op->name);
          done++;
        }
        v_desc (r, "\n");
        orc_program_append_str (p, "copyb", "pd", "pu1", NULL);
        break;
      }
      count = 20 + (int) vc_pick (c, 42);
      orc_program_add_destination (p, heavy[h].dsz, "hd");
      orc_program_add_source (p, heavy[h].ssz, "hs1");
      orc_program_add_source (p, heavy[h].ssz, "hs2");
      orc_program_add_temporary (p, heavy[h].dsz, "ht1");
      orc_program_add_temporary (p, heavy[h].dsz, "ht2");
      v_desc (r, "over-limit: chain of %d x %s%s%s on temporaries\n", count, heavy[h].op1, heavy[h].op2 ? " / " : "", heavy[h].op2 ? heavy[h].op2 : "");
      orc_program_append_str (p, cp, "ht1", "hs1", NULL);
      orc_program_append_str (p, cp, "ht2", "hs2", NULL);
      for (k = 0; k < count; k++) {
        const char *op = (heavy[h].op2 && (k & 1)) ? heavy[h].op2 : heavy[h].op1;
        if (!strcmp (op, "sqrtf")) orc_program_append_str (p, op, "ht1", "ht1", NULL);
        else orc_program_append_str (p, op, "ht1", "ht1", "ht2");
      }
      orc_program_append_str (p, cp, "hd", "ht1", NULL);
      break;
    }
    case 0: case 1: {                   /* many instructions */
      const char *ops[] = { "addw", "mullw", "shrsw", "xorw", "convsuswb", "mulhsw", "avgsw" };
      count = 95 + (int) vc_pick (c, 220);
      orc_program_add_destination (p, 2, "od");
      orc_program_add_source (p, 2, "os");
      orc_program_add_temporary (p, 2, "ot");
      orc_program_add_destination (p, 1, "ob");
      v_desc (r, "over-limit: %d further instructions\n", count);
      orc_program_append_str (p, "copyw", "ot", "os", NULL);
      for (k = 0; k < count; k++) {
        const char *op = ops[vc_pick (c, 7)];
        if (!strcmp (op, "convsuswb")) orc_program_append_str (p, op, "ob", "ot", NULL);
        else if (!strcmp (op, "shrsw")) orc_program_append_str (p, op, "ot", "ot", "3");
        else orc_program_append_str (p, op, "ot", "ot", "os");
      }
      orc_program_append_str (p, "copyw", "od", "ot", NULL);
      break;
    }
    case 2: count = 6 + (int) vc_pick (c, 40); v_desc (r, "over-limit: %d further sources\n", count); for (k = 0; k < count; k++) { snprintf (nm, sizeof nm, "xs%d", k); orc_program_add_source (p, 1 << vc_pick (c, 4), nm); } break;
    case 3: count = 3 + (int) vc_pick (c, 40); v_desc (r, "over-limit: %d further destinations\n", count); for (k = 0; k < count; k++) { snprintf (nm, sizeof nm, "xd%d", k); orc_program_add_destination (p, 1 << vc_pick (c, 4), nm); } break;
    case 4: count = 12 + (int) vc_pick (c, 60); v_desc (r, "over-limit: %d further temporaries\n", count); for (k = 0; k < count; k++) { snprintf (nm, sizeof nm, "xt%d", k); orc_program_add_temporary (p, 1 << vc_pick (c, 4), nm); } break;
    case 5: count = 6 + (int) vc_pick (c, 40); v_desc (r, "over-limit: %d further constants/parameters\n", count);
      for (k = 0; k < count; k++) { snprintf (nm, sizeof nm, "xc%d", k); if (vc_chance (c, 1, 2)) orc_program_add_constant (p, 4, k * 77, nm); else orc_program_add_parameter (p, 4, nm); } break;
    case 6: count = 3 + (int) vc_pick (c, 20); v_desc (r, "over-limit: %d further accumulators\n", count); for (k = 0; k < count; k++) { snprintf (nm, sizeof nm, "xa%d", k); orc_program_add_accumulator (p, 4, nm); } break;
    default: {                          /* wide expression: many live temporaries */
      count = 10 + (int) vc_pick (c, 30);
      orc_program_add_destination (p, 2, "od");
      orc_program_add_source (p, 2, "os");
      v_desc (r, "over-limit: %d live temporaries\n", count);
      for (k = 0; k < count; k++) { snprintf (nm, sizeof nm, "w%d", k); orc_program_add_temporary (p, 2, nm); orc_program_append_str (p, "addw", nm, "os", k ? "os" : "os"); }
      for (k = 1; k < count; k++) { snprintf (nm, sizeof nm, "w%d", k); orc_program_append_str (p, "addw", "w0", "w0", nm); }
      orc_program_append_str (p, "copyw", "od", "w0", NULL);
      break;
    }
  }
}

/* a hand-written program that the rankings above do not reproduce: 19 opcodes that each need their own pooled vector constant on
   AltiVec (found by a reviewing agent reading orcpowerpc.c; the label table overflowed).  Kept as a fixed regression input:
   k = number of the listed opcodes used (12..19) x {AltiVec only, default flags} */
#define N_REGRESS (8 * 2)
static void regress_case (VResult *r, int k)
{
  static const char *ops[] = { "splatw3q", "convhwb", "convhlw", "convql", "swapw", "swapl", "swapwl", "swapq", "swaplq", "select0wb", "select0ql",
    "mergewl", "mergebw", "splitlw", "mulf", "convfl", "mulhsw", "mullb", "mulhsb" };
  static const int sz[4] = { 1, 2, 4, 8 };
  int nops = 12 + (k / 2) % 8, i, j;
  OrcTarget *target = orc_target_get_by_name ("altivec");
  unsigned flags = (k & 1) ? orc_target_get_default_flags (target) : ORC_TARGET_POWERPC_ALTIVEC;   /* big-endian AltiVec without VSX */
  OrcProgram *p = orc_program_new ();
  OrcCompileResult res;
  char what[100];
  v_desc (r, "# C05 regression program: the first %d of 19 opcodes with one pooled AltiVec constant each, flags 0x%x\n", nops, flags);
  orc_program_add_destination (p, 1, "d1");
  for (i = 0; i < 4; i++) {
    char sn[8], tn[8], r1[8], r2[8];
    snprintf (sn, sizeof sn, "s%d", sz[i]); snprintf (tn, sizeof tn, "t%d", sz[i]); snprintf (r1, sizeof r1, "r%d", sz[i]); snprintf (r2, sizeof r2, "q%d", sz[i]);
    orc_program_add_source (p, sz[i], sn); orc_program_add_temporary (p, sz[i], tn); orc_program_add_temporary (p, sz[i], r1); orc_program_add_temporary (p, sz[i], r2);
    orc_program_append_str (p, sz[i] == 1 ? "loadb" : sz[i] == 2 ? "loadw" : sz[i] == 4 ? "loadl" : "loadq", tn, sn, NULL);
  }
  for (i = 0; i < nops; i++) {
    OrcStaticOpcode *op = orc_opcode_find_by_name (ops[i]);
    const char *a[4] = { NULL, NULL, NULL, NULL };
    char b[4][8];
    int n = 0;
    if (!op) continue;
    for (j = 0; j < 2; j++) if (op->dest_size[j]) { snprintf (b[n], sizeof b[n], "%c%d", j ? 'q' : 'r', op->dest_size[j]); a[n] = b[n]; n++; }
    for (j = 0; j < 4 && n < 4; j++) if (op->src_size[j]) { snprintf (b[n], sizeof b[n], "t%d", op->src_size[j]); a[n] = b[n]; n++; }
    orc_program_append_str_2 (p, ops[i], 0, a[0], a[1], a[2], a[3]);
  }
  orc_program_append_str (p, "storeb", "d1", "t1", NULL);
  snprintf (what, sizeof what, "regression program %d target altivec", k);
  v_stage (r, "compile %s", what);
  res = orc_program_compile_full (p, target, flags);
  v_desc (r, "  -> %s%s%s\n", v_result_name (res), p->error_msg ? ": " : "", p->error_msg ? p->error_msg : "");
  classify (p, res, 3, r, what);
  orc_program_free (p);
  r->classes |= (1u << 2) | (1u << 6);
  r->sub_evals = 1; r->sub_nontrivial = 1; r->nontrivial = 1;
  r->hash = 0xE7000000u + (uint64_t) k;
}

static void heavy_enum (VResult *r, int t, int m, int count, int flagsel)
{
  OrcProgram *p = orc_program_new ();
  OrcTarget *target = orc_target_get_by_name (tnames[t]);
  OrcCompileResult res;
  char what[120];
  int k;
  rank_prologue (p);
  v_desc (r, "# C05 the %d opcodes with the %s when compiled alone for %s, one instruction each:", count, m == 1 ? "largest code" : m == 2 ? "fewest (at least one) labels and pool entries" : "most labels and pool entries", tnames[t]);
  for (k = 0; k < rank_n[t][m] && k < count; k++) {
    const VOp *op = &v_optab[rank_ops[t][m][k]];
    orc_program_append_str (p, op->name, rk_un[op->dsz[0]], rk_tn[op->ssz[0]], op->ssz[1] ? rk_tn[op->ssz[1]] : NULL);
    v_desc (r, " %s", op->name);
  }
  v_desc (r, "\n");
  orc_program_append_str (p, "copyb", "pd", "pu1", NULL);
  snprintf (what, sizeof what, "%d most expensive opcodes (ranking %d) target %s", count, m, tnames[t]);
  v_stage (r, "compile %s", what);
  {
    /* default flags, or only the lowest flag bit of the default set (the base instruction set of the back end: AltiVec without
       VSX, SSE2 only, ...), which changes which opcodes need pooled constants and long expansions */
    unsigned dflt = orc_target_get_default_flags (target), fl = dflt;
    if (flagsel == 1 && dflt) fl = t == 3 ? ORC_TARGET_POWERPC_ALTIVEC : (dflt & (~dflt + 1u));
    v_desc (r, "# flags 0x%x (default 0x%x)\n", fl, dflt);
    res = orc_program_compile_full (p, target, fl);
  }
  v_desc (r, "  -> %s%s%s\n", v_result_name (res), p->error_msg ? ": " : "", p->error_msg ? p->error_msg : "");
  classify (p, res, t, r, what);
  orc_program_free (p);
  r->classes |= (1u << 2) | (1u << (3 + t));
  r->sub_evals = 1; r->sub_nontrivial = 1; r->nontrivial = 1;
  r->hash = 0xE6000000u + (uint64_t) (flagsel * 10000 + t * 1000 + m * 100 + count);
}

/* a program the compiler did not reject (any non-fatal result) "stays runnable by emulation": arbitrary API calls went into it, so
   there is no model of what it computes, only that emulating it on ample arrays does not crash (ASan watches the emulator's own
   storage).  Programs with offset / resampling / upsampling loads are left out: their index operands are arbitrary here. */
static void emulate_accepted (OrcProgram *p, VResult *r, const char *tname)
{
  static unsigned char pool[ORC_N_VARIABLES][8192];
  OrcExecutor ex;
  int i;
  for (i = 0; i < p->n_insns; i++) {
    const char *nm = p->insns[i].opcode ? p->insns[i].opcode->name : "";
    if (!strncmp (nm, "loadoff", 7) || !strncmp (nm, "ldres", 5) || !strncmp (nm, "loadup", 6)) return;
  }
  memset (&ex, 0, sizeof ex);
  orc_executor_set_program (&ex, p);
  orc_executor_set_n (&ex, 3);
  if (p->is_2d) orc_executor_set_m (&ex, 2);
  for (i = 0; i < ORC_N_VARIABLES; i++) {
    if (!p->vars[i].name) continue;
    if (p->vars[i].vartype == ORC_VAR_TYPE_SRC || p->vars[i].vartype == ORC_VAR_TYPE_DEST) {
      memset (pool[i], 0x11, sizeof pool[i]);
      ex.arrays[i] = pool[i] + 1024;
      if (p->is_2d) ex.params[i] = 512;
    } else if (p->vars[i].vartype == ORC_VAR_TYPE_PARAM) {
      ex.params[i] = 1;
    }
  }
  v_stage (r, "emulate accepted mutated program target=%s", tname);
  orc_executor_emulate (&ex);
  r->classes |= 1u << 20;
  r->sub_evals++;
}

void vprop_case (VChoices *c, VResult *r)
{
  static ProgSpec ps;
  static RunCfg rc;
  GenOpts go;
  uint32_t mode = vc_pick (c, 4);        /* 0,1 valid; 2 mutated; 3 over-limit */
  int nt, k, t;
  char sig[V_SIG_MAX];
  uint64_t h;

  if (c->n >= 3 && c->v[0] == 0xE5E5E5E5u) { systematic (r, (int) c->v[1], (int) (c->v[2] % 3)); return; }
  if (c->n >= 2 && c->v[0] == 0xE5E5E5E7u) { regress_case (r, (int) (c->v[1] % N_REGRESS)); return; }
  if (c->n >= 4 && c->v[0] == 0xE5E5E5E6u) { heavy_enum (r, (int) (c->v[1] % 8), (int) (c->v[2] % 3), (int) (c->v[3] % 64), c->n >= 5 ? (int) (c->v[4] % 2) : 0); return; }
  gen_opts_default (&go);
  go.allow_float = 1;
  go.max_insns = 20;
  if (vc_chance (c, 1, 4)) { go.max_insns = 90; go.min_insns = 30 + (int) vc_pick (c, 60); }
  if (vc_chance (c, 1, 4)) {
    go.single_opcode = (int) vc_pick (c, (uint32_t) v_noptab);
    if (v_optab[go.single_opcode].flags & VOP_INVARIANT) go.single_opcode = 0;     /* loadpX is inserted by the compiler, not written by users */
    go.single_form = (int) vc_pick (c, (uint32_t) ps_single_forms (&v_optab[go.single_opcode]));
  }
  if (mode == 2) { go.max_insns = 3; go.min_insns = 0; }
  ps_generate (c, &go, &ps, r);
  v_desc (r, "# C05 %s program\n", mode <= 1 ? "valid" : mode == 2 ? "mutated" : "over-limit");
  ps_print (&ps, r);
  r->classes |= mode <= 1 ? 1u << 0 : mode == 2 ? 1u << 1 : 1u << 2;
  if (ps.nins >= 50) r->classes |= 1u << 17;
  h = ps_hash (&ps) ^ mode;

  nt = 1 + (int) vc_pick (c, 3);
  for (k = 0; k < nt && r->verdict != V_FAIL; k++) {
    OrcProgram *p;
    OrcTarget *target;
    OrcCompileResult res;
    unsigned flags, dflt;
    int odd_flags = 0, valid = mode <= 1;
    /* each target gets a fresh program object built by the same calls (the stream position is restored for the mutations) */
    size_t save = c->pos;
    t = (int) vc_pick (c, 8);
    target = orc_target_get_by_name (tnames[t]);
    dflt = orc_target_get_default_flags (target);
    flags = dflt;
    switch (vc_pick (c, 6)) {
      case 0: flags = vc_u32 (c); odd_flags = 1; break;
      case 1: flags = dflt ^ (1u << vc_pick (c, 32)); odd_flags = 1; break;
      case 2: flags = dflt & vc_u32 (c); odd_flags = flags != dflt; break;
      case 3: flags = 0; odd_flags = dflt != 0; break;
      default: break;
    }
    (void) save;
    v_stage (r, "build");
    p = ps_build (&ps);
    if (mode == 2) mutate (p, c, r);
    if (mode == 3) over_limit (p, c, r, target, flags);
    v_desc (r, "compile for %s flags 0x%x (default 0x%x)\n", tnames[t], flags, dflt);
    v_stage (r, "compile target=%s flags=0x%x", tnames[t], flags);
    res = orc_program_compile_full (p, target, flags);
    v_stage (r, "classify target=%s", tnames[t]);
    v_desc (r, "  -> %s (0x%x)\n", v_result_name (res), res);
    r->classes |= 1u << (3 + t);
    if (odd_flags) r->classes |= 1u << 11;
    h = v_hash_bytes (h, &t, sizeof t); h = v_hash_bytes (h, &flags, sizeof flags);
    if (res != ORC_COMPILE_RESULT_OK && res != ORC_COMPILE_RESULT_UNKNOWN_COMPILE && res != ORC_COMPILE_RESULT_MISSING_RULE
        && res != ORC_COMPILE_RESULT_UNKNOWN_PARSE && res != ORC_COMPILE_RESULT_PARSE && res != ORC_COMPILE_RESULT_VARIABLE) {
      snprintf (sig, sizeof sig, "classification:undocumented-result target=%s", tnames[t]);
      v_fail (r, sig, "orc_program_compile_full returned 0x%x, which is none of the documented result codes", res);
    } else if (ORC_COMPILE_RESULT_IS_FATAL (res)) {
      r->classes |= 1u << 14;
      if (p->orccode != NULL && p->orccode->exec != NULL && (void *) p->orccode->exec != (void *) orc_executor_emulate) {
        snprintf (sig, sizeof sig, "classification:fatal-with-code target=%s", tnames[t]);
        v_fail (r, sig, "fatal result %s but the program carries executable code", v_result_name (res));
      }
      /* a fatal result for a well-typed program is not excluded by the property's wording: counted, not judged */
      if (valid) { r->classes |= 1u << 18; if (v_arg ("showfatal", NULL)) fprintf (stderr, "VALID-FATAL target=%s flags=0x%x result=%s msg=%s\n%s\n", tnames[t], flags, v_result_name (res), p->error_msg ? p->error_msg : "", r->desc); }
    } else if (ORC_COMPILE_RESULT_IS_SUCCESSFUL (res)) {
      r->classes |= 1u << 12;
      /* "callable code" can only be asked of an executable target; a source-generating target must leave its listing */
      if (!p->orccode || !orc_program_get_asm_code (p) || (t < 3 && (!p->orccode->exec || !p->code_exec || p->orccode->code_size <= 0))) {
        snprintf (sig, sizeof sig, "classification:success-without-code target=%s", tnames[t]);
        v_fail (r, sig, "successful result but code object/exec pointer/listing missing (orccode %p)", (void *) p->orccode);
      } else if (valid && t < 3 && flags == dflt && !(ps.ldres_shared || ps.acc_nonarray || ps.const_two_lanes)
          && !(t == 2 && ps.has_64 && ps.has_special_load) && !ps.has_float) {
        RunOpts ro;
        Arena an, ae;
        OrcExecutor exn, exe;
        char msg[700];
        memset (&ro, 0, sizeof ro);
        ro.n_max = 50; ro.m_max = 2; ro.placement_mask = 1;
        rc_generate (c, &ps, &ro, &rc);
        if (!arena_build (&an, &ps, &rc, 0) && !arena_build (&ae, &ps, &rc, 0)) {
          exec_setup (&exn, p, NULL, &ps, &rc, &an);
          exec_setup (&exe, p, NULL, &ps, &rc, &ae);
          v_stage (r, "run native target=%s", tnames[t]);
          v_shielded_call ((void *) p->code_exec, &exn);
          orc_executor_emulate (&exe);
          if (arena_compare (&an, &ae, &ps, &rc, &exn, &exe, msg, sizeof msg)) {
            snprintf (sig, sizeof sig, "callable:wrong-result target=%s", tnames[t]);
            v_fail (r, sig, "successful compile but the code does not compute what emulation computes: %s", msg);
          }
          arena_free (&an); arena_free (&ae);
          r->classes |= 1u << 15;
          r->sub_evals++;
        }
      }
    } else {
      r->classes |= 1u << 13;
      if (!p->orccode) {
        snprintf (sig, sizeof sig, "classification:nonfatal-without-emulation target=%s", tnames[t]);
        v_fail (r, sig, "non-fatal failure %s but no code object to emulate from", v_result_name (res));
      } else if ((void *) p->code_exec != (void *) orc_executor_emulate && p->code_exec != p->backup_func) {
        snprintf (sig, sizeof sig, "classification:nonfatal-not-falling-back target=%s", tnames[t]);
        v_fail (r, sig, "non-fatal failure %s but code_exec does not point to the emulator", v_result_name (res));
      } else if (valid) {
        RunOpts ro;
        Arena an;
        OrcExecutor exn;
        memset (&ro, 0, sizeof ro);
        ro.n_max = 30; ro.m_max = 2; ro.placement_mask = 1;
        rc_generate (c, &ps, &ro, &rc);
        if (!arena_build (&an, &ps, &rc, 0)) {
          exec_setup (&exn, p, NULL, &ps, &rc, &an);
          v_stage (r, "run fallback target=%s", tnames[t]);
          orc_executor_run (&exn);
          arena_free (&an);
          r->classes |= 1u << 16;
          r->sub_evals++;
        }
      }
    }
    if (mode == 2 && !ORC_COMPILE_RESULT_IS_FATAL (res) && p->orccode && r->verdict != V_FAIL) emulate_accepted (p, r, tnames[t]);
    v_stage (r, "free target=%s", tnames[t]);
    orc_program_free (p);
    r->sub_evals++;
  }
  r->nontrivial = 1;
  r->sub_nontrivial = r->sub_evals;
  r->hash = h;
}
