#!/bin/bash
# usage: tools/try_seed.sh <patch.diff> <PROP> [<PROP>...]   -- apply a seeded change to /repo, run quick checks, undo
set -u
patch="$1"; shift
cd /verif
if ! git -C /repo diff --quiet; then echo "/repo has uncommitted changes"; exit 2; fi
if ! git -C /repo apply --check "$patch" 2>/dev/null; then echo "patch does not apply"; exit 2; fi
git -C /repo apply "$patch"
for p in "$@"; do
  out=$(timeout 1500 ./check "$p" --tier quick 2>&1)
  rc=$?
  echo "== $p rc=$rc $(echo "$out" | grep -c '^VIOLATION') violation line(s)"
  echo "$out" | grep "^VIOLATION\|message:\|^evidence" | head -4 | cut -c1-260
done
git -C /repo checkout -- .
git -C /repo status --short | head -3
