"""Generic check runner: build, replays, sharded search, evidence, known findings."""
import array
import glob
import hashlib
import json
import os
import shutil
import subprocess
import sys
import time

import build as B

VERIF = os.path.dirname(os.path.dirname(os.path.abspath(__file__)))
WORK = os.path.join(VERIF, "_work")
NCPU = int(os.environ.get("VERIF_JOBS", str(os.cpu_count() or 4)))
SEED = int(os.environ.get("VERIF_SEED", "1") or "1")

COMPILERS = {
    "plain": ("gcc", "g++", ["-O2", "-g"], []),
    "nohook": ("gcc", "g++", ["-O2", "-g"], []),
    "asan": ("clang", "clang++", ["-O1", "-g", "-fno-omit-frame-pointer", "-fsanitize=address,undefined",
                                  "-fno-sanitize=float-cast-overflow,float-divide-by-zero,signed-integer-overflow,shift",
                                  "-fno-sanitize-recover=undefined"],
             ["-fsanitize=address,undefined"]),
    "fuzz": ("clang", "clang++", ["-O1", "-g", "-fno-omit-frame-pointer", "-fsanitize=fuzzer-no-link,address,undefined",
                                  "-fno-sanitize=float-cast-overflow,float-divide-by-zero,signed-integer-overflow,shift",
                                  "-fno-sanitize-recover=undefined"],
             ["-fsanitize=fuzzer,address,undefined"]),
    "tsan": ("clang", "clang++", ["-O1", "-g", "-fno-omit-frame-pointer", "-fsanitize=thread"], ["-fsanitize=thread"]),
}

SAN_ENV = {
    "ASAN_OPTIONS": "abort_on_error=1:detect_leaks=0:allocator_may_return_null=1:handle_segv=0:handle_sigbus=0:handle_abort=0",
    "UBSAN_OPTIONS": "halt_on_error=1:abort_on_error=1:print_stacktrace=1",
    "TSAN_OPTIONS": "halt_on_error=1:abort_on_error=1:report_signal_unsafe=0",
}


def log(*a):
    print(*a, flush=True)


def newer(target, deps):
    if not os.path.exists(target):
        return True
    t = os.path.getmtime(target)
    return any(os.path.getmtime(d) > t for d in deps if os.path.exists(d))


def run(cmd, **kw):
    return subprocess.run(cmd, stdout=subprocess.PIPE, stderr=subprocess.STDOUT, text=True, errors="replace", **kw)


def objdir(variant):
    d = os.path.join(WORK, "obj", os.path.basename(B.build_dir(variant)))
    os.makedirs(d, exist_ok=True)
    return d


def compile_objs(variant, sources, extra_cflags=()):
    """Compile C/C++ sources of /verif against the library build of `variant`."""
    cc, cxx, cflags, _ = COMPILERS[variant]
    bdir = B.build_dir(variant)
    inc = ["-I" + B.repo_dir(), "-I" + bdir, "-I" + os.path.join(VERIF, "engine"),
           "-DORC_ENABLE_UNSTABLE_API", "-D_GNU_SOURCE", "-DORC_STATIC_COMPILATION", "-DHAVE_CONFIG_H"]
    if variant != "nohook":
        inc.append("-D" + B.GUARD)
    objs = []
    procs = []
    hdrs = glob.glob(os.path.join(VERIF, "engine", "*.h")) + glob.glob(os.path.join(VERIF, "engine", "*.inc")) + \
        glob.glob(os.path.join(VERIF, "props", "*.h"))
    for s in sources:
        src = os.path.join(VERIF, s)
        o = os.path.join(objdir(variant), s.replace("/", "_") + hashlib.sha1(" ".join(extra_cflags).encode()).hexdigest()[:6] + ".o")
        objs.append(o)
        deps = [src] + hdrs
        # library headers can change with the tree under test: depend on the static library too
        deps.append(os.path.join(bdir, "orc", "liborc-0.4.a"))
        if not newer(o, deps):
            continue
        if s.endswith(".cc"):
            cmd = [cxx, "-std=gnu++17"] + cflags + inc + list(extra_cflags) + ["-c", src, "-o", o]
        elif s.endswith(".S"):
            cmd = [cc] + inc + ["-c", src, "-o", o]
        else:
            # a file named *99.c is compiled the way a C99 application compiles orcc's output (no C11 atomics)
            cmd = [cc, "-std=gnu99" if s.endswith("99.c") else "-std=gnu11", "-Wall", "-Wno-unused-function"] + cflags + inc + list(extra_cflags) + ["-c", src, "-o", o]
        procs.append((s, subprocess.Popen(cmd, stdout=subprocess.PIPE, stderr=subprocess.STDOUT, text=True)))
    for s, p in procs:
        out, _ = p.communicate()
        if p.returncode != 0:
            sys.stderr.write(out)
            raise SystemExit("compile failed: " + s)
        if out.strip() and os.environ.get("VERIF_VERBOSE"):
            sys.stderr.write(out)
    return objs


def link(variant, name, objs, extra_ldflags=(), cxx_link=True, fuzzer=False):
    cc, cxx, _, ldflags = COMPILERS[variant]
    bdir = B.build_dir(variant)
    bindir = os.path.join(WORK, "bin", os.path.basename(bdir))
    os.makedirs(bindir, exist_ok=True)
    exe = os.path.join(bindir, name)
    lib = os.path.join(bdir, "orc", "liborc-0.4.a")
    if newer(exe, objs + [lib]):
        extra = [f.replace("{liborc}", lib) for f in extra_ldflags]
        own = [] if any("{liborc}" in f for f in extra_ldflags) else [lib]      # the check places the library itself (e.g. --whole-archive)
        cmd = [cxx if cxx_link else cc] + ldflags + objs + own + extra + ["-lm", "-lpthread", "-o", exe]
        r = run(cmd)
        if r.returncode != 0:
            sys.stderr.write(r.stdout)
            raise SystemExit("link failed: " + name)
    return exe


def build_driver_binary(prop, variant, sources, extra_cflags=(), extra_ldflags=()):
    B.build(variant)
    objs = compile_objs(variant, ["engine/driver.cc", "engine/vutil.c"] + list(sources), extra_cflags)
    return link(variant, prop.lower() + "_driver", objs, ["-lrapidcheck"] + list(extra_ldflags))


# ---------------------------------------------------------------- known findings

def load_known(prop):
    path = os.path.join(VERIF, "known_findings.json")
    if not os.path.exists(path):
        return []
    with open(path) as f:
        data = json.load(f)
    return [e for e in data.get("findings", []) if e.get("property") == prop]


def known_args(prop, with_excludes=True):
    args = []
    for e in load_known(prop):
        if e.get("status") != "known":
            continue
        if e.get("sig"):
            args += ["--known", "%s=%s" % (e["id"], e["sig"])]
        if with_excludes:
            for k in e.get("exclude", []):
                args += ["--exclude", k]
    return args


# ---------------------------------------------------------------- evidence

class Evidence:
    def __init__(self, prop, tier, level):
        self.prop, self.tier, self.level = prop, tier, level
        self.t0 = time.time()
        self.evaluations = 0
        self.hashes = set()
        self.extra_distinct = 0
        self.classes = {}
        self.samples = []
        self.known = {}
        self.stages = []
        self.rule = ""
        self.assumptions = []
        self.exhaustive = None
        self.violations = 0
        self.extra = {}
        self.excluded = 0
        self.sub_evals = 0
        self.sub_nontrivial = 0
        self.unstable = 0

    def add_stats(self, st, hashfile=None):
        self.evaluations += st.get("evaluations", 0)
        self.excluded += st.get("excluded", 0)
        self.sub_evals += st.get("sub_evaluations", 0)
        self.sub_nontrivial += st.get("sub_nontrivial", 0)
        if st.get("wall_timeouts"):
            self.extra["inconclusive_wall_clock_timeouts"] = self.extra.get("inconclusive_wall_clock_timeouts", 0) + st["wall_timeouts"]
        for k, v in st.get("classes", {}).items():
            self.classes[k] = self.classes.get(k, 0) + v
        for s in st.get("samples", []):
            if len(self.samples) < 12:
                self.samples.append(s)
        for k, v in st.get("known", {}).items():
            cur = self.known.setdefault(k, {"count": 0, "example": v.get("example", "")})
            cur["count"] += v.get("count", 0)
        if hashfile and os.path.exists(hashfile):
            a = array.array("Q")
            with open(hashfile, "rb") as f:
                data = f.read()
            a.frombytes(data[: len(data) // 8 * 8])
            self.hashes.update(a)

    def write(self):
        cov = {
            "evaluations": int(self.evaluations),
            "distinct_nontrivial": int(len(self.hashes) + self.extra_distinct),
            "rule": self.rule,
            "samples": self.samples[:12] if self.samples else ["(no sample recorded)"],
            "classes": self.classes,
            "stages": self.stages,
            "inner_evaluations": int(self.sub_evals),
            "inner_nontrivial": int(self.sub_nontrivial),
            "excluded_by_construction": int(self.excluded),
            "known_findings_hit": {k: v["count"] for k, v in self.known.items()},
            "unstable": int(self.unstable),
        }
        if self.exhaustive is not None:
            cov["exhaustive"] = bool(self.exhaustive)
        cov.update(self.extra)
        ev = {
            "property_id": self.prop,
            "tier": self.tier,
            "seed": SEED,
            "level": self.level,
            "coverage": cov,
            "assumptions": self.assumptions,
            "wall_s": round(time.time() - self.t0, 2),
            "violations": int(self.violations),
        }
        os.makedirs(os.path.join(VERIF, "evidence"), exist_ok=True)
        path = os.path.join(VERIF, "evidence", self.prop + ".json")
        tmp = path + ".tmp"
        with open(tmp, "w") as f:
            json.dump(ev, f, indent=1)
        os.replace(tmp, path)
        return path


# ---------------------------------------------------------------- driver-based stages

def expand_sets(cfg, wipe=False):
    """--set name=value arguments of a check; {build} {repo} {verif} {scratch} are expanded.
    The scratch directory is per check (sources name it through cfg["sources"][-1]) and emptied when a check starts."""
    scratch = os.path.join(WORK, "scratch", os.path.basename(cfg["sources"][-1]).split("_")[0])
    if wipe:
        shutil.rmtree(scratch, ignore_errors=True)
    os.makedirs(scratch, exist_ok=True)
    out = []
    for kv in cfg.get("set", []):
        out += ["--set", kv.format(build=B.build_dir(cfg["variant"]), repo=B.repo_dir(), verif=VERIF, scratch=scratch)]
    return out


EXTRA_ENV = {}      # per-property overrides (cfg["env"]), set by run_check/replay


def child_env(variant):
    env = dict(os.environ)
    env.update(SAN_ENV)
    env.update(EXTRA_ENV)
    env.pop("ORC_DEBUG", None)
    env.pop("ORC_CODE", None)
    return env


def run_workers(exe, variant, prop, stage_name, mode, nworkers, per_worker_args, common_args, timeout):
    outdir = os.path.join(WORK, "runs", prop, stage_name)
    shutil.rmtree(outdir, ignore_errors=True)
    os.makedirs(outdir, exist_ok=True)
    procs = []
    for k in range(nworkers):
        stats = os.path.join(outdir, "w%d.json" % k)
        rep = os.path.join(outdir, "w%d.case" % k)
        cmd = [exe, "--mode", mode, "--out", stats, "--replay-out", rep] + common_args + per_worker_args(k)
        logf = open(os.path.join(outdir, "w%d.log" % k), "w")
        procs.append((k, subprocess.Popen(cmd, stdout=logf, stderr=subprocess.STDOUT, env=child_env(variant), cwd=outdir), stats, rep, logf))
    results = []
    deadline = time.time() + timeout
    for k, p, stats, rep, logf in procs:
        try:
            rc = p.wait(timeout=max(1, deadline - time.time()))
        except subprocess.TimeoutExpired:
            p.kill()
            p.wait()
            rc = -9
        logf.close()
        results.append((k, rc, stats, rep))
    return results


CONFIRM_ANY = set()      # properties whose failures depend on thread interleaving: one reproduction in six replays confirms


def confirm_violation(exe, variant, prop, casefile, extra_args):
    """Replay 3x bypassing the generator.  Returns 'fail', 'known', 'pass' or 'unstable'."""
    times = "6" if prop in CONFIRM_ANY else "3"
    r = run([exe, "--mode", "replay", "--file", casefile, "--times", times] + extra_args, env=child_env(variant))
    if r.returncode == 1 or (r.returncode == 4 and prop in CONFIRM_ANY and "REPLAY-UNSTABLE" in r.stdout and ": FAIL " in r.stdout):
        return "fail", r.stdout
    if r.returncode == 3:
        return "known", r.stdout
    if r.returncode == 0:
        return "pass", r.stdout
    return "unstable", r.stdout


def save_violation(prop, casefile):
    vdir = os.path.join(WORK, "violations")
    os.makedirs(vdir, exist_ok=True)
    with open(casefile, "rb") as f:
        h = hashlib.sha1(f.read()).hexdigest()[:12]
    dst = os.path.join(vdir, "%s-%s.case" % (prop, h))
    shutil.copyfile(casefile, dst)
    return dst


def driver_check(prop, tier, scale, cfg, ev):
    """cfg: dict(variant, sources, cflags, ldflags, stages=[dict(name, mode, quick={}, thorough={})], set=[...])"""
    variant = cfg["variant"]
    exe = build_driver_binary(prop, variant, cfg["sources"], cfg.get("cflags", ()), cfg.get("ldflags", ()))
    kargs = known_args(prop)
    sets = expand_sets(cfg, wipe=True)
    for k in cfg.get("excludes", []):
        kargs = kargs + ["--exclude", k]
    common = kargs + sets + ["--tier", tier]
    violation = None

    # 1. regression replays (cases that failed before a fix) and known-finding reproducers
    for casefile in sorted(glob.glob(os.path.join(VERIF, "replays", prop, "*.case"))):
        verdict, out = confirm_violation(exe, variant, prop, casefile, common)
        ev.stages.append({"stage": "replay", "file": os.path.relpath(casefile, VERIF), "verdict": verdict})
        ev.evaluations += 1
        if verdict == "fail":
            violation = violation or casefile
            log("regression case fails: %s" % casefile)
            log(out[-2000:])
    known_status = {}
    for e in load_known(prop):
        if e.get("status") != "known":
            continue
        rp = e.get("replay")
        if rp:
            # the reproducer was recorded without the exclusions (they change the decoding)
            verdict, out = confirm_violation(exe, variant, prop, os.path.join(VERIF, rp),
                                             known_args(prop, False) + sets + ["--tier", tier])
            known_status[e["id"]] = verdict
            ev.evaluations += 1
            if verdict == "fail":
                # fails, but not with the listed signature: a different violation
                violation = violation or os.path.join(VERIF, rp)
                log(out[-2000:])

    # 2. search stages
    for st in cfg["stages"]:
        if violation:
            break
        params = dict(st.get(tier, {}))
        if params.get("skip"):
            continue
        nworkers = params.get("workers", NCPU)
        mode = st["mode"]
        t0 = time.time()
        if mode == "enum":
            def pw(k, n=nworkers):
                return ["--shard", str(k), "--nshards", str(n)]
            extra = []
            if params.get("budget"):
                extra = ["--budget", str(params["budget"] * scale)]
        else:
            cases = max(1, int(params.get("cases", 1000) * scale / nworkers))
            def pw(k):
                return ["--seed", str(SEED * 1000003 + k + 1000 * st.get("seed_offset", 0))]
            extra = ["--cases", str(cases), "--max-size", str(params.get("max_size", 200))]
            if params.get("budget"):
                extra += ["--budget", str(params["budget"] * scale)]
        for kv in params.get("set", []):
            extra += ["--set", kv]
        results = run_workers(exe, variant, prop, st["name"], mode, nworkers, pw, common + extra,
                              timeout=params.get("timeout", 3600))
        stage_ev = {"stage": st["name"], "mode": mode, "workers": nworkers, "evaluations": 0, "completed": True}
        for k, rc, stats, rep in results:
            if os.path.exists(stats):
                with open(stats) as f:
                    s = json.load(f)
                ev.add_stats(s, stats + ".hashes")
                stage_ev["evaluations"] += s.get("evaluations", 0)
                if not s.get("completed", True):
                    stage_ev["completed"] = False
            else:
                stage_ev["completed"] = False
                stage_ev.setdefault("worker_errors", []).append({"worker": k, "rc": rc})
            if rc == 1 and os.path.exists(rep):
                verdict, out = confirm_violation(exe, variant, prop, rep, common)
                if verdict == "fail":
                    if violation is None:
                        violation = save_violation(prop, rep)
                        log(out[-3000:])
                elif verdict in ("unstable", "pass"):
                    ev.unstable += 1
                    log("unstable failure (not reproducible 3x), worker %d:\n%s" % (k, out[-1500:]))
            elif rc not in (0, 1):
                logp = os.path.join(WORK, "runs", prop, st["name"], "w%d.log" % k)
                tail = ""
                if os.path.exists(logp):
                    with open(logp, errors="replace") as f:
                        tail = f.read()[-1500:]
                log("worker %d of stage %s ended with status %s\n%s" % (k, st["name"], rc, tail))
                stage_ev.setdefault("worker_errors", []).append({"worker": k, "rc": rc})
        stage_ev["wall_s"] = round(time.time() - t0, 2)
        if mode == "enum":
            ev.exhaustive = stage_ev["completed"] if ev.exhaustive is None else (ev.exhaustive and stage_ev["completed"])
        ev.stages.append(stage_ev)
    return violation, known_status


def finish(prop, ev, violation, known_status):
    for e in load_known(prop):
        if e.get("status") != "known":
            continue
        st = known_status.get(e["id"])
        hits = ev.known.get(e["id"], {}).get("count", 0)
        note = ""
        if st == "known" or hits:
            note = "(reproduced)"
        elif st == "pass":
            note = "(listed, but its reproducer passes on this tree)"
        log("KNOWN-FINDING: property=%s %s %s" % (prop, e["what"], note))
    if violation:
        ev.violations = 1
    path = ev.write()
    log("evidence: %s  evaluations=%d distinct_nontrivial=%d wall=%.1fs" % (
        os.path.relpath(path, VERIF), ev.evaluations, len(ev.hashes) + ev.extra_distinct, time.time() - ev.t0))
    if violation:
        print("VIOLATION property=%s replay=%s" % (prop, violation), flush=True)
        return 1
    return 0


def run_check(prop, tier, scale):
    import registry
    if prop not in registry.PROPS:
        raise SystemExit("unknown property " + prop)
    cfg = registry.PROPS[prop]
    EXTRA_ENV.clear(); EXTRA_ENV.update(cfg.get("env", {}))
    if cfg.get("confirm_any"):
        CONFIRM_ANY.add(prop)
    ev = Evidence(prop, tier, cfg["level"])
    ev.rule = cfg["rule"]
    ev.assumptions = list(cfg.get("assumptions", []))
    if "custom" in cfg:
        violation, known_status = cfg["custom"](prop, tier, scale, cfg, ev)
    else:
        violation, known_status = driver_check(prop, tier, scale, cfg, ev)
    return finish(prop, ev, violation, known_status)


def replay(prop, casefile):
    import registry
    cfg = registry.PROPS[prop]
    EXTRA_ENV.clear(); EXTRA_ENV.update(cfg.get("env", {}))
    if "custom_replay" in cfg:
        return cfg["custom_replay"](prop, casefile, cfg)
    exe = build_driver_binary(prop, cfg["variant"], cfg["sources"], cfg.get("cflags", ()), cfg.get("ldflags", ()))
    sets = expand_sets(cfg)
    for k in cfg.get("excludes", []):
        sets += ["--exclude", k]
    r = subprocess.run([exe, "--mode", "replay", "--file", casefile, "--times", "3"] + known_args(prop) + sets,
                       env=child_env(cfg["variant"]))
    if r.returncode == 1:
        print("VIOLATION property=%s replay=%s" % (prop, casefile))
        return 1
    return 0


def setup():
    import registry
    variants = sorted({c["variant"] for c in registry.PROPS.values() if "variant" in c})
    for v in variants:
        log("building library variant", v)
        B.build(v)
    for prop, cfg in registry.PROPS.items():
        if "sources" in cfg and "variant" in cfg:
            log("building harness", prop)
            build_driver_binary(prop, cfg["variant"], cfg["sources"], cfg.get("cflags", ()), cfg.get("ldflags", ()))
        if "setup" in cfg:
            cfg["setup"](prop, cfg)
    return 0


# ---------------------------------------------------------------- libFuzzer stages

def build_fuzz_binary(prop, sources, name=None, extra_cflags=()):
    B.build("fuzz")
    objs = compile_objs("fuzz", list(sources), extra_cflags)
    return link("fuzz", name or (prop.lower() + "_fuzz"), objs, cxx_link=True)


def run_libfuzzer(exe, prop, stage, seed_corpus, dictfile, seconds, max_len, nworkers=None, extra_args=()):
    """Run `nworkers` independent libFuzzer processes (own corpus copy, own seed).  Returns
    (stats list, crash artifact paths)."""
    nworkers = nworkers or NCPU
    base = os.path.join(WORK, "runs", prop, stage)
    shutil.rmtree(base, ignore_errors=True)
    os.makedirs(base, exist_ok=True)
    procs = []
    for k in range(nworkers):
        wdir = os.path.join(base, "w%d" % k)
        os.makedirs(os.path.join(wdir, "corpus"))
        os.makedirs(os.path.join(wdir, "artifacts"))
        # half of the workers start from the seed corpus, the others from an empty one
        seeds = [seed_corpus] if (seed_corpus and k % 2 == 0) else []
        env = child_env("fuzz")
        env["VERIF_FUZZ_STATS"] = os.path.join(wdir, "stats.json")
        env["ASAN_OPTIONS"] = "abort_on_error=1:detect_leaks=0:allocator_may_return_null=1"
        cmd = [exe, os.path.join(wdir, "corpus")] + seeds + [
            "-seed=%d" % (SEED * 1000003 + k + 1), "-max_total_time=%d" % int(seconds), "-max_len=%d" % max_len,
            "-artifact_prefix=" + os.path.join(wdir, "artifacts") + "/", "-print_final_stats=1", "-timeout=20",
            "-rss_limit_mb=2048", "-verbosity=0"] + list(extra_args)
        if dictfile:
            cmd.append("-dict=" + dictfile)
        logf = open(os.path.join(wdir, "log"), "w")
        procs.append((k, subprocess.Popen(cmd, stdout=logf, stderr=subprocess.STDOUT, env=env, cwd=wdir), wdir, logf))
    stats, crashes = [], []
    for k, p, wdir, logf in procs:
        try:
            p.wait(timeout=seconds + 120)
        except subprocess.TimeoutExpired:
            p.kill()
            p.wait()
        logf.close()
        st = {}
        sp = os.path.join(wdir, "stats.json")
        if os.path.exists(sp):
            try:
                st = json.load(open(sp))
            except Exception:
                st = {}
        with open(os.path.join(wdir, "log"), errors="replace") as f:
            logtxt = f.read()
        import re
        m = re.search(r"stat::number_of_executed_units:\s*(\d+)", logtxt)
        if m:
            st["libfuzzer_executed_units"] = int(m.group(1))
        m = re.findall(r"cov: (\d+) ft: (\d+)", logtxt)
        if m:
            st["cov"], st["ft"] = int(m[-1][0]), int(m[-1][1])
        st["worker"] = k
        st["rc"] = p.returncode
        stats.append(st)
        for a in sorted(glob.glob(os.path.join(wdir, "artifacts", "crash-*")) + glob.glob(os.path.join(wdir, "artifacts", "leak-*"))):
            crashes.append(a)
    return stats, crashes


def replay_fuzz_artifact(exe, artifact, times=3):
    """returns 'fail' if the artifact crashes every time, 'pass' if never, else 'unstable'; plus the last output"""
    fails = 0
    out = ""
    for _ in range(times):
        env = child_env("fuzz")
        env["ASAN_OPTIONS"] = "abort_on_error=1:detect_leaks=0:allocator_may_return_null=1"
        r = run([exe, artifact, "-timeout=20", "-rss_limit_mb=2048"], env=env)
        out = r.stdout
        if r.returncode != 0:
            fails += 1
    return ("fail" if fails == times else "pass" if fails == 0 else "unstable"), out
