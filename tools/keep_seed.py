#!/usr/bin/env python3
"""keep_seed.py <worktree> <seed-name> <property> <caught-by(comma list or 'none')> <needs...>  -- archive a confirmed seeded change under /verif/seeded"""
import sys, os, shutil, json, subprocess
wt, name, prop, caught = sys.argv[1:5]
needs = " ".join(sys.argv[5:])
dst = os.path.join("/verif/seeded", name)
os.makedirs(dst, exist_ok=True)
for f in os.listdir(wt):
    if f in ("patch.diff", "NOTES.md") or f.startswith("demo") or f.endswith(".S") and os.path.isfile(os.path.join(wt, f)) and f != "patch.diff":
        if os.path.isfile(os.path.join(wt, f)) and os.path.getsize(os.path.join(wt, f)) < 200000:
            shutil.copy(os.path.join(wt, f), os.path.join(dst, f))
meta = {
    "property": prop,
    "what_it_needs_to_manifest": needs,
    "confirmed": {
        "compiles_and_baseline_suite_passes": "meson test in the scratch worktree: 33/33 with the change (run by the seeding agent, re-checked by hand where noted)",
        "demonstration": "demo.sh prints PASS on the unchanged tree and FAIL with patch.diff applied",
    },
    "checks_run_against_it": "tools/try_seed.sh patch.diff " + prop,
    "caught_by": [] if caught == "none" else caught.split(","),
}
json.dump(meta, open(os.path.join(dst, "meta.json"), "w"), indent=1)
print("kept", dst, os.listdir(dst))
