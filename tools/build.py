#!/usr/bin/env python3
"""Build the code under test (/repo working tree, or $VERIF_REPO) with hooks on.

usage: build.py <variant>          variant in plain | asan | tsan | fuzz
prints the build directory on stdout.

Every check calls this first, so the library is always rebuilt from the current
working tree (ninja is incremental; a no-op rebuild costs < 1 s).
"""
import hashlib
import fcntl
import os
import subprocess
import sys

VERIF = os.path.dirname(os.path.dirname(os.path.abspath(__file__)))
WORK = os.path.join(VERIF, "_work")
GUARD = "ORC_VERIF_HOOKS"

VARIANTS = {
    # name: (CC, c_args, link_args, buildtype)
    "plain": ("gcc", ["-D" + GUARD, "-g", "-O2"], [], "plain"),
    "asan": ("clang",
             ["-D" + GUARD, "-g", "-O1", "-fno-omit-frame-pointer",
              "-fsanitize=address,undefined", "-fno-sanitize=float-cast-overflow,float-divide-by-zero,signed-integer-overflow,shift",
              "-fno-sanitize-recover=undefined"],
             ["-fsanitize=address,undefined"], "plain"),
    "fuzz": ("clang",
             ["-D" + GUARD, "-g", "-O1", "-fno-omit-frame-pointer",
              "-fsanitize=fuzzer-no-link,address,undefined",
              "-fno-sanitize=float-cast-overflow,float-divide-by-zero,signed-integer-overflow,shift",
              "-fno-sanitize-recover=undefined"],
             ["-fsanitize=address,undefined"], "plain"),
    "tsan": ("clang",
             ["-D" + GUARD, "-g", "-O1", "-fno-omit-frame-pointer", "-fsanitize=thread"],
             ["-fsanitize=thread"], "plain"),
    # hooks OFF: used by C19 to show the documented behaviour without the cpuid hook, and
    # by the baseline command.
    "nohook": ("gcc", ["-g", "-O2"], [], "plain"),
}


def repo_dir():
    return os.path.abspath(os.environ.get("VERIF_REPO", "/repo"))


def build_dir(variant):
    src = repo_dir()
    tag = "" if src == "/repo" else "-" + hashlib.sha1(src.encode()).hexdigest()[:8]
    return os.path.join(WORK, "build", variant + tag)


def build(variant, quiet=True):
    cc, cargs, ldargs, bt = VARIANTS[variant]
    src = repo_dir()
    bdir = build_dir(variant)
    os.makedirs(os.path.dirname(bdir), exist_ok=True)
    lock = open(bdir + ".lock", "w")
    fcntl.flock(lock, fcntl.LOCK_EX)
    try:
        env = dict(os.environ)
        env["CC"] = cc
        env.pop("CFLAGS", None)
        env.pop("LDFLAGS", None)
        if not os.path.exists(os.path.join(bdir, "build.ninja")):
            cmd = ["meson", "setup", bdir, src,
                   "--buildtype=" + bt,
                   "-Ddefault_library=static",
                   "-Dtests=disabled", "-Dexamples=disabled", "-Dbenchmarks=disabled",
                   "-Dgtk_doc=disabled", "-Dorc-test=enabled", "-Dtools=enabled",
                   "-Dc_args=" + " ".join(cargs),
                   "-Dc_link_args=" + " ".join(ldargs)]
            r = subprocess.run(cmd, env=env, stdout=subprocess.PIPE, stderr=subprocess.STDOUT, text=True)
            if r.returncode != 0:
                sys.stderr.write(r.stdout)
                raise SystemExit("meson setup failed for variant %s" % variant)
        r = subprocess.run(["ninja", "-C", bdir], env=env, stdout=subprocess.PIPE,
                           stderr=subprocess.STDOUT, text=True)
        if r.returncode != 0:
            sys.stderr.write(r.stdout[-8000:])
            raise SystemExit("ninja failed for variant %s" % variant)
    finally:
        fcntl.flock(lock, fcntl.LOCK_UN)
        lock.close()
    return bdir


if __name__ == "__main__":
    for v in sys.argv[1:]:
        print(build(v))
