"""Per-property configuration of the checks (see DESIGN.md section 4)."""

ENGINE = ["engine/prog.c", "engine/tramp.S"]

PROPS = {}
NOT_CLAIMED = {}

PROPS["C01"] = dict(
    variant="plain",
    sources=ENGINE + ["props/c01_native.c"],
    level="exploration",
    technique="differential testing (native vs emulation) over rapidcheck-generated programs and exhaustive single-opcode enumeration",
    level_text=("generated-input search: every single-opcode program form is enumerated on all three x86 backends (with all 2^16 operand "
                "pairs for 8-bit opcodes) and random multi-instruction programs are explored with shrinking; it shows absence of "
                "disagreement only on what was explored, which is the right level for a property quantified over all programs and inputs"),
    level_note=("trusted base: orc_executor_emulate as the reference (its own meaning is C02's business), the array arena and the "
                "assembly trampoline of /verif; known findings excluded by construction are listed in known_findings.json"),
    stages=[
        dict(name="enum-single-opcode", mode="enum",
             quick=dict(budget=45), thorough=dict(budget=900)),
        dict(name="rc-programs", mode="rc",
             quick=dict(cases=120000, max_size=500, budget=45), thorough=dict(cases=4000000, max_size=600, budget=900)),
    ],
    rule=("case = (program, x86 target, flag variant, 4..18 run configurations). Programs: (enum) every integer sys opcode as a "
          "one-instruction program in every operand-kind (array/constant/parameter per operand) x prefix (x1/x2/x4) x in-place x "
          "1-D/2-D form x {avx,sse,mmx} x 6 flag variants, run for n in {0,1,2,3,5,7,8,15,16,17,31,32,33,63,64,65,67,100} plus all "
          "2^16 byte pairs / all 2^16 values for 8-bit and unary 16-bit opcodes; (rc) rapidcheck choice streams decoded into "
          "well-typed programs of 1..40 instructions (temporaries reused/overwritten, in-place destinations, accumulators, "
          "constants, 1/2/4/8-byte parameters, x2/x4, special loads, constant n, n multiple/min/max, 2-D, declared alignment) "
          "with boundary-biased data, n in 0..200 (1000..5000, and 10000..70000 in one big case in four), m in 0..5, positive and "
          "negative row strides, misalignment mod 64; one program in twelve has a random subset of its variable classes filled "
          "up to ORC_MAX_*_VARS; explicit loadX/storeX also with x2/x4; loads from arrays declared as destination; (enum) 7 "
          "hand-written corner programs x 3 targets whose shapes the generator leaves out on purpose (they reproduce three known findings). "
          "Non-trivial = compiled successfully for the target and at least one run had n*m > 0; distinct = hash of "
          "(program, target, flags, the n values). Oracle: orc_executor_emulate on identical inputs; destination bytes of elements "
          "0..n-1 per row and accumulators (masked to their size) equal, every other array byte unchanged."),
    assumptions=[
        "inputs stay inside documented/observed caller preconditions: pointers and strides aligned to the declared alignment, "
        "no aliasing between distinct variables, shift counts 0..width-1, resampling start in [0, 0x3ffff] and step in [0, 0x2ffff], element offsets in -9..9: parameters "
        "that keep indices inside the (enlarged) source arrays, n consistent with constant_n / n_multiple / n_min / n_max",
        "integer opcodes only (float paths are C18); programs stay inside the compiler's internal table sizes (that is C05)",
        "only 64-bit x86 code can be executed on this host",
    ],
)


# ---------------------------------------------------------------- C11 / C12 (assembler as oracle)

def _cfg_tag(p):
    t, f = p["target"], p["flags"]
    if t == "avx":
        return "avx-%s" % ("avx2" if f & (1 << 11) else "noavx2")
    if t == "mmx":
        return "mmx-%s" % ("mmxext" if f & (1 << 1) else "nommxext")
    lvl = "sse2"
    for bit, name in ((1, "sse3"), (2, "ssse3"), (3, "sse41"), (4, "sse42")):
        if f & (1 << bit):
            lvl = name
    return "sse-" + lvl


def _asm_sig(prop, msg, p=None):
    import re
    if prop == "C11" and p is not None:
        tag = _cfg_tag(p)
        m = re.search(r"`(\w+)' is not supported", msg) or re.search(r"unsupported instruction `(\w+)'", msg) or \
            re.search(r"mismatch for `(\w+)'", msg)
        if m:
            return "feature-gate:%s:%s" % (tag, m.group(1))
        if "SSE register" in msg:
            return "feature-gate:%s:uses-xmm" % tag
        return "feature-gate:%s:other" % tag
    if prop == "C12":
        m = re.search(r"listing assembles to `(\S+).*?`, orc emitted `(\S+)", msg)
        if m:
            return "listing-mismatch:%s->%s" % (m.group(1), m.group(2))
        if "rejected by GNU as" in msg:
            m = re.search(r"offending line: (\S+)", msg)
            reason = re.sub(r"`[^']*'", "", msg.split("GNU as: ", 1)[-1].split("  [")[0]).strip()
            return "listing-rejected:%s:%s" % (m.group(1) if m else "?", re.sub(r"[^A-Za-z0-9 -]", "", reason)[:50])
        if "do not assemble as one file" in msg:
            return "listing-label-collision"
        if "rejected by llvm-mc" in msg:
            if re.search(r"offending line:.*ERROR", msg):
                return "listing-names-nonexistent-register"      # Orc's own placeholder for a register number it cannot name
            m = re.search(r"offending line: (\S+)", msg)
            reason = msg.split("llvm-mc: ", 1)[-1].split("  [")[0].strip()
            return "listing-rejected:%s:%s" % (m.group(1) if m else "?", re.sub(r"[^A-Za-z0-9 -]", "", reason)[:50])
        return "listing-problem"
    m = re.search(r"`(\w+)' is not supported", msg)
    if m:
        return "feature-gate:" + m.group(1)
    if "SSE register" in msg:
        return "feature-gate:mmx-uses-xmm"
    m = re.search(r"unsupported instruction `(\w+)'", msg)
    if m:
        return "feature-gate:" + m.group(1)
    return "feature-gate:other"


def _asm_oracle_worker(args):
    import asmcheck, tempfile, shutil
    prop, recfile = args
    recs = asmcheck.parse_records(recfile)
    tmpdir = tempfile.mkdtemp(prefix="asmchk", dir=os.path.dirname(recfile))
    try:
        if prop == "C12":
            problems, n = asmcheck.check_c12(recs, tmpdir)
        else:
            # C11 judges only listings that assemble at all (an unassemblable listing is C12's finding)
            problems, n = asmcheck.check_c11(recs, tmpdir)
        out = []
        for rec, msg, inconclusive in problems:
            out.append(dict(target=rec["target"], flags=rec["flags"], bits=rec["bits"], stream=rec.get("stream", ""),
                            prog=rec["prog"], msg=msg, inconclusive=inconclusive, name=rec.get("name", "")))
        distinct = len({(r["hash"], r["target"], r["flags"]) for r in recs})
        samples = []
        for r in recs[:3]:
            samples.append("target=%s flags=0x%x bits=%d\n%s# listing: %d lines, code %d bytes" % (
                r["target"], r["flags"], r["bits"], r["prog"], r["asm"].count("\n"), len(r["code"])))
        return dict(n=n, records=len(recs), problems=out, distinct=distinct, samples=samples)
    finally:
        shutil.rmtree(tmpdir, ignore_errors=True)


import os


def asm_check(prop, tier, scale, cfg, ev):
    import runner as R
    import multiprocessing
    import shutil
    exe = R.build_driver_binary(prop, cfg["variant"], cfg["sources"], cfg.get("cflags", ()))
    outdir = os.path.join(R.WORK, "runs", prop, "records")
    shutil.rmtree(outdir, ignore_errors=True)
    os.makedirs(outdir, exist_ok=True)
    violation = None
    recfiles = []
    crash_cases = []
    for st in cfg["stages"]:
        params = dict(st.get(tier, {}))
        nworkers = R.NCPU
        mode = st["mode"]
        if mode == "enum":
            def pw(k, n=nworkers, name=st["name"]):
                return ["--shard", str(k), "--nshards", str(n), "--set", "out=%s/%s_w%d.rec" % (outdir, name, k)]
            extra = ["--tier", tier]
            if params.get("budget"):
                extra += ["--budget", str(params["budget"] * scale)]
        else:
            cases = max(1, int(params.get("cases", 1000) * scale / nworkers))
            def pw(k, name=st["name"]):
                return ["--seed", str(R.SEED * 1000003 + k), "--set", "out=%s/%s_w%d.rec" % (outdir, name, k)]
            extra = ["--tier", tier, "--cases", str(cases), "--max-size", str(params.get("max_size", 300))]
            if params.get("budget"):
                extra += ["--budget", str(params["budget"] * scale)]
        for kv in st.get("set", []):
            extra += ["--set", kv]
        import time
        t0 = time.time()
        results = R.run_workers(exe, cfg["variant"], prop, st["name"], mode, nworkers, pw, R.known_args(prop) + extra, timeout=3600)
        stage_ev = {"stage": st["name"], "mode": mode, "workers": nworkers, "evaluations": 0, "completed": True}
        for k, rc, stats, rep in results:
            if os.path.exists(stats):
                import json
                s = json.load(open(stats))
                ev.add_stats(s, stats + ".hashes")
                stage_ev["evaluations"] += s.get("evaluations", 0)
                if not s.get("completed", True):
                    stage_ev["completed"] = False
            if rc == 1 and os.path.exists(rep):
                # the compiler itself crashed / aborted on a well-formed program while producing the listing
                verdict, out = R.confirm_violation(exe, cfg["variant"], prop, rep, R.known_args(prop))
                if verdict == "fail" and violation is None:
                    violation = R.save_violation(prop, rep)
                    R.log(out[-2000:])
            recfiles.append(os.path.join(outdir, "%s_w%d.rec" % (st["name"], k)))
        stage_ev["wall_s"] = round(time.time() - t0, 2)
        if mode == "enum":
            ev.exhaustive = stage_ev["completed"]
        ev.stages.append(stage_ev)
    # oracle
    t0 = time.time()
    with multiprocessing.Pool(R.NCPU) as pool:
        outs = pool.map(_asm_oracle_worker, [(prop, f) for f in recfiles if os.path.exists(f)])
    checked = sum(o["n"] for o in outs)
    nrec = sum(o["records"] for o in outs)
    ev.extra["listings_emitted"] = nrec
    ev.extra["distinct_listings_judged_by_assembler"] = checked
    ev.stages.append({"stage": "assembler-oracle", "listings": nrec, "distinct_checked": checked, "wall_s": round(time.time() - t0, 2)})
    ev.samples = [s for o in outs for s in o["samples"]][:8]
    known = [e for e in R.load_known(prop) if e.get("status") == "known"]
    inconclusive = 0
    inc_sigs = {}
    groups = {}
    for o in outs:
        for p in o["problems"]:
            if p["inconclusive"]:
                inconclusive += 1
                import re as _re
                key = _re.sub(r"/\S+:\d+:\d+: ", "", p["msg"])[:160]
                inc_sigs[key] = inc_sigs.get(key, 0) + 1
                continue
            sig = _asm_sig(prop, p["msg"], p)
            kid = None
            for e in known:
                for ks in ([e["sig"]] if e.get("sig") else []) + list(e.get("sigs", [])):
                    if sig.startswith(ks):
                        kid = e["id"]
            if kid:
                cur = ev.known.setdefault(kid, {"count": 0, "example": p["msg"] + "\n" + p["prog"]})
                cur["count"] += 1
                continue
            groups.setdefault(sig, []).append(p)
    ev.extra["inconclusive_tool_problems"] = inconclusive
    ev.extra["inconclusive_signatures"] = dict(sorted(inc_sigs.items(), key=lambda kv: -kv[1])[:12])
    ev.extra["problem_signatures"] = {k: len(v) for k, v in groups.items()}
    if groups and violation is None:
        sig = sorted(groups.keys(), key=lambda k: (len(groups[k][0]["stream"].split()), k))[0]
        p = min(groups[sig], key=lambda q: len(q["stream"].split()))
        vdir = os.path.join(R.WORK, "violations")
        os.makedirs(vdir, exist_ok=True)
        import hashlib
        hname = hashlib.sha1((sig + p["stream"]).encode()).hexdigest()[:12]
        violation = os.path.join(vdir, "%s-%s.case" % (prop, hname))
        with open(violation, "w") as f:
            f.write("orcverif-case v1\nproperty %s\nmode asm\nstream %s\nsig %s\n# message: %s\n# target=%s flags=0x%x bits=%d\n" % (
                prop, p["stream"], sig, p["msg"], p["target"], p["flags"], p["bits"]))
            if p["target"] in ("neon", "mips"):
                f.write("# family=cross\n")
            for line in p["prog"].split("\n"):
                f.write("# " + line + "\n")
        for n_shown, (s, lst) in enumerate(sorted(groups.items())):
            if n_shown >= 14:
                R.log("... %d more problem signatures (see evidence problem_signatures)" % (len(groups) - 14))
                break
            R.log("%s problem %s (%d listings), e.g.: %s" % (prop, s, len(lst), lst[0]["msg"][:300]))
    return violation, {e["id"]: ("known" if ev.known.get(e["id"]) else "pass") for e in known}


def asm_replay(prop, casefile, cfg):
    import runner as R
    import asmcheck, tempfile, shutil, subprocess
    exe = R.build_driver_binary(prop, cfg["variant"], cfg["sources"], cfg.get("cflags", ()))
    tmpdir = tempfile.mkdtemp(prefix="asmreplay", dir=R.WORK)
    try:
        rec = os.path.join(tmpdir, "r.rec")
        fam = ["--set", "family=cross"] if "# family=cross" in open(casefile).read() else []
        subprocess.run([exe, "--mode", "replay", "--file", casefile, "--times", "1", "--set", "out=" + rec] + fam,
                       env=R.child_env(cfg["variant"]))
        recs = asmcheck.parse_records(rec)
        if prop == "C12":
            problems, n = asmcheck.check_c12(recs, tmpdir)
        else:
            problems, n = asmcheck.check_c11(recs, tmpdir)
        bad = [p for p in problems if not p[2]]
        for r, msg, _ in problems:
            print(msg)
        if bad:
            print("VIOLATION property=%s replay=%s" % (prop, casefile))
            return 1
        print("REPLAY-PASS (%d listing(s) judged)" % n)
        return 0
    finally:
        shutil.rmtree(tmpdir, ignore_errors=True)


_ASM_COMMON = dict(
    variant="plain",
    sources=ENGINE + ["props/c12_listing.c"],
    custom=asm_check,
    custom_replay=asm_replay,
    stages=[
        dict(name="enum-single-opcode", mode="enum", quick=dict(budget=60), thorough=dict(budget=900)),
        dict(name="rc-programs", mode="rc", quick=dict(cases=40000, max_size=400, budget=40),
             thorough=dict(cases=1500000, max_size=500, budget=600)),
    ],
)

PROPS["C12"] = dict(
    _ASM_COMMON,
    cflags=['-DVPROP_ID="C12"'],
    stages=_ASM_COMMON["stages"] + [
        dict(name="enum-cross-single-opcode", mode="enum", set=["family=cross"], quick=dict(budget=40), thorough=dict(budget=600)),
        dict(name="rc-cross-programs", mode="rc", set=["family=cross"], quick=dict(cases=6000, max_size=400, budget=20),
             thorough=dict(cases=400000, max_size=500, budget=400)),
    ],
    level="exploration",
    technique="round-trip / differential: generated programs -> orc listing -> GNU as -> objdump, compared with objdump of orc's own bytes; for 32-bit NEON and MIPS: listing -> llvm-mc -> bytes compared with orc's bytes",
    level_text=("every single-opcode program form x {avx,sse,mmx} x feature subsets x {64,32 bit} x frame pointer x short jumps (quick: "
                "a covering sample of the non-feature bits, thorough: the full product) plus rapidcheck-generated multi-instruction "
                "programs are compiled; an independent assembler and disassembler decide whether text and bytes are the same "
                "instruction sequence. Exploration only: programs not generated are not covered"),
    level_note=("trusted base: binutils 2.40 `as` and `objdump`; comparison is on decoded instructions (nop padding dropped, branch "
                "targets as instruction ordinals), so alternative encodings of one instruction do not alarm"),
    rule=("case = (program, x86 target, flag set); enumerated: every sys opcode (integer and float) as a one-instruction program in every "
          "operand-kind/prefix/in-place/2-D form x target x flag configurations; generated: rapidcheck choice streams -> well-typed programs "
          "of 1..40 instructions. Non-trivial = compiled successfully with a non-empty listing and code; distinct = hash of (program, "
          "target, flags). Oracle: the listing must assemble, and objdump(as(listing)) == objdump(orc bytes) instruction by instruction "
          "(mnemonic, registers, memory operands, immediates; branch destinations as ordinals of the target instruction). Cross stages: "
          "the same programs for 32-bit NEON and MIPS; llvm-mc(listing) must equal orc's bytes word for word, except words whose two "
          "decodings (llvm-objdump) are the same instruction (single-register push/pop forms, nop forms)."),
    assumptions=["32-bit NEON and MIPS listings are judged at byte level with llvm-mc 14 (.set noreorder/.noat for MIPS): a listing llvm-mc rejects "
                 "is counted as inconclusive (assembler dialect), a byte difference that decodes to different instructions is a violation; "
                 "64-bit NEON and Altivec listings are not judged (outside the statement's quantifier / no assembler for the dialect)",
                 "identical (listing, code) pairs are judged once"],
)

PROPS["C11"] = dict(
    _ASM_COMMON,
    cflags=['-DVPROP_ID="C11"'],
    level="exploration",
    technique="exhaustive enumeration of opcode forms x feature-flag subsets, judged by GNU as under a flag-derived .arch restriction",
    level_text=("every single-opcode program form is compiled under every subset of the feature bits of each x86 target; the emitted "
                "listing must be accepted by an assembler that has only those instruction-set extensions enabled. The enumeration of "
                "single-opcode forms x feature subsets is complete in both tiers (64-bit); random multi-instruction programs are sampled. "
                "Result equality across flag subsets is exercised by C01 (reduced-flag variants run natively against emulation)"),
    level_note=("trusted base: binutils 2.40's classification of instructions into ISA extensions (.arch generic64/.i686 + "
                ".sse3/.ssse3/.sse4.1/.sse4.2/.avx/.avx2/.3dnowa/.nosse) and, through C12, that the listing is the code"),
    rule=("case = (program, x86 target, feature-flag subset, 32/64 bit); enumerated exhaustively for one-instruction programs: all "
          "subsets of {SSE3,SSSE3,SSE4.1,SSE4.2} for sse, {AVX2 on/off} for avx, {MMXEXT,SSSE3,SSE4.1} for mmx; sampled for random programs. "
          "Non-trivial = successful compile with at least one instruction; distinct = hash of (program, target, flags). Oracle: GNU as with "
          ".arch derived only from the flags must accept every instruction; mmx listings must not name an xmm/ymm register."),
    assumptions=["the listing is the emitted code (that is C12)", "32-bit variants are judged statically only"],
)


PROPS["C02"] = dict(
    variant="plain",
    sources=ENGINE + ["engine/refsem.c", "props/c02_emulate.c"],
    level="exploration",
    technique="reference-model testing: emulation vs an independently written interpreter of the opcode reference, exhaustive for 8-bit operand pairs",
    level_text=("every integer sys opcode in every operand-kind/prefix/in-place/2-D form is emulated for n=1..50 (every position of the "
                "16-element chunks) on boundary and random data and, for 8-bit opcodes and unary 16-bit opcodes, on ALL 2^16 operand "
                "values/pairs; random multi-instruction programs are interpreted element by element by the reference. Exhaustive for "
                "the 8/16-bit operand spaces named, sampled (boundary-biased) for 32/64-bit operands"),
    level_note=("trusted base: engine/refsem.c (from doc/opcode_table.xml; deviations from the table's pseudo code are listed in its "
                "comments and in DESIGN.md) and the small program interpreter in props/c02_emulate.c; float opcodes are judged in C18"),
    stages=[
        dict(name="enum-single-opcode", mode="enum", quick=dict(budget=60), thorough=dict(budget=900)),
        dict(name="rc-programs", mode="rc", quick=dict(cases=60000, max_size=400, budget=40),
             thorough=dict(cases=3000000, max_size=500, budget=600)),
    ],
    rule=("case = (program, run configurations) executed only through orc_executor_emulate. Enumerated: case 0 cross-checks the library's "
          "opcode table (order, sizes, flags) against /verif's table and doc/opcode_table.xml; then every integer opcode x operand-kind x "
          "x1/x2/x4 x in-place x 1-D/2-D form with n in {1,2,3,4,5,7,8,9,15,16,17,18,31,32,33,47,48,49,50} on boundary/min-max/random "
          "data, plus n=65536 covering all operand pairs for 8-bit opcodes and all values for unary 16-bit opcodes. Generated: rapidcheck "
          "choice streams -> integer programs of 1..24 instructions with 3..8 run configurations. inner_evaluations counts elements "
          "compared. Non-trivial = at least one element compared; distinct = hash(program, n values). Oracle: refsem element semantics "
          "applied lane by lane (x2/x4), loads through the documented index formulas, accumulators summed modulo 2^16/2^32 from zero."),
    assumptions=["shift counts 0..width-1; resampling/offset parameters keep indices inside the source arrays",
                 "documentation conflicts resolved as listed in engine/refsem.c (andn = (~a)&b, mulh?l shift 32, ldres index >>16, ...)"],
)


PROPS["C13"] = dict(
    variant="asan",
    sources=ENGINE + ["props/c13_bytecode.c"],
    level="exploration",
    technique="round-trip property (encode/decode/encode) over rapidcheck-generated programs, under ASan/UBSan",
    level_text=("generated valid programs (integer and float opcodes, all four parameter classes, 64-bit constants, 2-D, fixed-size "
                "settings, declared alignments, x2/x4, up to 60 instructions, boundary values 253..257 and 65533/65534 in the "
                "variable-length fields, names of 0..300 characters) are serialised, reconstructed and serialised again; exploration, "
                "so only generated programs are covered"),
    level_note=("trusted base: the field comparator of props/c13_bytecode.c (constants compared modulo their size; variable and type names "
                "are not part of the property) and orc_executor_emulate for the behavioural comparison"),
    stages=[
        dict(name="rc-programs", mode="rc", quick=dict(cases=200000, max_size=400, budget=50),
             thorough=dict(cases=5000000, max_size=500, budget=600)),
    ],
    rule=("case = valid program from the choice-stream decoder plus boundary encodings. Non-trivial = at least one instruction and at "
          "least one of {64-bit constant, non-int parameter, 2-D, x2/x4 flag, length field >= 255, declared alignment}; distinct = hash "
          "of (program, bytecode). Oracle: bc2 == bc1; field-by-field equality of the reconstruction (variable classes, sizes, "
          "alignments, constants, parameter classes, 2-D and n/m settings, instruction order, opcode, operands, flags); identical "
          "emulation results on 3 generated inputs."),
    assumptions=["variable names and type names are not compared (the decoder invents names)"],
)


# ---------------------------------------------------------------- C14 (parser totality): grammar mutations + libFuzzer

def c14_check(prop, tier, scale, cfg, ev):
    import runner as R
    import glob, shutil, hashlib
    violation, known_status = R.driver_check(prop, tier, scale, cfg, ev)
    exe = R.build_fuzz_binary(prop, cfg["fuzz_sources"])
    # regression inputs (raw .orc files that crashed the parser before a fix)
    for f in sorted(glob.glob(os.path.join(R.VERIF, "replays", prop, "*.orc"))):
        verdict, out = R.replay_fuzz_artifact(exe, f, 3)
        ev.stages.append({"stage": "replay-input", "file": os.path.relpath(f, R.VERIF), "verdict": verdict})
        ev.evaluations += 1
        if verdict == "fail" and not violation:
            violation = f
            R.log(out[-1500:])
    if violation:
        return violation, known_status
    seconds = (45 if tier == "quick" else 900) * scale
    stats, crashes = R.run_libfuzzer(exe, prop, "libfuzzer", os.path.join(R.VERIF, "corpus", "c14"),
                                     os.path.join(R.VERIF, "corpus", "c14.dict"), seconds, 8192)
    execs = sum(s.get("executions", 0) for s in stats)
    ev.evaluations += execs
    ev.extra_distinct += sum(s.get("distinct_nontrivial", 0) for s in stats)
    ev.extra["libfuzzer"] = {
        "executions": execs,
        "nontrivial_inputs": sum(s.get("nontrivial", 0) for s in stats),
        "inputs_with_error_records": sum(s.get("with_errors", 0) for s in stats),
        "inputs_yielding_programs": sum(s.get("with_programs", 0) for s in stats),
        "error_free_inputs_yielding_programs": sum(s.get("error_free_with_programs", 0) for s in stats),
        "max_coverage_edges": max([s.get("cov", 0) for s in stats] or [0]),
        "max_features": max([s.get("ft", 0) for s in stats] or [0]),
        "workers": len(stats), "seconds": seconds,
        "note": "distinct_nontrivial adds per-worker counts of distinct non-trivial inputs (22-bit hash table per worker, a lower bound)",
    }
    for s in stats:
        for smp in s.get("samples", [])[:1]:
            if len(ev.samples) < 12:
                ev.samples.append("libFuzzer input: " + smp)
    ev.stages.append({"stage": "libfuzzer", "workers": len(stats), "executions": execs, "crash_artifacts": len(crashes)})
    for a in crashes:
        verdict, out = R.replay_fuzz_artifact(exe, a, 3)
        if verdict == "fail":
            vdir = os.path.join(R.WORK, "violations")
            os.makedirs(vdir, exist_ok=True)
            dst = os.path.join(vdir, "%s-%s.orc" % (prop, hashlib.sha1(open(a, "rb").read()).hexdigest()[:12]))
            shutil.copyfile(a, dst)
            R.log(out[-2500:])
            return dst, known_status
        ev.unstable += 1
    return None, known_status


def c14_replay(prop, casefile, cfg):
    import runner as R
    if casefile.endswith(".case"):
        exe = R.build_driver_binary(prop, cfg["variant"], cfg["sources"], cfg.get("cflags", ()))
        import subprocess
        r = subprocess.run([exe, "--mode", "replay", "--file", casefile, "--times", "3"], env=R.child_env(cfg["variant"]))
        bad = r.returncode == 1
    else:
        exe = R.build_fuzz_binary(prop, cfg["fuzz_sources"])
        verdict, out = R.replay_fuzz_artifact(exe, casefile, 3)
        print(out[-3000:])
        bad = verdict == "fail"
    if bad:
        print("VIOLATION property=%s replay=%s" % (prop, casefile))
        return 1
    print("REPLAY-PASS")
    return 0


PROPS["C14"] = dict(
    variant="asan",
    sources=["engine/prog.c", "props/c14_grammar.c", "props/c14_parse_fuzz.c"],
    cflags=["-DC14_NO_FUZZ_ENTRY"],
    fuzz_sources=["props/c14_parse_fuzz.c"],
    fuzz=True,
    custom=c14_check,
    custom_replay=c14_replay,
    level="exploration",
    technique="coverage-guided fuzzing (libFuzzer, ASan+UBSan) plus rapidcheck grammar-based mutation of generated .orc files, semantic oracle inside the target",
    level_text=("arbitrary byte strings (libFuzzer from an empty corpus and from 140 functions of the repository's .orc files, with a "
                "dictionary of directives and opcode names) and structurally mutated generated files are parsed under address and "
                "undefined-behaviour sanitizers; the target checks the return value / error-record contract and compiles and frees "
                "every returned program. Fuzzing explores; it cannot show absence"),
    level_note=("trusted base: the oracle in props/c14_parse_fuzz.c (line count = number of newlines + 1; one program per `.function` "
                "line in an error-free parse), clang's sanitizers; inputs contain no NUL byte (the API takes a C string)"),
    stages=[
        dict(name="rc-grammar", mode="rc", quick=dict(cases=60000, max_size=400, budget=35), thorough=dict(cases=2000000, max_size=500, budget=500)),
    ],
    rule=("inputs: (a) rapidcheck: one or two generated valid functions printed as .orc text, then 0..4 structured mutations (token "
          "deletion/duplication, directives and opcodes before any .function, lines with 1..200 tokens, >100 instructions, more "
          "variables of a class than a program holds, unknown opcodes/directives, malformed numbers, missing final newline, LF/CRLF/CR "
          "mixes, very long lines, deleted lines, control/high bytes); (b) libFuzzer byte-level mutation, half of the workers from an "
          "empty corpus. Non-trivial = the parse returned a program with >= 1 instruction or >= 1 error record; distinct = distinct "
          "input hashes among those. Oracle: orc_parse_code returns, -1 iff error records exist, records have source/text and "
          "1 <= line <= number of lines, error-free parse => one program per .function, every program compiles (default target and "
          "emulation-only) and is freed, error array released with orc_parse_error_freev, no sanitizer report."),
    assumptions=["inputs contain no NUL byte", "programs returned together with error records are still compiled and freed (they must be safe, not meaningful)"],
)


# generator exclusions that mirror C01's known findings (they make native code read out of bounds or compute garbage,
# which is C01's finding and must not be re-reported by the properties that reuse the native runner)
NATIVE_EXCLUDES = ["special-load-shared-source", "acc-nonarray-source", "mmx-64bit-special-load"]

PROPS["C10"] = dict(
    excludes=NATIVE_EXCLUDES,
    variant="plain",
    sources=ENGINE + ["props/c01_native.c", "engine/run32.c", "engine/tramp32.S"],
    cflags=["-DC10_MODE"],
    level="exploration",
    technique="generated programs called through an assembly trampoline that seeds and checks machine state (state-invariant oracle)",
    level_text=("every single-opcode program form (integer and float) and rapidcheck-generated multi-instruction programs, on avx/sse/mmx "
                "with flag variants (frame pointer, short jumps, reduced feature sets), are called through engine/tramp.S with generated "
                "values in rbx/rbp/r12-r15, generated MXCSR (rounding modes, FTZ, DAZ, masks) and x87 control words, poisoned vector "
                "registers, stack canaries above the return address and an executor placed flush against an inaccessible page"),
    level_note=("trusted base: engine/tramp.S; x86-64 SysV only (no Windows ABI, no 32-bit execution); MXCSR status flags (bits 0-5) "
                "are not part of the judged state"),
    stages=[
        dict(name="enum-single-opcode", mode="enum", quick=dict(budget=40), thorough=dict(budget=600)),
        dict(name="rc-programs", mode="rc", quick=dict(cases=120000, max_size=500, budget=40), thorough=dict(cases=3000000, max_size=600, budget=600)),
    ],
    rule=("case = (program, target, flags, 4..18 calls with generated n, m, alignments and entry state). Non-trivial = compiled successfully "
          "and called with n*m > 0; classes count programs whose listing saves callee-saved registers, sets MXCSR or uses MMX registers. "
          "Oracle after every call: rbx, rbp, r12-r15 and rsp unchanged; 128 bytes of caller stack above the return address unchanged; "
          "MXCSR control bits and x87 control word unchanged; x87 tag word all-empty; DF clear; bytes before the executor and every "
          "array byte outside the destination elements unchanged. Every other case the program is compiled once more as 32-bit code "
          "(default flags without 64BIT, with or without the frame-pointer flag) and run inside this process through a far call into "
          "the compatibility-mode code segment, with code, stack, executor and arrays mapped below 4 GiB (engine/run32.c; probed at "
          "start-up, skipped where the kernel refuses): ebx, esi, edi, ebp and esp unchanged, MXCSR control bits, DF and x87 tags as "
          "above, integer results equal to emulation, no stray write."),
    assumptions=["x86-64 System V calling convention", "dirty upper halves of ymm registers are not an ABI matter"],
)


PROPS["C03"] = dict(
    excludes=NATIVE_EXCLUDES,
    variant="plain",
    sources=ENGINE + ["engine/cgen.c", "props/c01_native.c"],
    cflags=["-DC03_MODE"],
    ldflags=["-ldl"],
    set=["cg_inc=-I{repo} -I{build}", "scratch={scratch}"],
    level="exploration",
    technique="generated programs run on guard-page arenas (PROT_NONE neighbours, read-only sources, canaried gaps) against an entitlement model",
    level_text=("all single-opcode program forms and rapidcheck-generated integer programs (incl. offset, upsampling and resampling loads) "
                "are executed natively on avx/sse/mmx, through emulation and (one program in six) through the gcc-compiled generated C, with every array placed so that its entitled elements end "
                "flush against (or start right after) an inaccessible page, rows either separated by unmapped pages or by canaried gaps, "
                "sources mapped read-only; n dense in 0..100, m in 0..4. A fault is attributed to the array and its distance from the "
                "entitled range. Exploration: only generated programs/shapes are covered"),
    level_note=("trusted base: the entitlement model in engine/prog.c (elements 0..n-1; i+offset for loadoff*; i>>1 and (i>>1)+1 for "
                "loadup*; (b+c*i)>>16 and its successor for ldres*, the successor always granted), mmap/mprotect; stray accesses that stay "
                "inside another array's own mapping are invisible (each array has a private mapping, so this needs an error > 4 KiB)"),
    stages=[
        dict(name="enum-single-opcode", mode="enum", quick=dict(budget=50), thorough=dict(budget=700)),
        dict(name="rc-programs", mode="rc", quick=dict(cases=100000, max_size=500, budget=45), thorough=dict(cases=3000000, max_size=600, budget=600)),
    ],
    rule=("case = (program, target, flags, 4..18 run configurations with placement in {trailing guard, leading guard} x {unmapped row gaps, "
          "canaried gaps}). Non-trivial = compiled successfully and run with n*m > 0 (then at least one array access ends exactly at a "
          "guard boundary by construction). Oracle: no SIGSEGV/SIGBUS in native code or emulation; every byte outside destination "
          "elements 0..n-1 of each row unchanged (sources entirely); native result equals emulation on the same arena."),
    assumptions=["pointers aligned to the declared alignment; the leading-guard placement forces page-aligned starts, alignment variety comes from the trailing-guard placement",
                 "the generated-C path is exercised on guarded arenas by C04's runner, not here"],
)


PROPS["C19"] = dict(
    variant="plain",
    sources=["props/c19_target.c"],
    level="exploration",
    technique="exhaustive enumeration of presented CPUID feature combinations x override settings, one fresh process each, against a truth table",
    level_text=("every combination of the twelve CPUID/XCR0 bits Orc inspects (4096) is presented through the ORC_VERIF_CPUID hook to a fresh "
                "process, with and without an override (quick: five hashed override/vendor/variable choices per feature set; thorough: the full product with three "
                "vendors, eight override values and both variable names). The enumeration of feature sets is complete in both tiers"),
    level_note=("trusted base: the truth table in props/c19_target.c (avx needs AVX, AVX2, XSAVE, OSXSAVE and XCR0[2:1]=11; sse needs SSE2; mmx "
                "needs MMX; default = best executable), the cpuid hook (compiled only with ORC_VERIF_HOOKS). The presented CPU changes what "
                "Orc believes; code is still executed by the real CPU"),
    stages=[
        dict(name="enum-cpu-features", mode="enum", quick=dict(), thorough=dict()),
    ],
    rule=("case = (feature bits MMX, SSE2, SSE3, SSSE3, SSE4.1, SSE4.2, XSAVE, OSXSAVE, AVX, AVX2, XCR0.SSE, XCR0.AVX; vendor; override value in "
          "{unset, mmx, sse, avx, c, neon, unknown, empty}; variable in {ORC_TARGET, ORC_BACKEND}). Every case is distinct; all are non-trivial "
          "(class histogram: expected default, override kind). Oracle: each x86 target's `executable` equals the truth table; default flags are "
          "a subset of the presented features; without override, or with an override naming a target executable on the presented CPU, the "
          "default target is exactly the expected one; any other override leaves an executable default (or none); a one-instruction program "
          "compiled and run through the default path returns the right result."),
    assumptions=["AMD extended leaves (0x80000001) are presented as zero"],
)


PROPS["C09"] = dict(
    variant="plain",
    sources=ENGINE + ["props/c09_codemem.c"],
    level="exploration",
    technique="model-based testing of the code-memory allocator: exhaustive alloc/free sequences to a depth plus generated real compile/take/free/run histories, invariants read through a walker hook after every step",
    level_text=("all allocate/free sequences of depth 6 (quick) or 8 (thorough) over six sizes are enumerated and the allocator's regions "
                "and chunks are checked against an interval model after every step; generated histories of real compiles for avx/sse/mmx "
                "(up to 40 live functions, code hand-off, frees in arbitrary order, re-execution) check placement, byte stability and "
                "results. Exhaustive only for the stated depth and alphabet"),
    level_note=("trusted base: the read-only walker hook orc_verif_codemem_walk (compiled only with ORC_VERIF_HOOKS) and the invariant "
                "checker in props/c09_codemem.c; no placement policy (first fit) is assumed; requests larger than a region are outside "
                "the property"),
    stages=[
        dict(name="enum-alloc-sequences", mode="enum", quick=dict(), thorough=dict()),
        dict(name="rc-real-histories", mode="rc", quick=dict(cases=30000, max_size=600, budget=40), thorough=dict(cases=1000000, max_size=800, budget=600)),
    ],
    rule=("(a) enumerated: one case per 3-operation prefix, the child enumerates every completion to the tier's depth (inner_evaluations = "
          "complete sequences); operations: allocate 1/16/17/1000/30000/65536 bytes, free the k-th live allocation; every sequence ends with "
          "free-all and a whole-region request. (b) generated: 4..64 operations over 40 slots: compile a random program (1..40 instructions) "
          "for a random x86 target, take its code, free it, re-run it. Non-trivial: every enumerated batch; histories with more than two "
          "checked steps. Oracle after every step: chunks tile each region, no adjacent free chunks, live allocations are used chunks of "
          "sufficient size at consistent write/exec offsets, used chunks == live allocations, code bytes of live functions unchanged, "
          "re-execution equals emulation, freed memory is reused (no new region for a whole-region request after free-all)."),
    assumptions=["ORC_CODE=debug (which disables freeing) is not set"],
)

PROPS["C16"] = dict(
    variant="asan",
    sources=ENGINE + ["props/c16_lifecycle.c"],
    env={"ASAN_OPTIONS": "abort_on_error=1:detect_leaks=1:leak_check_at_exit=0:allocator_may_return_null=1:handle_segv=0:handle_sigbus=0:handle_abort=0",
         "LSAN_OPTIONS": "report_objects=1:print_suppressions=0"},
    level="exploration",
    technique="stateful property-based testing (rapidcheck-generated lifecycle histories driven by an ownership model) under AddressSanitizer + LeakSanitizer, with code-memory accounting through the walker hook and enumerated long-loop steady-state cases",
    level_text=("generated legal histories of up to 80 lifecycle operations over four program slots run under ASan (use-after-free, double free) "
                "with a LeakSanitizer check and a code-chunk accounting check after the history has freed everything; four enumerated "
                "3000-iteration loops compare heap bytes in use and code-region count between iteration 1000 and 3000. Sampled, not exhaustive"),
    level_note=("trusted base: ASan/LSan runtime, the ownership model in props/c16_lifecycle.c (which operations are legal), the walker hook; "
                "run-attached is only issued while the program still owns the code it points to (after take_code or reset the program's "
                "code_exec is stale by design and a recompile is required)"),
    stages=[
        dict(name="enum-long-loops", mode="enum", quick=dict(), thorough=dict()),
        dict(name="rc-lifecycle-histories", mode="rc", quick=dict(cases=16000, max_size=1500, budget=50), thorough=dict(cases=400000, max_size=2500, budget=900)),
    ],
    rule=("a case is a history over 4 slots of: new program (valid, with an undeclared operand, or with an unknown opcode - the invalid ones "
          "optionally compiled once while still valid, so that the next compilation is fatal and has to drop that code), compile / recompile "
          "for avx, sse, mmx, c or no target, take_code, reset, run attached, emulate, run taken code, free program, free taken code, "
          "parse generated .orc text (optionally with broken lines, through orc_parse_code or orc_parse_full) and free the programs and "
          "error records. Non-trivial: the history "
          "contains a failed compile followed by further use, a recompile after take_code, or a run of taken code after its program was "
          "freed. Oracle: ASan silent, LSan reports no unreachable block after the final frees, used code chunks == live code objects "
          "after every operation and 0 at the end, a fatal compile result leaves no code object attached, taken code computes what "
          "emulation computes, heap in use and region count do not grow "
          "between iteration 1000 and 3000 of the long loops."),
    assumptions=["ORC_CODE=debug (which disables freeing) is not set"],
)

PROPS["C17"] = dict(
    variant="plain",
    sources=ENGINE + ["props/c17_determinism.c"],
    level="exploration",
    technique="metamorphic property-based testing (rapidcheck): the same generated program is compiled before and after a generated history of other compiles/frees, at different debug levels and after a reset; machine code, listing and run results must be identical",
    level_text=("generated programs (full opcode set) x 8 registered targets x flag variations x debug levels x histories of up to 14 other "
                "compiles/hand-offs/frees: three compilations of the same program are compared byte for byte (code, listing, result), and on "
                "x86 the two placements are run on identical inputs and compared bit for bit. Sampled, not exhaustive"),
    level_note=("trusted base: harness and generator; ORC_CODE is not set (randomize is documented to randomise registers); the debug output "
                "itself is formatted and dropped by a print function installed with orc_debug_set_print_function; a crash inside the first "
                "compilation is C05's subject and is counted as excluded"),
    stages=[
        dict(name="rc-histories", mode="rc", quick=dict(cases=200000, max_size=600, budget=50), thorough=dict(cases=6000000, max_size=900, budget=1200)),
    ],
    rule=("a case is (program, target in {avx,sse,mmx,altivec,neon,mips,c64x-c,c}, flags, three debug levels 0..5, history). Non-trivial: "
          "the compilation produced code or a listing AND at least one of: the second placement differs from the first, the debug levels "
          "differ, or the history has four or more operations. Oracle: compile result, code size, code bytes and listing of compilation "
          "#1 (fresh object after the history) and #2 (reset + recompile) equal those of #0; same code run twice and code at the old and "
          "new placement run on identical inputs give bit-identical destination arrays and accumulators."),
    assumptions=["ORC_CODE is unset", "x86 runs only use flag sets within the machine's features"],
)

CG_SETS = ["cg_inc=-I{repo} -I{build}", "scratch={scratch}", "repo={repo}", "genemu={build}/tools/generate-emulation"]

PROPS["C04"] = dict(
    variant="plain",
    sources=ENGINE + ["engine/cgen.c", "engine/refsem.c", "engine/refprog.c", "props/c04_csource.c"],
    ldflags=["-ldl"],
    set=CG_SETS,
    excludes=["const-two-lane-sizes"],   # known finding C02-const-two-lane-sizes: the float reference (doc semantics) must not be consulted on programs that contain it
    level="exploration",
    technique="differential property-based testing (rapidcheck): the C text Orc generates is compiled with gcc at case time and run against orc_executor_emulate on identical guarded arenas; plus a regenerate-and-compare of the checked-in emulator",
    level_text=("generated programs x three C-target forms (complete function, orcc's backup body, orcc's DISABLE_ORC body) x gcc -O0/-O2/-O3 x "
                "1..6 run configurations each: destination bytes, accumulators and untouched surroundings are compared with emulation; the "
                "checked-in orcemulateopcodes.c/.h are regenerated with tools/generate-emulation and compared line by line. Sampled, not exhaustive"),
    level_note=("trusted base: gcc 12 as 'a C compiler', the wrapper that unpacks an executor into the named arguments of the NOEXEC form "
                "(engine/cgen.c), the arena comparison; programs the C target refuses are discarded (classification is C05's subject)"),
    stages=[
        dict(name="enum-emulator-regeneration", mode="enum", quick=dict(workers=1), thorough=dict(workers=1)),
        dict(name="rc-generated-c", mode="rc", quick=dict(cases=14000, max_size=500, budget=50), thorough=dict(cases=500000, max_size=800, budget=1500)),
    ],
    rule=("a case is (program, C-target form, gcc optimisation level, 1..6 run configurations); every run is an inner evaluation. Non-trivial: "
          "the C target accepted the program, gcc produced a loadable object and at least one run was compared. Oracle: bytes of every "
          "destination array, accumulators, and all bytes outside the entitled destination elements equal between the gcc-compiled "
          "source and orc_executor_emulate; a source gcc rejects is a violation; regenerated emulator files equal the checked-in ones."),
    assumptions=["gcc 12.2 -std=gnu11 -fno-fast-math -ffp-contract=off stands for 'a C compiler'"],
)

PROPS["C18"] = dict(
    variant="plain",
    sources=ENGINE + ["engine/cgen.c", "engine/refsem.c", "engine/refprog.c", "props/c18_float.c"],
    ldflags=["-ldl"],
    set=CG_SETS,
    excludes=["const-two-lane-sizes"],   # known finding C02-const-two-lane-sizes (shared load cache) is kept out by construction
    level="exploration",
    technique="enumeration of structured operand cross products per float opcode/form plus property-based float programs (rapidcheck), every path (emulation, avx, sse, gcc-compiled generated C) compared bit for bit with an independent host-IEEE flush-to-zero reference that encodes the statement's NaN and +-0 freedoms",
    level_text=("every float/double opcode x every operand form x the full cross product of a structured operand table (about 180 single and "
                "180 double values: zeros, denormals, smallest-normal neighbours, powers of two, integers near 2^24/2^31/2^53, ties, "
                "infinities, quiet/signalling NaNs, fixed pseudo-random normals) in 64x64 blocks - exhaustive over that table when the stage "
                "completes (thorough); the quick tier covers the blocks it reaches within its budget; plus generated float-only programs "
                "on table-drawn arrays"),
    level_note=("trusted base: host SSE arithmetic with MXCSR=0x1f80 as IEEE-754 binary32/binary64, engine/refprog.c, gcc 12 for the "
                "generated C path; exception flags are not judged; x87 is not involved"),
    stages=[
        dict(name="enum-operand-blocks", mode="enum", quick=dict(budget=60), thorough=dict(budget=3000)),
        dict(name="rc-float-programs", mode="rc", quick=dict(cases=6000, max_size=400, budget=20), thorough=dict(cases=300000, max_size=600, budget=900)),
    ],
    rule=("enumerated case = (opcode, operand form, 64x64 block of the operand-table product); generated case = (float-only program of 1..10 "
          "instructions, n, m, misalignment, table-drawn array contents). inner_evaluations = destination elements x paths compared. "
          "Non-trivial: at least two paths ran and at least one element's computation met a zero, denormal, infinity, NaN, flush, "
          "saturation or tie. Oracle: every path's destination bytes equal the reference except lanes the statement frees (any NaN "
          "accepted where float arithmetic had a NaN operand or an invalid operation; min/max of numerically equal operands and NaN "
          "converted to integer are not judged)."),
    assumptions=["default target flags (ORC_TARGET_FAST_NAN / FAST_DENORMAL relax the semantics by design and are not used)"],
)

PROPS["C15"] = dict(
    variant="asan",
    sources=ENGINE + ["props/c15_text.c"],
    # known finding C02-const-two-lane-sizes: a constant written once as a variable and once as an inline literal is one shared
    # variable in the API twin and two variables in the parsed program, which makes that defect visible here; kept out by construction
    excludes=["const-two-lane-sizes"],
    level="exploration",
    technique="round-trip / differential property-based testing (rapidcheck): generated programs are built through the API and, independently, printed as .orc text with randomised formatting and literal spellings, parsed, and compared structurally and by emulation",
    level_text=("generated files of 1..3 functions (full opcode set, all directive kinds) printed with random spacing, tabs, comments, blank "
                "lines, variable names from a pool of number-like and keyword-like identifiers (nan, inf, infinity, info, x2, n, dest ...) in a "
                "third of the functions, LF/CRLF/mixed endings, decimal/hex/octal/negative/float/L-suffixed literals, inline literal operands, type names "
                "and alignments; every parsed program is compared with its API-built twin field by field and by emulation on random "
                "inputs. Sampled, not exhaustive"),
    level_note=("trusted base: the printer in props/c15_text.c (written from doc/ and the directive handlers' accepted grammar), the "
                "structural comparison, orc_executor_emulate for the behavioural half; the parser may share equal literal constants, "
                "so constants are compared by value and size through the instructions that use them"),
    stages=[
        dict(name="rc-print-parse", mode="rc", quick=dict(cases=60000, max_size=700, budget=50), thorough=dict(cases=3000000, max_size=1000, budget=1200)),
    ],
    rule=("a case is (1..3 programs, formatting choices, 1..2 run configurations per function). Non-trivial: the first function has at "
          "least one instruction. Oracle: error-free parse, one program per .function in order, equal names/settings/variables/"
          "instructions (operands resolved; constants by truncated value), identical emulation results."),
    assumptions=[],
)

PROPS["C05"] = dict(
    variant="asan",
    sources=ENGINE + ["props/c05_compile.c"],
    level="exploration",
    technique="property-based robustness testing (rapidcheck) of orc_program_compile_full under ASan/UBSan: valid, API-mutated and over-limit programs x all registered targets x arbitrary flags, with a classification oracle on the result code and the program state",
    level_text=("generated valid programs (up to 90 instructions), programs mutated by arbitrary construction-API calls (any opcode, prefix "
                "combination, variable index 0..63, odd sizes/alignments, unknown names) and over-limit programs (up to 320 instructions, "
                "tens of variables per class, tens of live temporaries) compiled for 1..3 of the 8 registered targets with default, zero, "
                "masked, bit-flipped or fully random flags, in an ASan/UBSan build with a 20 s CPU limit per case. Sampled, not exhaustive"),
    level_note=("trusted base: ASan/UBSan runtime, the classification rules in props/c05_compile.c; variable indices outside 0..63 and NULL "
                "pointers are caller errors outside the API contract and are not generated; a fatal result for a well-typed program is "
                "counted but not judged (the statement does not exclude it)"),
    stages=[
        dict(name="enum-near-valid-instructions", mode="enum", quick=dict(budget=120), thorough=dict(budget=1200)),
        dict(name="rc-compile", mode="rc", quick=dict(cases=30000, max_size=800, budget=40), thorough=dict(cases=3000000, max_size=1200, budget=1500)),
    ],
    rule=("enumerated: every opcode x prefix (none, x2, x4) as a one-instruction program with operands of exactly the class and size each "
          "position needs, then every operand position spoiled in 16 ways (11 sizes incl. 0, -1, 3, 5, 16, 32; wrong class; constant or "
          "accumulator in the wrong role; undeclared variable; flag bits 2 and 3, which are not prefixes) x array or temporary "
          "operands x all 8 targets (about 590 cases, 0.7 million compiles; what avx or c accept is also emulated); then, per target, "
          "the N = 3..52 opcodes that are most expensive for that back end, one instruction each - the ranking is measured at start-up "
          "by compiling every opcode alone and counting labels, pool entries and code bytes in its listing (3 rankings x 2 flag sets x "
          "8 targets = 2400 programs); then 16 hand-written regression programs (pooled AltiVec constants). Generated: "
          "a case is (program built as valid / mutated / over-limit, 1..3 (target, flags) pairs); every compile is an inner evaluation. "
          "Non-trivial: every case (each reaches the compiler). Oracle: the call returns within the CPU limit with no sanitizer report or "
          "abort; the result is a documented code; fatal => no executable code attached; successful => code object, exec pointer, listing "
          "present and (valid integer program, x86 target, default flags) native run == emulation; other => code object "
          "present, code_exec is the emulator/backup, orc_executor_run works (valid programs); a mutated program that got any non-fatal "
          "result is emulated on ample arrays and must not crash (programs with offset/resampling loads excepted: their index operands "
          "are arbitrary); orc_program_free works."),
    assumptions=["ORC_CODE unset"],
)

PROPS["C06"] = dict(
    variant="plain",
    sources=ENGINE + ["props/c06_fallback.c"],
    ldflags=["-Wl,--wrap=mmap64", "-Wl,--wrap=mkstemp64", "-Wl,--wrap=ftruncate64"],
    set=["scratch={scratch}"],
    level="exploration",
    technique="enumerated fault injection (link-time wrapping of mkstemp/ftruncate/mmap, failing the calls a plan names) over configurations, with an emulation/differential oracle and a backup-call counter; each case initialises the library in its own process",
    level_text=("every single failing call position 0..23, every pair of positions below 14, every call of one kind, every call from position k on, and - from position k < 12 on - every call of any subset of the five call kinds "
                "(mkstemp, ftruncate, executable file mapping, writable file mapping, anonymous mapping), among the mkstemp/ftruncate/mmap calls made by orc_init and by compilation, x ORC_CODE in {unset, emulate, backup, "
                "debug, backup+emulate} x backup function yes/no x attached/code-only executor x three programs x three environment "
                "settings: 51084 configurations, enumerated completely in both tiers"),
    level_note=("trusted base: the --wrap shim in props/c06_fallback.c (failures are injected only while the harness arms it, i.e. inside "
                "orc_init and orc_program_compile_for_target), orc_executor_emulate on a separately built program as the reference, plus a C "
                "loop for the addw program; positions beyond the calls actually made are no-ops (counted as plan without injection)"),
    stages=[
        dict(name="enum-fault-plans", mode="enum", quick=dict(budget=240), thorough=dict(budget=1200)),
    ],
    rule=("a case is (failure plan, ORC_CODE, backup function, executor kind, program, environment). Non-trivial: every case (each runs "
          "init, compile, two executions and 45 further compile/free rounds); the classes report how many had a failure injected during init "
          "or during compilation and how many ended on native code or on a fallback. Oracle: results equal emulation (and s1+s2 for addw); "
          "backup function called 0 times when native code ran, at most once per run otherwise, exactly once per run under ORC_CODE=backup; no fatal "
          "result for the valid programs; open descriptors do not grow between round 5 and round 45."),
    assumptions=["Linux mmap code-memory back end (HAVE_CODEMEM_MMAP)"],
)

PROPS["C20"] = dict(
    variant="asan",      # handles into the opcode-set table must stay valid: a stale one is a heap-use-after-free
    sources=ENGINE + ["props/c20_extension.c"],
    level="exploration",
    technique="model-based property testing (rapidcheck): generated registration histories of extension opcode sets and rule sets, a model predicting the rule that must be chosen, instrumented application rules and emulation functions, C interpretation of generated mixed programs as result oracle",
    level_text=("generated registrations of 1..4 extension opcode sets (seven 16-bit opcodes whose names are unrelated to, prefixes of, or "
                "extensions of built-in names) and up to 8 rule sets for sse/mmx with generated required flags and partial opcode coverage, "
                "within the targets' free rule-set slots; per case two built-in programs compared before/after (code bytes and results) and "
                "three mixed programs emulated, compiled with generated flags, checked against the rule-choice model and a C interpretation. "
                "Sampled, not exhaustive"),
    level_note=("trusted base: the model of 'most recently registered qualifying rule set' and the C interpretation in props/c20_extension.c; "
                "rule sets beyond a target's capacity (ORC_N_RULE_SETS) are not registered - the statement quantifies up to the capacity; "
                "extension rules are written with the public orc_sse_emit_*/orc_mmx_emit_* macros as examples/volscale.c does"),
    stages=[
        dict(name="rc-registration-histories", mode="rc", quick=dict(cases=250000, max_size=500, budget=45), thorough=dict(cases=2000000, max_size=700, budget=900)),
    ],
    rule=("a case is one process: (registration history, two built-in programs, three mixed programs with target and flags). Non-trivial: at "
          "least one extension set registered and one mixed program checked. Oracle: built-in machine code and results unchanged by the "
          "registration; emulation of mixed programs equals the C interpretation and calls the application's emulation functions; compile "
          "success iff the model finds a qualifying rule for every extension instruction; every invoked application rule is the one the "
          "model names; native and fallback results equal the C interpretation."),
    assumptions=[],
)

PROPS["C07"] = dict(
    variant="plain",
    sources=ENGINE + ["engine/refsem.c", "engine/refprog.c", "props/c07_orcc.c"],
    ldflags=["-rdynamic", "-Wl,--whole-archive", "{liborc}", "-Wl,--no-whole-archive", "-ldl"],
    set=["cg_inc=-I{repo} -I{build}", "scratch={scratch}", "orcc={build}/tools/orcc",
         "testlibs={build}/orc-test/liborc-test-0.4.a {build}/orc/liborc-0.4.a"],
    excludes=NATIVE_EXCLUDES + ["const-two-lane-sizes", "ftz-threshold"],
    level="exploration",
    technique="end-to-end differential property-based testing (rapidcheck): generated .orc files go through the real orcc and gcc, the generated functions are called through their C prototypes from a generated caller and compared with emulation of API-built twins; enumerated lengths/alignments for orc_memcpy/orc_memset against memcpy/memset",
    level_text=("generated .orc files (1..3 functions, full opcode set, 2-D, accumulators, typed parameters) x orcc options (lazy or "
                "--init-function, --compat none/0.4.5/0.4.6/0.4.8/0.4.14.1/0.4.30, --no-backup, --inline) x {JIT, ORC_CODE=backup, ORC_CODE=emulate, "
                "DISABLE_ORC}; both orcc outputs compiled by gcc with a generated caller, every function called 1..3 times on guarded "
                "arenas (positive and negative strides; one function in twelve with variable classes filled to the limit); orc_memcpy/"
                "orc_memset for all lengths 0..260 x 16x16 misalignments x three modes (enumerated, complete); a generated function as the "
                "first Orc call of a fresh process (6 cases); the .backup directive with an application-supplied fallback (4 files x 2 builds, "
                "each run with ORC_CODE=backup and without); orcc --test on 16 generated files: the self-test program must compile, link with "
                "liborc-test and pass. The generated part is sampled"),
    level_note=("trusted base: gcc 12, the caller generator (argument order as tools/orcc.c:output_prototype), orc_executor_emulate of the "
                "API-built twin as reference (C15 relates text to API, C02 relates emulation to the documentation); known native/emulation "
                "findings of C01/C02/C18 are kept out by construction"),
    stages=[
        dict(name="enum-memcpy-memset-first-use", mode="enum", quick=dict(), thorough=dict()),
        dict(name="rc-orcc-end-to-end", mode="rc", quick=dict(cases=5000, max_size=500, budget=55), thorough=dict(cases=150000, max_size=800, budget=1800)),
    ],
    rule=("generated case = (.orc file, orcc options, run mode, 1..3 calls per function); inner evaluation = one call compared. Non-trivial: "
          "at least one call compared. Oracle: orcc exits 0 for implementation and header; gcc accepts both with the caller; every call "
          "leaves the destination bytes / accumulators emulation leaves (float: NaN and +-0 freedoms) and nothing else changes. "
          "Enumerated case = (mode, destination misalignment): all lengths and source misalignments, both in the middle of a buffer "
          "and ending at an unmapped page, equal memcpy/memset including the surrounding bytes. .backup case: both outputs compile "
          "together with the application's backup function (declared with the prototype orcc gives it), results are right with and "
          "without ORC_CODE=backup, and the backup ran exactly once when it had to. orcc refusing a file is a discard only for "
          "--compat levels older than a feature the file uses and for functions with more than 27 variables (the C target models 32 "
          "registers); any other refusal of a well-formed file is a violation."),
    assumptions=["gcc 12.2 stands for the application's C compiler"],
)

PROPS["C08"] = dict(
    variant="tsan",
    confirm_any=True,       # a race or a deadlock shows in some interleavings only: one reproduction in six replays confirms a failure
    sources=["props/c08_threads.c", "props/c08_once99.c"],
    level="exploration",
    technique="property-based concurrency testing (rapidcheck-generated per-thread operation lists with generated yields, all threads released by a barrier, fresh process per case) under ThreadSanitizer's happens-before race detection, with result and exactly-once counters as oracles",
    level_text=("generated workloads of 2..16 threads x 3..14 operations each (concurrent orc_init, compile/run/free of own programs for "
                "avx/sse/mmx with and without code hand-off, runs of functions compiled once and shared, calls through once-guarded wrappers "
                "written like orcc's lazy-init output - four compiled as C11 and four as C99 (props/c08_once99.c, -std=gnu99), where "
                "orconce.h selects its __sync implementation, the one a C99 application such as GStreamer gets) with generated yields, each "
                "in a fresh process under ThreadSanitizer. TSan judges every "
                "pair of conflicting accesses that occurred, not only the interleaving that happened to run; sampled, not exhaustive, and "
                "JIT-generated code itself is not instrumented"),
    level_note=("trusted base: ThreadSanitizer (clang 14) for the library's C code, the harness' counters and C reference kernels; accesses made "
                "by generated machine code are invisible to TSan (they only touch the calling thread's own arrays); liveness is only observed "
                "as 'all threads joined within the CPU limit'"),
    stages=[
        dict(name="rc-thread-workloads", mode="rc", quick=dict(cases=9000, max_size=400, budget=50), thorough=dict(cases=200000, max_size=600, budget=1500)),
    ],
    rule=("a case is one process: thread count, per-thread operation list with yields. Non-trivial: at least two concurrent compiles, or a "
          "once-guarded wrapper called from two or more threads, or two runs of a shared function. Oracle: no ThreadSanitizer report (the "
          "process aborts on the first), every kernel result equals the C computation, each used wrapper's initialisation block ran exactly "
          "once and returned a non-NULL code object, unused wrappers were not initialised; no deadlock: worker threads that are not finished "
          "must keep consuming CPU time (8 s without any is a deadlock). A third of the threads do not call orc_init() themselves, as "
          "applications that rely on initialisation at first use do."),
    assumptions=["pthread build of Orc (ORC_THREADS via pthreads)"],
)
