"""Per-property configuration of the checks (see DESIGN.md section 4)."""

ENGINE = ["engine/prog.c", "engine/tramp.S"]

PROPS = {}
NOT_CLAIMED = {}

PROPS["C01"] = dict(
    variant="plain",
    sources=ENGINE + ["props/c01_native.c"],
    level="exploration",
    technique="differential testing (native vs emulation) over rapidcheck-generated programs and exhaustive single-opcode enumeration",
    level_text=("generated-input search: every single-opcode program form is enumerated on all three x86 backends (with all 2^16 operand "
                "pairs for 8-bit opcodes) and random multi-instruction programs are explored with shrinking; it shows absence of "
                "disagreement only on what was explored, which is the right level for a property quantified over all programs and inputs"),
    level_note=("trusted base: orc_executor_emulate as the reference (its own meaning is C02's business), the array arena and the "
                "assembly trampoline of /verif; known findings excluded by construction are listed in known_findings.json"),
    stages=[
        dict(name="enum-single-opcode", mode="enum",
             quick=dict(budget=45), thorough=dict(budget=900)),
        dict(name="rc-programs", mode="rc",
             quick=dict(cases=120000, max_size=500, budget=45), thorough=dict(cases=4000000, max_size=600, budget=900)),
    ],
    rule=("case = (program, x86 target, flag variant, 4..18 run configurations). Programs: (enum) every integer sys opcode as a "
          "one-instruction program in every operand-kind (array/constant/parameter per operand) x prefix (x1/x2/x4) x in-place x "
          "1-D/2-D form x {avx,sse,mmx} x 6 flag variants, run for n in {0,1,2,3,5,7,8,15,16,17,31,32,33,63,64,65,67,100} plus all "
          "2^16 byte pairs / all 2^16 values for 8-bit and unary 16-bit opcodes; (rc) rapidcheck choice streams decoded into "
          "well-typed programs of 1..40 instructions (temporaries reused/overwritten, in-place destinations, accumulators, "
          "constants, 1/2/4/8-byte parameters, x2/x4, special loads, constant n, n multiple/min/max, 2-D, declared alignment) "
          "with boundary-biased data, n in 0..200 (and 1000..5000), m in 0..5, strides, misalignment mod 64. "
          "Non-trivial = compiled successfully for the target and at least one run had n*m > 0; distinct = hash of "
          "(program, target, flags, the n values). Oracle: orc_executor_emulate on identical inputs; destination bytes of elements "
          "0..n-1 per row and accumulators (masked to their size) equal, every other array byte unchanged."),
    assumptions=[
        "inputs stay inside documented/observed caller preconditions: pointers and strides aligned to the declared alignment, "
        "non-negative strides, no aliasing between distinct variables, shift counts 0..width-1, resampling/offset parameters "
        "that keep indices inside the (enlarged) source arrays, n consistent with constant_n / n_multiple / n_min / n_max",
        "integer opcodes only (float paths are C18); programs stay inside the compiler's internal table sizes (that is C05)",
        "only 64-bit x86 code can be executed on this host",
    ],
)
