#!/usr/bin/env python3
"""Write MANIFEST.json from tools/registry.py (claimed checks) and tools/notyet.py (not applicable list)."""
import json, os, sys
sys.path.insert(0, os.path.dirname(os.path.abspath(__file__)))
import registry

VERIF = os.path.dirname(os.path.dirname(os.path.abspath(__file__)))
all_ids = [json.loads(l)["id"] for l in open(os.path.join(VERIF, "properties.jsonl"))]
hook_commits = ["6db10ca", "ac82932"]
checks = []
for pid in all_ids:
    if pid not in registry.PROPS:
        continue
    c = registry.PROPS[pid]
    checks.append({
        "property_id": pid,
        "quick_cmd": "./check %s --tier quick" % pid,
        "thorough_cmd": "./check %s --tier thorough" % pid,
        "evidence_file": "/verif/evidence/%s.json" % pid,
        "replay_cmd_template": "./check %s --replay {path}" % pid,
        "engine": c.get("engine", "rapidcheck choice streams + enumeration (engine/driver.cc)"),
        "level_claimed": {"category": c["level"], "text": c["level_text"], "design_ref": "DESIGN.md section 4, " + pid},
        "level_note": c["level_note"],
        "technique": c["technique"],
    })
na = []
for pid in all_ids:
    if pid not in registry.PROPS:
        na.append({"property_id": pid, "reason": registry.NOT_CLAIMED.get(pid, "check not built yet in this session; see DESIGN.md")})
m = {
    "version": 1,
    "setup_cmd": "./check --setup",
    "hooks": {
        "guard": "ORC_VERIF_HOOKS",
        "enable": "tools/build.py configures meson with -Dc_args=-DORC_VERIF_HOOKS into /verif/_work/build/<variant> (static library); harnesses are compiled with the same define",
        "baseline_off_cmd": "meson test -C /repo/_build",
        "source_commits": hook_commits,
        "add_only": True,
    },
    "engines": [
        {"name": "driver", "path": "engine/driver.cc", "serves_properties": sorted(registry.PROPS.keys()),
         "kind_free_text": "rapidcheck over choice streams (generation + shrinking + positional post-shrink), sharded systematic enumeration, replay; each case in a forked child"},
        {"name": "libfuzzer", "path": "engine/fuzz_main.c", "serves_properties": [p for p in registry.PROPS if registry.PROPS[p].get("fuzz")],
         "kind_free_text": "libFuzzer targets (byte-level and structure-aware through the same decoders), ASan+UBSan"},
    ],
    "checks": checks,
    "not_applicable": na,
    "notes": "All checks rebuild liborc from /repo's working tree (VERIF_REPO overrides the source dir for mutation runs). Known findings: known_findings.json.",
}
json.dump(m, open(os.path.join(VERIF, "MANIFEST.json"), "w"), indent=1)
print("checks:", [c["property_id"] for c in checks], "not_applicable:", len(na))
