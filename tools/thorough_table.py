#!/usr/bin/env python3
"""Print a markdown table of the thorough-tier evidence files (evidence_thorough/*.json) for DESIGN.md 8.7."""
import json, glob, os
VERIF = os.path.dirname(os.path.dirname(os.path.abspath(__file__)))
print("| check | cases generated | distinct non-trivial | wall time (s, 16 cores) | known findings hit | result |")
print("|---|---|---|---|---|---|")
for f in sorted(glob.glob(os.path.join(VERIF, "evidence_thorough", "*.json"))):
    d = json.load(open(f)); c = d["coverage"]
    kf = c.get("known_findings_hit") or {}
    print("| %s | %d | %d | %d | %s | %s |" % (os.path.basename(f)[:3], c["evaluations"], c["distinct_nontrivial"], round(d.get("wall_s", 0)),
          ", ".join("%s x%d" % (k, v) for k, v in kf.items()) or "-", "held" if not d.get("violations") else "VIOLATION (see 8.4)"))
