"""Oracle half of C11/C12: GNU as + objdump over the listings emitted by props/c12_listing.c.

C12: listing --as--> bytes --objdump--> instruction sequence  must equal  objdump(orc's own bytes)
C11: listing must assemble under an .arch setting derived only from the target flag set
"""
import hashlib
import os
import re
import subprocess
import tempfile

SSE_FLAGS = dict(SSE2=1 << 0, SSE3=1 << 1, SSSE3=1 << 2, SSE4_1=1 << 3, SSE4_2=1 << 4, FP=1 << 7, SJ=1 << 8, B64=1 << 9,
                 AVX=1 << 10, AVX2=1 << 11)
MMX_FLAGS = dict(MMX=1 << 0, MMXEXT=1 << 1, SSSE3=1 << 4, SSE4_1=1 << 5, SSE4_2=1 << 6, FP=1 << 7, SJ=1 << 8, B64=1 << 9)


def parse_records(path):
    recs = []
    if not os.path.exists(path):
        return recs
    cur = None
    section = None
    with open(path, errors="replace") as f:
        for line in f:
            if line.startswith("@@case "):
                cur = dict(kv.split("=", 1) for kv in line.split()[1:])
                cur["flags"] = int(cur["flags"], 16)
                cur["bits"] = int(cur["bits"])
                cur["prog"] = ""
                cur["asm"] = ""
                section = None
            elif cur is None:
                continue
            elif line.startswith("@@stream"):
                cur["stream"] = line[len("@@stream"):].strip()
            elif line.startswith("@@prog"):
                section = "prog"
            elif line.startswith("@@asm"):
                section = "asm"
            elif line.startswith("@@code"):
                cur["code"] = bytes.fromhex(line[len("@@code"):].strip())
                section = None
            elif line.startswith("@@end"):
                if "code" in cur:
                    recs.append(cur)
                cur = None
            elif section:
                cur[section] += line
    return recs


def arch_lines(rec):
    """`.arch` prefix derived only from (target, flags, bits)."""
    t, f, bits = rec["target"], rec["flags"], rec["bits"]
    base = ".arch generic64" if bits == 64 else ".arch i686"
    ext = [".ibt"]
    if t in ("sse", "avx"):
        if bits == 32:
            ext += [".mmx", ".sse", ".sse2"]
        if f & SSE_FLAGS["SSE3"]:
            ext.append(".sse3")
        if f & SSE_FLAGS["SSSE3"]:
            ext.append(".ssse3")
        if f & SSE_FLAGS["SSE4_1"]:
            ext.append(".sse4.1")
        if f & SSE_FLAGS["SSE4_2"]:
            ext.append(".sse4.2")
        if t == "avx":
            if f & SSE_FLAGS["AVX"]:
                ext.append(".avx")
            if f & SSE_FLAGS["AVX2"]:
                ext.append(".avx2")
    else:
        if bits == 64:
            ext = [".nosse", ".mmx", ".ibt"]
        else:
            ext = [".mmx", ".ibt"]
        if f & MMX_FLAGS["MMXEXT"]:
            ext.append(".3dnowa")
        # SSSE3 / SSE4.1 bits of the mmx target only ever allow the %mm forms: xmm use is checked on the text
        if f & MMX_FLAGS["SSSE3"]:
            ext.append(".ssse3")
        if f & MMX_FLAGS["SSE4_1"]:
            ext.append(".sse4.1")
        if f & MMX_FLAGS["SSE4_2"]:
            ext.append(".sse4.2")
    return [base] + [".arch " + e for e in ext]


LABEL_RE = re.compile(r"^([A-Za-z_][A-Za-z0-9_.]*):\s*$")
GLOBAL_RE = re.compile(r"^\s*\.global\s+(\S+)")


def rename_listing(asm, prefix):
    """make the function label unique inside a batch"""
    out = []
    for line in asm.split("\n"):
        m = GLOBAL_RE.match(line)
        if m:
            continue
        m = LABEL_RE.match(line)
        if m:
            out.append("%s_%s:" % (prefix, re.sub(r"[^A-Za-z0-9_]", "_", m.group(1))))
            continue
        out.append(line)
    return "\n".join(out)


NOP_RE = re.compile(r"^(nop|nopw|nopl|xchg\s+%ax,%ax|data16|cs nopw|lea\s+0x0\(%[re]si(,%[re]iz,1)?\),%[re]si|xchg\s+%eax,%eax)\b")
INSN_RE = re.compile(r"^\s*([0-9a-f]+):\t(.*)$")
SYM_RE = re.compile(r"^[0-9a-f]+ <([^>]+)>:$")
BRANCH_RE = re.compile(r"^(j[a-z]+|jmp|call|loop[a-z]*)\s+([0-9a-f]+)(\s+<.*>)?$")


def run(cmd, **kw):
    return subprocess.run(cmd, stdout=subprocess.PIPE, stderr=subprocess.STDOUT, text=True, **kw)


def objdump_syms(obj, bits):
    r = run(["objdump", "-d", "--no-show-raw-insn", "-w", "-M", "suffix" if False else "att", obj])
    syms = {}
    cur = None
    for line in r.stdout.split("\n"):
        m = SYM_RE.match(line)
        if m:
            cur = m.group(1)
            syms[cur] = []
            continue
        m = INSN_RE.match(line)
        if m and cur is not None:
            syms[cur].append((int(m.group(1), 16), m.group(2).strip()))
    return syms


def normalise(insns):
    """[(addr, text)] -> list of comparable tuples; nop padding dropped, branch targets as ordinals."""
    keep = []
    for addr, text in insns:
        text = re.sub(r"\s+", " ", text.strip())
        text = re.sub(r"\s*#.*$", "", text)
        # a zero displacement is not part of the instruction's meaning: Orc encodes 0(%exec_reg) with an explicit disp8 of 0 (to
        # keep instruction lengths independent of the offset), the assembler uses the shorter form without displacement
        if NOP_RE.match(text) or text == "(bad)" and False:
            continue
        text = re.sub(r"(?<![0-9A-Za-z])0x0\((?=%)", "(", text)      # after the nop test: some padding nops are `lea 0x0(%esi,%eiz,1),%esi`
        keep.append((addr, text))
    addrs = [a for a, _ in keep]

    def ordinal(target):
        # first kept instruction at or after the target address
        lo, hi = 0, len(addrs)
        while lo < hi:
            mid = (lo + hi) // 2
            if addrs[mid] < target:
                lo = mid + 1
            else:
                hi = mid
        return lo
    out = []
    for addr, text in keep:
        m = BRANCH_RE.match(text)
        if m:
            out.append("%s ->#%d" % (m.group(1), ordinal(int(m.group(2), 16))))
        else:
            out.append(text)
    return out


def assemble_batch(tmpdir, tag, chunks, bits):
    """chunks: list of (key, text).  Returns (objpath or None, {key: error}) ; failing chunks are dropped and retried."""
    errors = {}
    chunks = list(chunks)
    for _ in range(len(chunks) + 1):
        if not chunks:
            return None, errors, []
        src = os.path.join(tmpdir, tag + ".s")
        owner = [None]          # 1-based line numbers
        srclines = [""]
        with open(src, "w") as f:
            f.write(".text\n")
            owner.append(None)
            srclines.append(".text")
            for key, text in chunks:
                for line in text.split("\n"):
                    f.write(line + "\n")
                    owner.append(key)
                    srclines.append(line)
        obj = os.path.join(tmpdir, tag + ".o")
        r = run(["as", "--64" if bits == 64 else "--32", src, "-o", obj])
        if r.returncode == 0:
            return obj, errors, [k for k, _ in chunks]
        bad = set()
        for line in r.stdout.split("\n"):
            m = re.match(r"^[^:]+:(\d+): (Error|Fatal error): (.*)$", line)
            if m:
                ln = int(m.group(1))
                key = owner[ln] if ln < len(owner) else None
                if key is not None and key not in errors:
                    errors[key] = "%s  [offending line: %s]" % (m.group(3), srclines[ln].strip() if ln < len(srclines) else "?")
                    bad.add(key)
        if not bad:
            # cannot attribute: give up on the whole batch conservatively (reported as tool problem, not violation)
            for k, _ in chunks:
                errors.setdefault(k, "TOOL: unattributed assembler failure: " + r.stdout[-300:])
            return None, errors, []
        chunks = [(k, t) for k, t in chunks if k not in bad]
    return None, errors, []


CROSS = {
    "neon": dict(mc=["-triple=armv7-none-eabi", "-mattr=+neon,+vfp3,+dsp,+v6t2"], prefix="", objdump=["--triple=armv7-none-eabi", "--mattr=+neon,+vfp3,+dsp"]),
    "mips": dict(mc=["-triple=mipsel-none-elf", "-mcpu=mips32r2", "-mattr=+dsp,+dspr2"], prefix=".set noreorder\n.set noat\n",
                 objdump=["--triple=mipsel-none-elf", "--mcpu=mips32r2", "--mattr=+dsp,+dspr2"]),
}
LLVM_MC, LLVM_OBJCOPY, LLVM_OBJDUMP = "llvm-mc-14", "llvm-objcopy-14", "llvm-objdump-14"
CROSS_INSN_RE = re.compile(r"^\s*([0-9a-f]+):\s+((?:[0-9a-f]{2} )+)\s*(.*)$")


def _cross_decode(obj, cfg):
    """address -> normalised instruction text"""
    r = run([LLVM_OBJDUMP, "-d", "--no-show-raw-insn"] + cfg["objdump"] + [obj])
    out = {}
    for line in r.stdout.split("\n"):
        m = re.match(r"^\s*([0-9a-f]+):\s+(.*)$", line)
        if not m:
            continue
        text = m.group(2)
        text = re.split(r"\s+[@#]\s|\s<", text)[0]         # drop comments and symbolic targets
        text = re.sub(r"\s+", " ", text.replace("\t", " ")).strip()
        out[int(m.group(1), 16)] = text
    return out


def _cross_equiv(a, b):
    """decoded texts that denote the same instruction although the encodings differ"""
    if a == b:
        return True
    def canon(t):
        m = re.match(r"^(?:str (\w+), \[sp, #-4\]!|push \{(\w+)\}|stmdb sp!, \{(\w+)\})$", t)
        if m:
            return "push1 " + next(g for g in m.groups() if g)
        m = re.match(r"^(?:ldr (\w+), \[sp\], #4|pop \{(\w+)\}|ldm sp!, \{(\w+)\})$", t)
        if m:
            return "pop1 " + next(g for g in m.groups() if g)
        return t
    if canon(a) == canon(b):
        return True
    nops = (r"^nop$", r"^mov r0, r0$", r"^or \$1, \$1, \$zero$", r"^move \$1, \$1$", r"^sll \$zero, \$zero, 0$", r"^andeq r0, r0, r0$")
    if any(re.match(n, a) for n in nops) and any(re.match(n, b) for n in nops):
        return True
    return False


def check_cross(records, idxs, tmpdir):
    """non-x86 listings: llvm-mc assembles the text; the bytes must equal Orc's own, word by word, up to encodings that decode
    to the same instruction.  A listing llvm-mc rejects is 'inconclusive' (dialect) unless the objection is to an operand of an
    instruction it knows (see below)."""
    problems = []
    nchecked = 0
    for i in idxs:
        rec = records[i]
        cfg = CROSS[rec["target"]]
        base = os.path.join(tmpdir, "x%d" % i)
        with open(base + ".s", "w") as f:
            f.write(cfg["prefix"] + rec["asm"] + "\n")
        r = run([LLVM_MC, "-filetype=obj"] + cfg["mc"] + [base + ".s", "-o", base + ".o"])
        if r.returncode != 0:
            first = [l for l in r.stdout.split("\n") if "error" in l][:1]
            src = [l for l in r.stdout.split("\n") if l.startswith("  ") or l.startswith("\t")][:1]
            err = (first or ["?"])[0]
            line = (src or [""])[0].strip()
            # a rejection is a dialect question (inconclusive) unless llvm-mc knows the instruction and objects to an operand of it:
            # an immediate outside the instruction's range, an operand kind the instruction does not have, or Orc's own "ERROR"
            # placeholder for a register it could not name.  Those lines cannot be assembled by any assembler.
            hard = ("immediate" in err or "invalid operand for instruction" in err or "ERROR" in line)
            if hard:
                reason = err.split("error:", 1)[-1].strip()
                problems.append((rec, "the listing is rejected by llvm-mc: %s  [offending line: %s]" % (reason[:100], line), False))
            else:
                problems.append((rec, "inconclusive TOOL: llvm-mc does not accept the %s listing (dialect?): %s | %s" % (
                    rec["target"], err[-120:], line), True))
            continue
        run([LLVM_OBJCOPY, "-O", "binary", "--only-section=.text", base + ".o", base + ".bin"])
        try:
            mine = open(base + ".bin", "rb").read()
        except OSError:
            problems.append((rec, "inconclusive TOOL: no .text from llvm-objcopy", True))
            continue
        nchecked += 1
        code = rec["code"]
        if mine == code:
            continue
        # decode both and compare the words that differ
        with open(base + "c.s", "w") as f:
            f.write(".text\n" + "".join(".byte %s\n" % ",".join("0x%02x" % b for b in code[k:k + 32]) for k in range(0, len(code), 32)))
        run([LLVM_MC, "-filetype=obj"] + cfg["mc"] + [base + "c.s", "-o", base + "c.o"])
        dl = _cross_decode(base + ".o", cfg)
        dc = _cross_decode(base + "c.o", cfg)
        if len(mine) != len(code):
            # find the first instruction where the decoded sequences part
            la = [dl[a] for a in sorted(dl)]
            lb = [dc[a] for a in sorted(dc)]
            k = 0
            while k < min(len(la), len(lb)) and _cross_equiv(la[k], lb[k]):
                k += 1
            problems.append((rec, "instruction %d differs: listing assembles to `%s`, orc emitted `%s` (%d vs %d bytes)" % (
                k, la[k] if k < len(la) else "<end>", lb[k] if k < len(lb) else "<end>", len(mine), len(code)), False))
            continue
        bad = None
        for off in range(0, len(code), 4):
            if mine[off:off + 4] == code[off:off + 4]:
                continue
            a, b = dl.get(off, "<undecoded %s>" % mine[off:off + 4].hex()), dc.get(off, "<undecoded %s>" % code[off:off + 4].hex())
            if not _cross_equiv(a, b):
                bad = (off // 4, a, b)
                break
        if bad:
            problems.append((rec, "instruction %d differs: listing assembles to `%s`, orc emitted `%s`" % bad, False))
    # what `orcc --assembly` writes for a file with several functions is the concatenation of their listings: two listings that
    # assemble on their own must assemble together.  The second one gets the first one's function name with "1" appended (k, k1),
    # which is how separator-less label schemes collide.
    prev = {}
    npairs = 0
    for i in idxs:
        rec = records[i]
        if any(q[0] is rec for q in problems):
            continue
        m = re.search(r"^\.global\s+(\S+)", rec["asm"], re.M)
        if not m:
            continue
        t = rec["target"]
        if t in prev and npairs < 400:
            first, fname = prev[t]
            m2 = re.search(r"^\.global\s+(\S+)", first["asm"], re.M)
            name1 = m2.group(1)
            # every occurrence of the second function's name, also inside local labels (.L<name>_<n>, .L<name><n>), becomes <name1>1
            second = re.sub(r"%s(?![A-Za-z])" % re.escape(m.group(1)), name1 + "1", rec["asm"])
            base = os.path.join(tmpdir, "pair%d" % i)
            with open(base + ".s", "w") as f:
                f.write(CROSS[t]["prefix"] + first["asm"] + "\n" + second + "\n")
            r = run([LLVM_MC, "-filetype=obj"] + CROSS[t]["mc"] + [base + ".s", "-o", base + ".o"])
            npairs += 1
            if r.returncode != 0 and "already defined" in r.stdout:
                line = [l for l in r.stdout.split("\n") if "already defined" in l][:1]
                problems.append((rec, "two listings that assemble separately do not assemble as one file (as orcc --assembly writes them): %s" % (
                    line[0].split("error:", 1)[-1].strip()[:120]), False))
            del prev[t]
        else:
            prev[t] = (rec, m.group(1))
    return problems, nchecked


def check_c12(records, tmpdir, batch=150):
    """returns list of (record, message) problems."""
    problems = []
    by_bits = {64: [], 32: []}
    seen = set()
    cross_idx = []
    for i, r in enumerate(records):
        if r["target"] in CROSS:
            h = hashlib.sha1((r["asm"] + "|" + r["target"]).encode() + r["code"]).hexdigest()
            if h not in seen:
                seen.add(h)
                cross_idx.append(i)
    if cross_idx:
        cp, cn = check_cross(records, cross_idx, tmpdir)
        problems += cp
    else:
        cn = 0
    x86_records = [(i, r) for i, r in enumerate(records) if r["target"] not in CROSS]
    for i, r in x86_records:
        h = hashlib.sha1((r["asm"] + "|%d" % r["bits"]).encode() + r["code"]).hexdigest()
        if h in seen:
            continue
        seen.add(h)
        by_bits[r["bits"]].append((i, r))
    nchecked = 0
    for bits, lst in by_bits.items():
        for b0 in range(0, len(lst), batch):
            part = lst[b0:b0 + batch]
            listing_chunks = []
            code_chunks = []
            for i, r in part:
                pre = "vl%d" % i
                text = ".p2align 6\n%s_begin:\n%s\n%s_finish:\n hlt\n" % (pre, rename_listing(r["asm"], pre), pre)
                listing_chunks.append((i, text))
                hexbytes = ",".join("0x%02x" % b for b in r["code"])
                code_chunks.append((i, ".p2align 6\nvc%d_begin:\n.byte %s\nvc%d_finish:\n hlt\n" % (i, hexbytes, i)))
            tag = "b%d_%d" % (bits, b0)
            obj_l, errs, ok_keys = assemble_batch(tmpdir, tag + "_l", listing_chunks, bits)
            for k, msg in errs.items():
                rec = records[k]
                if msg.startswith("TOOL:"):
                    problems.append((rec, "inconclusive " + msg, True))
                else:
                    problems.append((rec, "the listing is rejected by GNU as: " + msg, False))
            obj_c, _, _ = assemble_batch(tmpdir, tag + "_c", [c for c in code_chunks if c[0] in set(ok_keys)], bits)
            if not obj_l or not obj_c:
                continue
            sl = objdump_syms(obj_l, bits)
            sc = objdump_syms(obj_c, bits)
            for i in ok_keys:
                rec = records[i]
                # the listing's instructions live under its (renamed) function label(s) between begin and finish
                li = []
                for name, ins in sl.items():
                    if name.startswith("vl%d_" % i) and not name.endswith("_finish"):
                        li += ins
                li.sort()
                ci = []
                for name, ins in sc.items():
                    if name == "vc%d_begin" % i:
                        ci += ins
                a = normalise(li)
                b = normalise(ci)
                nchecked += 1
                if a != b:
                    k = 0
                    while k < min(len(a), len(b)) and a[k] == b[k]:
                        k += 1
                    la = a[k] if k < len(a) else "<end>"
                    lb = b[k] if k < len(b) else "<end>"
                    problems.append((rec, "instruction %d differs: listing assembles to `%s`, orc emitted `%s`" % (k, la, lb), False))
    return problems, nchecked + cn


XMM_RE = re.compile(r"%[xy]mm\d")


def check_c11(records, tmpdir, batch=150):
    problems = []
    seen = set()
    by_bits = {64: [], 32: []}
    for i, r in enumerate(records):
        h = hashlib.sha1((r["asm"] + "|%d|%s|%x" % (r["bits"], r["target"], r["flags"] & 0xc7f)).encode()).hexdigest()
        if h in seen:
            continue
        seen.add(h)
        by_bits[r["bits"]].append((i, r))
    nchecked = 0
    for bits, lst in by_bits.items():
        for b0 in range(0, len(lst), batch):
            part = lst[b0:b0 + batch]
            chunks = []
            for i, r in part:
                if r["target"] == "mmx":
                    m = XMM_RE.search(r["asm"])
                    if m:
                        problems.append((r, "mmx code uses an SSE register: " + m.group(0), False))
                pre = "vg%d" % i
                text = "\n".join(arch_lines(r)) + "\n%s_begin:\n%s\n" % (pre, rename_listing(r["asm"], pre))
                chunks.append((i, text))
            # listings that do not assemble even without restriction are C12's finding, not a feature-gate violation
            plain = [(i, "%s_begin:\n%s\n" % ("vp%d" % i, rename_listing(r["asm"], "vp%d" % i))) for i, r in part]
            _, perrs, _ = assemble_batch(tmpdir, "p%d_%d" % (bits, b0), plain, bits)
            chunks = [c for c in chunks if c[0] not in perrs]
            obj, errs, ok_keys = assemble_batch(tmpdir, "g%d_%d" % (bits, b0), chunks, bits)
            nchecked += len(chunks)
            for k, msg in errs.items():
                rec = records[k]
                if msg.startswith("TOOL:"):
                    problems.append((rec, "inconclusive " + msg, True))
                else:
                    problems.append((rec, "instruction outside the enabled feature set (%s): %s" % (
                        " ".join(a.split()[-1] for a in arch_lines(rec)), msg), False))
    return problems, nchecked
