"""Oracle half of C11/C12: GNU as + objdump over the listings emitted by props/c12_listing.c.

C12: listing --as--> bytes --objdump--> instruction sequence  must equal  objdump(orc's own bytes)
C11: listing must assemble under an .arch setting derived only from the target flag set
"""
import hashlib
import os
import re
import subprocess
import tempfile

SSE_FLAGS = dict(SSE2=1 << 0, SSE3=1 << 1, SSSE3=1 << 2, SSE4_1=1 << 3, SSE4_2=1 << 4, FP=1 << 7, SJ=1 << 8, B64=1 << 9,
                 AVX=1 << 10, AVX2=1 << 11)
MMX_FLAGS = dict(MMX=1 << 0, MMXEXT=1 << 1, SSSE3=1 << 4, SSE4_1=1 << 5, FP=1 << 7, SJ=1 << 8, B64=1 << 9)


def parse_records(path):
    recs = []
    if not os.path.exists(path):
        return recs
    cur = None
    section = None
    with open(path, errors="replace") as f:
        for line in f:
            if line.startswith("@@case "):
                cur = dict(kv.split("=", 1) for kv in line.split()[1:])
                cur["flags"] = int(cur["flags"], 16)
                cur["bits"] = int(cur["bits"])
                cur["prog"] = ""
                cur["asm"] = ""
                section = None
            elif cur is None:
                continue
            elif line.startswith("@@stream"):
                cur["stream"] = line[len("@@stream"):].strip()
            elif line.startswith("@@prog"):
                section = "prog"
            elif line.startswith("@@asm"):
                section = "asm"
            elif line.startswith("@@code"):
                cur["code"] = bytes.fromhex(line[len("@@code"):].strip())
                section = None
            elif line.startswith("@@end"):
                if "code" in cur:
                    recs.append(cur)
                cur = None
            elif section:
                cur[section] += line
    return recs


def arch_lines(rec):
    """`.arch` prefix derived only from (target, flags, bits)."""
    t, f, bits = rec["target"], rec["flags"], rec["bits"]
    base = ".arch generic64" if bits == 64 else ".arch i686"
    ext = [".ibt"]
    if t in ("sse", "avx"):
        if bits == 32:
            ext += [".mmx", ".sse", ".sse2"]
        if f & SSE_FLAGS["SSE3"]:
            ext.append(".sse3")
        if f & SSE_FLAGS["SSSE3"]:
            ext.append(".ssse3")
        if f & SSE_FLAGS["SSE4_1"]:
            ext.append(".sse4.1")
        if f & SSE_FLAGS["SSE4_2"]:
            ext.append(".sse4.2")
        if t == "avx":
            if f & SSE_FLAGS["AVX"]:
                ext.append(".avx")
            if f & SSE_FLAGS["AVX2"]:
                ext.append(".avx2")
    else:
        if bits == 64:
            ext = [".nosse", ".mmx", ".ibt"]
        else:
            ext = [".mmx", ".ibt"]
        if f & MMX_FLAGS["MMXEXT"]:
            ext.append(".3dnowa")
        # SSSE3 / SSE4.1 bits of the mmx target only ever allow the %mm forms: xmm use is checked on the text
        if f & MMX_FLAGS["SSSE3"]:
            ext.append(".ssse3")
        if f & MMX_FLAGS["SSE4_1"]:
            ext.append(".sse4.1")
    return [base] + [".arch " + e for e in ext]


LABEL_RE = re.compile(r"^([A-Za-z_][A-Za-z0-9_.]*):\s*$")
GLOBAL_RE = re.compile(r"^\s*\.global\s+(\S+)")


def rename_listing(asm, prefix):
    """make the function label unique inside a batch"""
    out = []
    for line in asm.split("\n"):
        m = GLOBAL_RE.match(line)
        if m:
            continue
        m = LABEL_RE.match(line)
        if m:
            out.append("%s_%s:" % (prefix, re.sub(r"[^A-Za-z0-9_]", "_", m.group(1))))
            continue
        out.append(line)
    return "\n".join(out)


NOP_RE = re.compile(r"^(nop|nopw|nopl|xchg\s+%ax,%ax|data16|cs nopw|lea\s+0x0\(%[re]si(,%[re]iz,1)?\),%[re]si|xchg\s+%eax,%eax)\b")
INSN_RE = re.compile(r"^\s*([0-9a-f]+):\t(.*)$")
SYM_RE = re.compile(r"^[0-9a-f]+ <([^>]+)>:$")
BRANCH_RE = re.compile(r"^(j[a-z]+|jmp|call|loop[a-z]*)\s+([0-9a-f]+)(\s+<.*>)?$")


def run(cmd, **kw):
    return subprocess.run(cmd, stdout=subprocess.PIPE, stderr=subprocess.STDOUT, text=True, **kw)


def objdump_syms(obj, bits):
    r = run(["objdump", "-d", "--no-show-raw-insn", "-w", "-M", "suffix" if False else "att", obj])
    syms = {}
    cur = None
    for line in r.stdout.split("\n"):
        m = SYM_RE.match(line)
        if m:
            cur = m.group(1)
            syms[cur] = []
            continue
        m = INSN_RE.match(line)
        if m and cur is not None:
            syms[cur].append((int(m.group(1), 16), m.group(2).strip()))
    return syms


def normalise(insns):
    """[(addr, text)] -> list of comparable tuples; nop padding dropped, branch targets as ordinals."""
    keep = []
    for addr, text in insns:
        text = re.sub(r"\s+", " ", text.strip())
        text = re.sub(r"\s*#.*$", "", text)
        if NOP_RE.match(text) or text == "(bad)" and False:
            continue
        keep.append((addr, text))
    addrs = [a for a, _ in keep]

    def ordinal(target):
        # first kept instruction at or after the target address
        lo, hi = 0, len(addrs)
        while lo < hi:
            mid = (lo + hi) // 2
            if addrs[mid] < target:
                lo = mid + 1
            else:
                hi = mid
        return lo
    out = []
    for addr, text in keep:
        m = BRANCH_RE.match(text)
        if m:
            out.append("%s ->#%d" % (m.group(1), ordinal(int(m.group(2), 16))))
        else:
            out.append(text)
    return out


def assemble_batch(tmpdir, tag, chunks, bits):
    """chunks: list of (key, text).  Returns (objpath or None, {key: error}) ; failing chunks are dropped and retried."""
    errors = {}
    chunks = list(chunks)
    for _ in range(len(chunks) + 1):
        if not chunks:
            return None, errors, []
        src = os.path.join(tmpdir, tag + ".s")
        owner = [None]          # 1-based line numbers
        srclines = [""]
        with open(src, "w") as f:
            f.write(".text\n")
            owner.append(None)
            srclines.append(".text")
            for key, text in chunks:
                for line in text.split("\n"):
                    f.write(line + "\n")
                    owner.append(key)
                    srclines.append(line)
        obj = os.path.join(tmpdir, tag + ".o")
        r = run(["as", "--64" if bits == 64 else "--32", src, "-o", obj])
        if r.returncode == 0:
            return obj, errors, [k for k, _ in chunks]
        bad = set()
        for line in r.stdout.split("\n"):
            m = re.match(r"^[^:]+:(\d+): (Error|Fatal error): (.*)$", line)
            if m:
                ln = int(m.group(1))
                key = owner[ln] if ln < len(owner) else None
                if key is not None and key not in errors:
                    errors[key] = "%s  [offending line: %s]" % (m.group(3), srclines[ln].strip() if ln < len(srclines) else "?")
                    bad.add(key)
        if not bad:
            # cannot attribute: give up on the whole batch conservatively (reported as tool problem, not violation)
            for k, _ in chunks:
                errors.setdefault(k, "TOOL: unattributed assembler failure: " + r.stdout[-300:])
            return None, errors, []
        chunks = [(k, t) for k, t in chunks if k not in bad]
    return None, errors, []


def check_c12(records, tmpdir, batch=150):
    """returns list of (record, message) problems."""
    problems = []
    by_bits = {64: [], 32: []}
    seen = set()
    for i, r in enumerate(records):
        h = hashlib.sha1((r["asm"] + "|%d" % r["bits"]).encode() + r["code"]).hexdigest()
        if h in seen:
            continue
        seen.add(h)
        by_bits[r["bits"]].append((i, r))
    nchecked = 0
    for bits, lst in by_bits.items():
        for b0 in range(0, len(lst), batch):
            part = lst[b0:b0 + batch]
            listing_chunks = []
            code_chunks = []
            for i, r in part:
                pre = "vl%d" % i
                text = ".p2align 6\n%s_begin:\n%s\n%s_finish:\n hlt\n" % (pre, rename_listing(r["asm"], pre), pre)
                listing_chunks.append((i, text))
                hexbytes = ",".join("0x%02x" % b for b in r["code"])
                code_chunks.append((i, ".p2align 6\nvc%d_begin:\n.byte %s\nvc%d_finish:\n hlt\n" % (i, hexbytes, i)))
            tag = "b%d_%d" % (bits, b0)
            obj_l, errs, ok_keys = assemble_batch(tmpdir, tag + "_l", listing_chunks, bits)
            for k, msg in errs.items():
                rec = records[k]
                if msg.startswith("TOOL:"):
                    problems.append((rec, "inconclusive " + msg, True))
                else:
                    problems.append((rec, "the listing is rejected by GNU as: " + msg, False))
            obj_c, _, _ = assemble_batch(tmpdir, tag + "_c", [c for c in code_chunks if c[0] in set(ok_keys)], bits)
            if not obj_l or not obj_c:
                continue
            sl = objdump_syms(obj_l, bits)
            sc = objdump_syms(obj_c, bits)
            for i in ok_keys:
                rec = records[i]
                # the listing's instructions live under its (renamed) function label(s) between begin and finish
                li = []
                for name, ins in sl.items():
                    if name.startswith("vl%d_" % i) and not name.endswith("_finish"):
                        li += ins
                li.sort()
                ci = []
                for name, ins in sc.items():
                    if name == "vc%d_begin" % i:
                        ci += ins
                a = normalise(li)
                b = normalise(ci)
                nchecked += 1
                if a != b:
                    k = 0
                    while k < min(len(a), len(b)) and a[k] == b[k]:
                        k += 1
                    la = a[k] if k < len(a) else "<end>"
                    lb = b[k] if k < len(b) else "<end>"
                    problems.append((rec, "instruction %d differs: listing assembles to `%s`, orc emitted `%s`" % (k, la, lb), False))
    return problems, nchecked


XMM_RE = re.compile(r"%[xy]mm\d")


def check_c11(records, tmpdir, batch=150):
    problems = []
    seen = set()
    by_bits = {64: [], 32: []}
    for i, r in enumerate(records):
        h = hashlib.sha1((r["asm"] + "|%d|%s|%x" % (r["bits"], r["target"], r["flags"] & 0xc7f)).encode()).hexdigest()
        if h in seen:
            continue
        seen.add(h)
        by_bits[r["bits"]].append((i, r))
    nchecked = 0
    for bits, lst in by_bits.items():
        for b0 in range(0, len(lst), batch):
            part = lst[b0:b0 + batch]
            chunks = []
            for i, r in part:
                if r["target"] == "mmx":
                    m = XMM_RE.search(r["asm"])
                    if m:
                        problems.append((r, "mmx code uses an SSE register: " + m.group(0), False))
                pre = "vg%d" % i
                text = "\n".join(arch_lines(r)) + "\n%s_begin:\n%s\n" % (pre, rename_listing(r["asm"], pre))
                chunks.append((i, text))
            # listings that do not assemble even without restriction are C12's finding, not a feature-gate violation
            plain = [(i, "%s_begin:\n%s\n" % ("vp%d" % i, rename_listing(r["asm"], "vp%d" % i))) for i, r in part]
            _, perrs, _ = assemble_batch(tmpdir, "p%d_%d" % (bits, b0), plain, bits)
            chunks = [c for c in chunks if c[0] not in perrs]
            obj, errs, ok_keys = assemble_batch(tmpdir, "g%d_%d" % (bits, b0), chunks, bits)
            nchecked += len(chunks)
            for k, msg in errs.items():
                rec = records[k]
                if msg.startswith("TOOL:"):
                    problems.append((rec, "inconclusive " + msg, True))
                else:
                    problems.append((rec, "instruction outside the enabled feature set (%s): %s" % (
                        " ".join(a.split()[-1] for a in arch_lines(rec)), msg), False))
    return problems, nchecked
