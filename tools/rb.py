#!/usr/bin/env python3
"""rebuild the library variant and the driver of one property; print the binary path"""
import sys, os
sys.path.insert(0, os.path.dirname(os.path.abspath(__file__)))
import runner, registry
cfg = registry.PROPS[sys.argv[1]]
print(runner.build_driver_binary(sys.argv[1], cfg["variant"], cfg["sources"], cfg.get("cflags", ()), cfg.get("ldflags", ())))
