#!/usr/bin/env python3
"""Record every `fix:` commit of /repo in known_findings.json as a fixed entry (property mapping by hand below)."""
import json, subprocess, os
VERIF = os.path.dirname(os.path.dirname(os.path.abspath(__file__)))
PROP = {  # commit subject keyword -> property
    "loop-shift computation never terminated": "C05",
    "the listing": "C12", "NEON listing": "C12", "listing printed": "C12", "listing named": "C12", "listing gave": "C12", "avx listing": "C12",
    "avx sqrtf was emitted as a three-operand": "C12",
    "ldreslinl advanced its source pointer with a 64-bit lea": "C12",
    "registered in the SSE 4.1 rule set": "C11",
    "checked-in emulator had drifted": "C04", "absl negated its 32-bit operand": "C04",
    "convussql": "C02",
    "used with two different element sizes": "C02",
    "double parameters were serialised": "C13",
    "bytecode encoder aborted": "C13",
    "push/pop of r8-r15": "C10", "MXCSR": "C10", "loadupib read two source bytes": "C03",
    "parser": "C14", "orc_parse_code": "C14", "_strtoll": "C14", "operand that starts like a number": "C14",
    "directive or an opcode before": "C14", "more than 16 tokens": "C14",
    "appending more than ORC_N_INSNS": "C05", "tables overflowed": "C05", "without any array variable": "C05",
    "temporary register after the last instruction": "C05", "running out of general registers": "C05",
    "three-byte VEX prefix set pp=66": "C12",
    "VEX encoding of the float compare": "C12",
    "leaked the compiler object": "C16", "leaked the previous type name": "C16", "double-checked locking": "C08",
    "running out of compiler table space": "C05", "stored -1 for an unknown operand name": "C05", "alloc_regs[-1]": "C05",
    "aborted (ORC_ASSERT) on a scalar constant": "C05", "wider than ORC_MAX_VAR_SIZE": "C05", "c64x-c back end indexed": "C05",
    "an accumulator used as a source operand": "C05", "64 KiB code buffer": "C05", "instruction queue grew by ten": "C05", "fixup tables": "C05", "constant table (ORC_N_CONSTANTS": "C05",
    "name the fourth accumulator a4": "C07", "orcc --compat below 0.4.6.1": "C07", "calls to a .backup function": "C07",
    "NEON 16-bit accumulator reduction": "C12",
    "operand named nan/inf": "C15", "name starting with an underscore were merged": "C15", "an alignment of 0 set through": "C15",
    "NEON listing claimed 256-bit alignment": "C12", "skipped the sixteenth temporary": "C14", "took any text as the number of a directive": "C14",
    "opcode set handles went stale": "C20", "cmpgtsq rule that emits pcmpgtq on MMX": "C11", "right shift by a constant 0 was emitted": "C12",
    "negative immediate for ori": "C12", "local labels of ARM/NEON listings were not unique": "C12", "lost the caller's %ebx": "C10", "destination pointer kept in memory": "C10", "computed the 16.16 position in 32 bits": "C04",
    "prefixed loadX/storeX read and wrote the wrong elements": "C02", "__sync implementation of OrcOnce": "C08",
    "kept the previous code attached": "C05", "emitters wrote past the 64 KiB": "C05", "literal-pool labels were allocated twice": "C05",
    "zero or negative size": "C05", "flag bits reserved for the compiler": "C05",
    "written in hex with the top bit set": "C15", "declared with .const under its own name": "C15", "repeats an existing constant": "C15",
}
log = subprocess.run(["git", "-C", "/repo", "log", "--format=%h %s"], stdout=subprocess.PIPE, text=True).stdout.strip().split("\n")
fixed = []
for line in reversed(log):
    h, subj = line.split(" ", 1)
    if not subj.startswith("fix:"):
        continue
    prop = "C01"
    for k, v in PROP.items():
        if k in subj:
            prop = v
    extra = json.load(open(os.path.join(VERIF, "tools", "fixed_overrides.json"))) if os.path.exists(os.path.join(VERIF, "tools", "fixed_overrides.json")) else {}
    prop = extra.get(h, prop)
    fixed.append({"status": "fixed", "property": prop, "commit": h,
                  "entry": "fixed: property=%s %s %s" % (prop, h, subj[len("fix:"):].strip())})
path = os.path.join(VERIF, "known_findings.json")
d = json.load(open(path))
d["fixed"] = fixed
json.dump(d, open(path, "w"), indent=1)
print(len(fixed), "fixed entries")
