/* debugging aid: try_orc file.orc target flags n [m] : native vs emulation on pseudo-random data */
#include <orc/orc.h>
#include <orc/orcparse.h>
#include <stdio.h>
#include <stdlib.h>
#include <string.h>
static unsigned long long sm(unsigned long long x){x+=0x9e3779b97f4a7c15ULL;x=(x^(x>>30))*0xbf58476d1ce4e5b9ULL;x=(x^(x>>27))*0x94d049bb133111ebULL;return x^(x>>31);}
int main(int argc,char**argv){
  orc_init();
  FILE*f=fopen(argv[1],"r"); char*buf=malloc(1<<20); size_t l=fread(buf,1,(1<<20)-1,f); buf[l]=0;
  OrcProgram **progs; char*log=NULL; int np=orc_parse_full(buf,&progs,&log); if(log) printf("%s",log);
  OrcTarget*t=orc_target_get_by_name(argv[2]); unsigned flags=argc>3&&strcmp(argv[3],"-")?strtoul(argv[3],0,0):orc_target_get_default_flags(t);
  int n=argc>4?atoi(argv[4]):17, m=argc>5?atoi(argv[5]):1; int show=argc>6; if(show) orc_debug_set_level(0);
  for(int k=0;k<np;k++){ OrcProgram*p=progs[k];
    OrcCompileResult r=orc_program_compile_full(p,t,flags); printf("%s: compile 0x%x flags 0x%x\n",p->name,r,flags);
    if(show&&p->asm_code) printf("%s\n",p->asm_code);
    if(!ORC_COMPILE_RESULT_IS_SUCCESSFUL(r)) continue;
    OrcExecutor a,b; memset(&a,0,sizeof a); memset(&b,0,sizeof b); orc_executor_set_program(&a,p); orc_executor_set_program(&b,p);
    a.n=b.n=n; if(p->is_2d){ORC_EXECUTOR_M(&a)=m;ORC_EXECUTOR_M(&b)=m;} else m=1;
    unsigned char*A[64]={0},*B[64]={0}; int sz[64]={0};
    for(int i=0;i<64;i++){ OrcVariable*v=&p->vars[i]; if(v->vartype==ORC_VAR_TYPE_SRC||v->vartype==ORC_VAR_TYPE_DEST){ int st=(n+40)*v->size; sz[i]=st*m+4096; A[i]=malloc(sz[i]);B[i]=malloc(sz[i]); for(int j=0;j<sz[i];j++){A[i][j]=B[i][j]=(unsigned char)sm(i*100003+j);} a.arrays[i]=A[i]+64;b.arrays[i]=B[i]+64; a.params[i]=b.params[i]=st;} else if(v->vartype==ORC_VAR_TYPE_PARAM){ int val=(int)sm(i)&0x1ffff; a.params[i]=b.params[i]=val; } }
    orc_executor_run(&a); orc_executor_emulate(&b);
    int bad=0; for(int i=0;i<64;i++) if(A[i]&&memcmp(A[i],B[i],sz[i])){ for(int j=0;j<sz[i];j++) if(A[i][j]!=B[i][j]){printf("  var %d (%s) byte %d (elem %d): native %02x emu %02x\n",i,p->vars[i].name,j-64,(j-64)/p->vars[i].size,A[i][j],B[i][j]); if(++bad>6)break;} }
    for(int i=0;i<4;i++) if(a.accumulators[i]!=b.accumulators[i]) {printf("  acc %d native %x emu %x\n",i,a.accumulators[i],b.accumulators[i]);bad++;}
    printf("  %s\n",bad?"MISMATCH":"same");
  }
  return 0; }
